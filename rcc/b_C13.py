"""
Bounded stand-in for C13 - merging one Section into another is complete, conservative and all-or-nothing.

Pairs (dest, src) of Section trees are generated from a common skeleton (every forest shape up to N nodes).
Every skeleton node exists in both trees and carries: attributes to fill in both directions, a Property
present in both trees (src brings a new value), Properties and a child Section present on one side only.
Exactly one *feature* (conflict / near-conflict / conversion / name clash ...) is injected at every node
position in turn, x strict on/off.  The skeleton gives merge something to change before it reaches the feature
(fillable attributes on the way down, an earlier sibling Section that dest lacks).
Further dimensions:
  * naming of the children (SHARING): names are unique per child list only, so every node of both trees is given,
    in turn on dest / src / both, a Property named like each child Section (of either tree) and like the Section
    itself, a child Section named like each Property (the feature Property included), both at once, and - on src -
    children whose names differ from dest's in case / white space only (different names: they have to be added);
  * ordered pairs of features: something merge changes or cannot merge (same-named Section of another type,
    attributes to fill, values to convert) at a node, one conflict of every kind at a later / deeper node;
  * random: 1-3 features, randomly thinned overlap, random naming mode, trees living in documents;
  * merge histories (run_merge_history): the trees handed to merge are not fresh.  Histories of 2-4 merges that
    involve the same objects (same source again / three times, a sub-tree first and then the whole tree and the
    reverse, after unmerge / clean, a clone of the destination / of the source, a source that was a destination
    before, a<-b b<-c a<-b, two sources into one destination, one source into two destinations, both directions,
    Property.merge after the Section merge, two Properties merged twice) x an edit of source and / or destination
    between the merges at every skeleton position (source gains a value / attribute / Property / Section, also
    inside what the destination only has as a copy; source shrinks; a conflict is introduced; destination loses
    what it gained, is emptied, grows) x strictness chosen per merge.  EVERY merge of a history is judged with
    the full contract on snapshots taken around that one call: complete and conservative with respect to the
    source as it is at that moment; a refused merge changed nothing.

The oracle works on snapshots (rcc.harness, private fields) taken before and after the call and is written
from the statement:
  success  => complete (every child of src has a counterpart, recursively), merged Properties keep own values
              and gain the lacking ones, unset attributes filled / set ones kept, dest-only children and all
              of src unchanged;
  strict and a real conflict anywhere  => ValueError;
  any raise => both trees unchanged.
"""
from __future__ import annotations

import datetime as dt
import itertools
import random

from rcc import harness as h

odml = h.odml


class Col(h.Collector):
    """Keeps at most 3 failures per (check, cls) so that a frequent class cannot hide the others."""
    def __init__(self, *a, **kw):
        super(Col, self).__init__(*a, **kw)
        self.max_failures = 400
        self.per_class = {}

    def fail(self, check, cls, witness, detail):
        key = (check, tuple(sorted(cls.items())))
        self.per_class[key] = self.per_class.get(key, 0) + 1
        if self.per_class[key] <= 3:
            super(Col, self).fail(check, cls, witness, detail)


# ---------------------------------------------------------------------------------------------
# specs -> objects
# ---------------------------------------------------------------------------------------------

def P(name, dtype=None, values=None, unit=None, uncertainty=None, definition=None, reference=None, value_origin=None):
    return {'name': name, 'dtype': dtype, 'values': list(values or []), 'unit': unit, 'uncertainty': uncertainty,
            'definition': definition, 'reference': reference, 'value_origin': value_origin}


def S(name, type_='t', definition=None, reference=None, props=None, secs=None):
    return {'name': name, 'type': type_, 'definition': definition, 'reference': reference,
            'props': list(props or []), 'secs': list(secs or [])}


def build_prop(spec, parent=None):
    return odml.Property(name=spec['name'], dtype=spec['dtype'], values=list(spec['values']) or None,
                         unit=spec['unit'], uncertainty=spec['uncertainty'], definition=spec['definition'],
                         reference=spec['reference'], value_origin=spec['value_origin'], parent=parent)


def build_sec(spec, parent=None):
    sec = odml.Section(name=spec['name'], type=spec['type'], definition=spec['definition'],
                       reference=spec['reference'], parent=parent)
    for p in spec['props']:
        build_prop(p, sec)
    for c in spec['secs']:
        build_sec(c, sec)
    return sec


# ---------------------------------------------------------------------------------------------
# oracle on snapshots (dicts as produced by harness.snap_sec / snap_prop with parent=False)
# ---------------------------------------------------------------------------------------------

UNCONVERTIBLE = '<unconvertible>'

# (src dtype, src value, dest dtype) -> value the destination must gain.  Written by hand (lossless cases only).
CONVERSIONS = [
    ('string', '7', 'int', 7),
    ('string', '1.5', 'float', 1.5),
    ('int', 7, 'float', 7.0),
    ('int', 7, 'string', '7'),
    ('float', 2.0, 'int', 2),
    ('string', '2020-01-02', 'date', dt.date(2020, 1, 2)),
    ('date', dt.date(2020, 1, 2), 'string', '2020-01-02'),
    ('string', 'x', 'int', UNCONVERTIBLE),
    ('string', 'x', 'float', UNCONVERTIBLE),
    ('string', 'not a date', 'date', UNCONVERTIBLE),
    ('string', 'x', '2-tuple', UNCONVERTIBLE),
    # ---- value content: values that are falsy / empty looking, before or after the conversion.  An empty string
    # stands for 'no content': in a number it is the documented default of that dtype (odml.dtypes.default_values:
    # int 0, float 0.0), in a date it is *some* date (the default is the current day: only the type is checked).
    ('string', '', 'int', 0),
    ('string', '', 'float', 0.0),
    ('string', '', 'text', ''),
    ('string', ' ', 'text', ' '),
    ('text', '', 'string', ''),
    ('text', ' ', 'string', ' '),
    ('text', '', 'int', 0),
    ('string', '', 'date', ('any', 'date')),
    ('string', '0', 'int', 0),
    ('string', '0.0', 'float', 0.0),
    ('int', 0, 'float', 0.0),
    ('int', 0, 'string', '0'),
    ('float', 0.0, 'int', 0),
    ('float', 0.0, 'string', '0.0'),
    # ---- ordinary companions of the values above
    ('string', '8', 'int', 8),
    ('string', '2.5', 'float', 2.5),
    ('string', 'b', 'text', 'b'),
    ('string', 'c', 'text', 'c'),
    ('text', 'b', 'string', 'b'),
    ('text', 'c', 'string', 'c'),
    ('text', '7', 'int', 7),
    ('text', '8', 'int', 8),
    ('string', '2021-03-04', 'date', dt.date(2021, 3, 4)),
    ('int', 8, 'float', 8.0),
    ('int', 8, 'string', '8'),
    ('float', 3.0, 'int', 3),
    ('float', 2.5, 'string', '2.5'),
    ('float', 3.5, 'string', '3.5'),
]
ANY = 'any'             # ('any', <type tag of harness._val>): some value of that type, no matter which


def _is_any(conv):
    return isinstance(conv, tuple) and len(conv) == 2 and conv[0] == ANY


CONV = {(sd, h._val(sv), dd): (ev if ev is UNCONVERTIBLE or _is_any(ev) else h._val(ev)) for sd, sv, dd, ev in CONVERSIONS}
RAW_CONV = {(sd, repr(sv), dd): ev for sd, sv, dd, ev in CONVERSIONS}


def value_class(v):
    """Why a (snapshot) value is special: values that look empty / false although they are legitimate content."""
    if v == '':
        return 'empty-string'
    if isinstance(v, str):
        return 'blank-string' if not v.strip() else None
    if v == 0 and isinstance(v, int):
        return 'zero'
    if isinstance(v, tuple) and v:
        if v[0] == 'float' and float(v[1]) == 0.0:
            return 'zero'
        if v[0] == 'bool' and v[1] is False:
            return 'false'
        if v[0] == 'date' and v[1] == dt.date.min.isoformat():
            return 'min-date'
        if v[0] == 'time' and v[1] == dt.time(0, 0).isoformat():
            return 'midnight'
        if v[0] == 'datetime' and v[1] == dt.datetime.min.isoformat():
            return 'min-datetime'
        if v[0] == 'list' and all(x in ('', '0', '0.0') or (isinstance(x, str) and not x.strip()) for x in v[1:]):
            return 'empty-looking-tuple'
    return None


def _special(values):
    """Label suffix naming the special values among `values` ('' when all are ordinary)."""
    kinds = sorted({value_class(v) for v in values} - {None})
    return (', %s value' % '/'.join(kinds)) if kinds else ''

EMPTY_SEC = {'_definition': None, '_reference': None, 'props': (), 'sections': (), 'type': None, '_name': None}
EMPTY_PROP = {'_dtype': None, '_unit': None, '_uncertainty': None, '_definition': None, '_reference': None,
              '_value_origin': None, 'values': (), '_name': None}
PROP_FILL = ('_definition', '_reference', '_unit', '_uncertainty', '_value_origin')
SEC_FILL = ('_definition', '_reference')


def norm(text):
    return ''.join(str(text).split()).lower()


def text_conflict(a, b):
    """'hard' = differ beyond case/whitespace, 'soft' = differ in case/whitespace only, None = no conflict."""
    if a is None or b is None or a == b:
        return None
    return 'hard' if norm(a) != norm(b) else 'soft'


def by_name(items):
    return {i['_name']: i for i in items}


def find_conflicts(d, s, path, out):
    """Collect (severity, kind, path) over all matched pairs of the two Section snapshots."""
    for attr in SEC_FILL:
        sev = text_conflict(d[attr], s[attr])
        if sev:
            out.append((sev, 'section' + attr, path))
    dprops = by_name(d['props'])
    for sp in s['props']:
        dp = dprops.get(sp['_name'])
        if dp is not None:
            find_prop_conflicts(dp, sp, path + ':' + sp['_name'], out)
    dsecs = by_name(d['sections'])
    for sc in s['sections']:
        dc = dsecs.get(sc['_name'])
        if dc is None:
            continue
        if dc['type'] != sc['type']:
            out.append(('clash', 'same-name-different-type-section', path + '/' + sc['_name']))
        else:
            find_conflicts(dc, sc, path + '/' + sc['_name'], out)


def find_prop_conflicts(dp, sp, path, out):
    if dp['_dtype'] is not None and sp['_dtype'] is not None and dp['_dtype'] != sp['_dtype']:
        out.append(('hard', 'property_dtype', path))
    for attr in ('_unit', '_definition', '_reference', '_value_origin'):
        sev = text_conflict(dp[attr], sp[attr])
        if sev and attr == '_unit':
            # a unit is a symbol, not prose: 'mV' and 'MV' (or 'm s' and 'ms') are different units, so any
            # difference is a conflict the strict merge has to refuse (the statement lists unit conflicts
            # without any normalisation; only prose attributes may be compared leniently)
            sev = 'hard'
        if sev:
            out.append((sev, 'property' + attr, path))
    a, b = dp['_uncertainty'], sp['_uncertainty']
    if a is not None and b is not None:
        fa = float(a[1]) if isinstance(a, tuple) else a
        fb = float(b[1]) if isinstance(b, tuple) else b
        if fa != fb:
            out.append(('hard', 'property_uncertainty', path))


def check_prop_post(pre_d, pre_s, post, strict, path, problems):
    """post is the destination Property after a successful merge of pre_s into pre_d (pre_d may be EMPTY_PROP)."""
    for attr in PROP_FILL:
        if pre_d[attr] is not None:
            if post[attr] != pre_d[attr]:
                problems.append(('set-attribute-kept', 'property' + attr, path,
                                 'was %r, src has %r, now %r' % (pre_d[attr], pre_s[attr], post[attr])))
        elif post[attr] != pre_s[attr]:
            problems.append(('unset-attribute-filled', 'property' + attr, path,
                             'was unset, src has %r, now %r' % (pre_s[attr], post[attr])))
    own = list(pre_d['values'])
    got = list(post['values'])
    if got[:len(own)] != own:
        problems.append(('own-values-kept', 'property-values', path, 'had %r, now %r' % (own, got)))
        return
    extra = got[len(own):]
    sdt, ddt = pre_s['_dtype'], pre_d['_dtype']
    if ddt is None or sdt is None or sdt == ddt:
        lacked = [v for v in pre_s['values'] if v not in own]
        if sorted(map(repr, extra)) != sorted(map(repr, lacked)):
            rest = list(extra)
            missing = []
            for v in lacked:
                if v in rest:
                    rest.remove(v)
                else:
                    missing.append(v)
            what = 'same-dtype' + _special(missing + rest)
            if ddt is None and sdt is not None and sdt.endswith('-tuple'):
                what = 'n-tuple-into-untyped-dest'          # every value is concerned, special or not
            problems.append(('values-gained', what, path,
                             'own %r, src %r: gained %r, contract requires %r' % (own, list(pre_s['values']), extra, lacked)))
    else:
        allowed, any_tags = [], []
        for v in pre_s['values']:
            conv = CONV.get((sdt, v, ddt))
            if conv is None:
                return                      # conversion not modelled: nothing to say
            if conv == UNCONVERTIBLE:
                problems.append(('values-gained', 'unconvertible %s->%s' % (sdt, ddt), path,
                                 'merge succeeded although src value %r cannot be converted to %s; now %r' % (v, ddt, got)))
                return
            if _is_any(conv):
                any_tags.append((conv[1], v))
                continue
            allowed.append(conv)
            if conv not in got:
                problems.append(('values-gained', 'converted %s->%s%s' % (sdt, ddt, _special([v, conv])), path,
                                 'src value %r must be gained as %r; now %r' % (v, conv, got)))
        free = [v for v in extra if v not in allowed]
        for tag, v in any_tags:
            # the converted value is not pinned down, only its type: one gained value of that type per such src value
            hit = next((x for x in free if isinstance(x, tuple) and x and x[0] == tag), None)
            if hit is None:
                problems.append(('values-gained', 'converted %s->%s%s' % (sdt, ddt, _special([v])), path,
                                 'src value %r must be gained as a %s value; now %r' % (v, tag, got)))
            else:
                free.remove(hit)
        for v in free:
            problems.append(('values-gained', 'converted %s->%s%s' % (sdt, ddt, _special([v])), path,
                             'gained %r which is not a converted src value (%r)' % (v, allowed)))


def check_sec_post(pre_d, pre_s, post, strict, path, problems):
    for attr in SEC_FILL:
        if pre_d[attr] is not None:
            if post[attr] != pre_d[attr]:
                problems.append(('set-attribute-kept', 'section' + attr, path,
                                 'was %r, src has %r, now %r' % (pre_d[attr], pre_s[attr], post[attr])))
        elif post[attr] != pre_s[attr]:
            problems.append(('unset-attribute-filled', 'section' + attr, path,
                             'was unset, src has %r, now %r' % (pre_s[attr], post[attr])))
    # ---- Properties
    dprops, sprops, pprops = by_name(pre_d['props']), by_name(pre_s['props']), by_name(post['props'])
    if len(pprops) != len(post['props']):
        problems.append(('complete', 'duplicate-property-names', path, 'destination now has two Properties of one name'))
    for nm, dp in dprops.items():
        if nm not in sprops and pprops.get(nm) != dp:
            problems.append(('dest-only-child-unchanged', 'property', path + ':' + nm,
                             'Property that src lacks changed: %s' % h.diff(h.freeze(dp), h.freeze(pprops.get(nm)))))
    for nm, sp in sprops.items():
        pp = pprops.get(nm)
        if pp is None:
            problems.append(('complete', 'property-missing', path + ':' + nm, 'src Property has no counterpart in dest'))
            continue
        check_prop_post(dprops.get(nm, EMPTY_PROP), sp, pp, strict, path + ':' + nm, problems)
    # ---- Sections
    dsecs, ssecs = by_name(pre_d['sections']), by_name(pre_s['sections'])
    psecs = {}
    for c in post['sections']:
        psecs.setdefault(c['_name'], []).append(c)
    for nm, dc in dsecs.items():
        if nm not in ssecs:
            now = psecs.get(nm, [None])
            if len(now) != 1 or now[0] != dc:
                problems.append(('dest-only-child-unchanged', 'section', path + '/' + nm,
                                 'Section that src lacks changed: %s' % h.diff(h.freeze(dc), h.freeze(now[0]))))
    for nm, sc in ssecs.items():
        cands = [c for c in psecs.get(nm, []) if c['type'] == sc['type']]
        if not cands:
            problems.append(('complete', 'section-missing', path + '/' + nm,
                             'src child (type %r) has no counterpart of that name and type in dest (has %r)'
                             % (sc['type'], [(c['_name'], c['type']) for c in psecs.get(nm, [])])))
            continue
        dc = dsecs.get(nm)
        if dc is not None and dc['type'] != sc['type']:
            dc = None
        check_sec_post(dc if dc is not None else EMPTY_SEC, sc, cands[0], strict, path + '/' + nm, problems)


# ---- the harness snapshot (harness.snap_sec / snap_prop with ids=True, parent=True), same fields and same
# representation, with a short cut for the scalars that harness._val returns unchanged.  This module takes four
# snapshots per judged merge; they dominate its running time.

def _fv(v):
    t = type(v)
    if t is str or v is None or t is int:          # bool is not int here: it goes through harness._val
        return v
    return h._val(v)


def _snap_prop(p, ids=True, parent=True):
    d = {'kind': 'property'}
    for f in h.PROP_FIELDS:
        d[f] = _fv(getattr(p, f, '<unset>'))
    d['values'] = tuple([_fv(v) for v in p._values])
    d['parent'] = id(p._parent) if p._parent is not None else None
    return d


def _snap_sec(s, ids=True, parent=True):
    d = {'kind': 'section'}
    for f in h.SEC_FIELDS:
        d[f] = _fv(getattr(s, f, '<unset>'))
    d['parent'] = id(s._parent) if s._parent is not None else None
    d['merged'] = id(s._merged) if getattr(s, '_merged', None) is not None else None
    secs, props = list(list.__iter__(s._sections)), list(list.__iter__(s._props))
    d['props'] = tuple([_snap_prop(p) for p in props])
    d['sections'] = tuple([_snap_sec(c) for c in secs])
    d['child_ids'] = tuple([id(c) for c in secs] + [id(c) for c in props])
    return d


_IDENTITY_KEYS = ('parent', 'merged', 'child_ids')


def _content(raw):
    """The parent=False view (no object identities) of a harness snapshot dict taken with parent=True."""
    out = {k: v for k, v in raw.items() if k not in _IDENTITY_KEYS}
    if 'props' in out:
        out['props'] = tuple(_content(p) for p in out['props'])
    if 'sections' in out:
        out['sections'] = tuple(_content(c) for c in out['sections'])
    return out


def judge(col, name, kind_label, dest, src, strict, witness, feature, merge_fn, context=''):
    """Run dest.merge(src, strict) and evaluate the whole contract.  kind_label: 'section' | 'property'.
    context: suffix of the feature label naming the surroundings of the feature (name sharing mode ...)."""
    snapper = _snap_sec if kind_label == 'section' else _snap_prop
    raw_d, raw_s = snapper(dest, True, True), snapper(src, True, True)      # one traversal serves both views
    pre_d, pre_s = _content(raw_d), _content(raw_s)

    def changed_since(raw_before, obj):
        """None, or the first difference between the full snapshot taken before the call and obj now.  The raw
        snapshot dicts are compared directly (nested dicts / tuples of tagged scalars); they are frozen only
        to describe a difference."""
        raw_now = snapper(obj, True, True)
        if raw_now == raw_before:
            return None
        return h.diff(h.freeze(raw_before), h.freeze(raw_now))
    roots = [r for r in h.roots_of([dest, src]) if r is not dest and r is not src]
    full_roots = [h.snap(r) for r in roots]
    conflicts = []
    if kind_label == 'section':
        find_conflicts(pre_d, pre_s, '', conflicts)
    else:
        find_prop_conflicts(pre_d, pre_s, '', conflicts)
    hard = [c for c in conflicts if c[0] == 'hard']
    if any(c[0] == 'clash' for c in conflicts):
        feature = 'same-name-different-type-section'        # whatever else was injected, this is what cannot be merged
    kind, res = h.call(merge_fn, src, strict)
    base = {'strict': strict, 'kind': kind_label}

    def fail(clause, feat, detail):
        col.fail(check='%s/%s' % (name, clause), cls={'clause': clause, 'feature': feat + context},
                 witness=dict(witness, **base), detail=detail)

    raw_post = snapper(dest, True, True)
    if kind == 'exc':
        changed = (None if raw_post == raw_d else h.diff(h.freeze(raw_d), h.freeze(raw_post))) \
            or changed_since(raw_s, src)
        if not changed:
            for r, before in zip(roots, full_roots):
                changed = changed or h.diff(before, h.snap(r))
        if changed:
            fail('raise-changes-nothing', '%s raising %s' % (feature, type(res).__name__),
                 'merge raised %r but left a change behind: %s' % (res, changed))
        if strict and hard and not isinstance(res, ValueError):
            fail('strict-conflict-raises-ValueError', '%s raising %s' % (hard[0][1], type(res).__name__),
                 'conflicts %r: raised %r instead of ValueError' % (hard, res))
        return 'raised'
    # ---- returned normally
    if strict and hard:
        fail('strict-conflict-raises-ValueError', '%s not-detected' % hard[0][1],
             'strict merge returned normally although src and dest conflict: %r' % (hard,))
        return 'returned'
    d = changed_since(raw_s, src)
    if d:
        fail('src-unchanged', feature, 'src changed: %s' % d)
    post = _content(raw_post)
    problems = []
    if kind_label == 'section':
        check_sec_post(pre_d, pre_s, post, strict, '', problems)
    else:
        check_prop_post(pre_d, pre_s, post, strict, '', problems)
    seen = set()
    for clause, what, path, detail in problems:
        if (clause, what) in seen:
            continue
        seen.add((clause, what))
        fail(clause, what, 'at %s: %s' % (path or '<root>', detail))
    return 'returned'


# ---------------------------------------------------------------------------------------------
# features: (label, kind, dest part, src part)   kind 'prop' -> a Property 'pf' in both Sections of the node;
#                                                kind 'sec'  -> attributes of the two Sections of the node
# ---------------------------------------------------------------------------------------------

D1, D2 = dt.date(2020, 1, 2), dt.date(2021, 3, 4)

PROP_FEATURES = [
    ('plain-new-value', P('pf', 'int', [1, 2]), P('pf', 'int', [2, 3])),
    ('identical', P('pf', 'string', ['x'], unit='mV', definition='d'), P('pf', 'string', ['x'], unit='mV', definition='d')),
    ('fill-all-attributes', P('pf', 'float', [1.5]),
     P('pf', 'float', [2.5], unit='mV', uncertainty=0.5, definition='sd', reference='sr', value_origin='so')),
    ('fill-uncertainty-zero', P('pf', 'float', [1.5]), P('pf', 'float', [1.5], uncertainty=0)),
    ('keep-all-attributes', P('pf', 'float', [1.5], unit='mV', uncertainty=0.5, definition='dd', reference='dr', value_origin='do'),
     P('pf', 'float', [2.5])),
    ('dest-empty-no-dtype', P('pf'), P('pf', 'int', [1, 2])),
    ('dest-empty-with-dtype', P('pf', 'int'), P('pf', 'int', [1, 2])),
    ('src-empty', P('pf', 'int', [1]), P('pf')),
    ('both-empty', P('pf'), P('pf', unit='s')),
    ('dtype-conflict-string-into-int', P('pf', 'int', [1]), P('pf', 'string', ['7'])),
    ('dtype-conflict-string-into-float', P('pf', 'float', [0.5]), P('pf', 'string', ['1.5'])),
    ('dtype-conflict-int-into-float', P('pf', 'float', [0.5]), P('pf', 'int', [7])),
    ('dtype-conflict-int-into-string', P('pf', 'string', ['a']), P('pf', 'int', [7])),
    ('dtype-conflict-float-into-int', P('pf', 'int', [1]), P('pf', 'float', [2.0])),
    ('dtype-conflict-string-into-date', P('pf', 'date', [D1]), P('pf', 'string', ['2020-01-02'])),
    ('dtype-conflict-date-into-string', P('pf', 'string', ['a']), P('pf', 'date', [D1])),
    ('dtype-unconvertible-string-into-int', P('pf', 'int', [1]), P('pf', 'string', ['x'])),
    ('dtype-unconvertible-string-into-float', P('pf', 'float', [1.5]), P('pf', 'string', ['x'])),
    ('dtype-unconvertible-string-into-date', P('pf', 'date', [D1]), P('pf', 'string', ['not a date'])),
    ('dtype-unconvertible-string-into-tuple', P('pf', '2-tuple', ['(1;2)']), P('pf', 'string', ['x'])),
    ('dtype-unconvertible-into-empty-int', P('pf', 'int'), P('pf', 'string', ['x'])),
    ('unit-conflict', P('pf', 'int', [1], unit='mV'), P('pf', 'int', [2], unit='kg')),
    ('unit-case-only', P('pf', 'int', [1], unit='mV'), P('pf', 'int', [2], unit='mv')),
    ('uncertainty-conflict', P('pf', 'int', [1], uncertainty=0.5), P('pf', 'int', [2], uncertainty=2)),
    ('uncertainty-zero-vs-set', P('pf', 'int', [1], uncertainty=0), P('pf', 'int', [2], uncertainty=5)),
    ('uncertainty-int-equals-float', P('pf', 'int', [1], uncertainty=2), P('pf', 'int', [2], uncertainty=2.0)),
    ('definition-conflict', P('pf', 'int', [1], definition='alpha'), P('pf', 'int', [2], definition='beta')),
    ('definition-case-whitespace-only', P('pf', 'int', [1], definition='Some Def'), P('pf', 'int', [2], definition=' some  def')),
    ('reference-conflict', P('pf', 'int', [1], reference='ref A'), P('pf', 'int', [2], reference='ref B')),
    ('reference-case-whitespace-only', P('pf', 'int', [1], reference='Ref A'), P('pf', 'int', [2], reference='ref  a ')),
    ('value_origin-conflict', P('pf', 'int', [1], value_origin='a.dat'), P('pf', 'int', [2], value_origin='b.dat')),
    ('value_origin-case-whitespace-only', P('pf', 'int', [1], value_origin='A.dat'), P('pf', 'int', [2], value_origin='a.dat ')),
    ('string-multiline-value', P('pf', 'string', ['x']), P('pf', 'string', ['line1\nline2'], unit='mV')),
    ('string-numeric-looking-value', P('pf', 'string', ['x']), P('pf', 'string', ['12'], unit='mV')),
    ('string-date-looking-value', P('pf', 'string', ['x']), P('pf', 'string', ['2020-01-01'], definition='sd')),
    ('string-bracket-value', P('pf', 'string', ['x']), P('pf', 'string', ['[a,b]'], definition='sd')),
    ('text', P('pf', 'text', ['t1']), P('pf', 'text', ['multi\nline', 't1'], unit='mV')),
    ('float-values', P('pf', 'float', [0.0, 1.5]), P('pf', 'float', [1.5, 0.30000000000000004], unit='mV')),
    ('boolean-values', P('pf', 'boolean', [True]), P('pf', 'boolean', [False, True], unit='mV')),
    ('date-values', P('pf', 'date', [D1]), P('pf', 'date', [D1, D2], unit='mV')),
    ('datetime-values', P('pf', 'datetime', [dt.datetime(2020, 1, 2, 3, 4, 5)]),
     P('pf', 'datetime', [dt.datetime(2021, 1, 2, 3, 4, 5)], unit='mV')),
    ('time-values', P('pf', 'time', [dt.time(1, 2, 3)]), P('pf', 'time', [dt.time(1, 2, 3), dt.time(4, 5, 6)], unit='mV')),
    ('tuple-values', P('pf', '2-tuple', ['(1;2)']), P('pf', '2-tuple', ['(1;2)', '(3;4)'], unit='mV')),
    ('url-values', P('pf', 'url', ['http://a.org']), P('pf', 'url', ['http://b.org'], unit='mV')),
    ('person-values', P('pf', 'person', ['Doe, J']), P('pf', 'person', ['Roe, R'], unit='mV')),
    ('int-values-large', P('pf', 'int', [10 ** 12]), P('pf', 'int', [-3, 10 ** 12], unit='mV')),
]

# ---- value content: values that are legitimate content but look empty / false ('' and ' ', 0, 0.0, False, the
# smallest date, midnight, tuples of empty looking elements), for every dtype; alone and among ordinary values, as
# first / middle / last value of src; dest empty (typed / untyped), lacking the value, holding it already (as its
# first / last / only value); the same for src values that are converted to another dtype (strict off; strict on:
# dtype conflict).  The oracle is the general one (check_prop_post): own values kept in their order, every src value
# dest lacked is gained - whatever the value looks like.

# (dtype, special values, ordinary values, an ordinary value dest has of its own)
VALUE_CONTENT = [
    ('string', [('empty-string', ''), ('blank-string', ' ')], ['b', 'c'], 'a'),
    ('text', [('empty-string', ''), ('blank-string', ' ')], ['line1\nline2', 'c'], 'a\nb'),
    ('int', [('zero', 0)], [2, 3], 1),
    ('float', [('zero', 0.0)], [2.5, 3.5], 1.5),
    ('boolean', [('false', False)], [True], True),
    ('date', [('min-date', dt.date.min)], [D1, D2], dt.date(2019, 5, 6)),
    ('time', [('midnight', dt.time(0, 0, 0))], [dt.time(4, 5, 6), dt.time(7, 8, 9)], dt.time(1, 2, 3)),
    ('datetime', [('min-datetime', dt.datetime.min)], [dt.datetime(2021, 1, 2, 3, 4, 5), dt.datetime(2022, 1, 2, 3, 4, 5)],
     dt.datetime(2020, 1, 2, 3, 4, 5)),
    ('url', [('empty-string', '')], ['http://b.org', 'http://c.org'], 'http://a.org'),
    ('person', [('empty-string', '')], ['Roe, R', 'Poe, P'], 'Doe, J'),
    ('2-tuple', [('zero-tuple', '(0;0)'), ('empty-elements-tuple', '(;)')], ['(3;4)', '(5;6)'], '(1;2)'),
]
# (src dtype, special value, ordinary src values, dest dtype, an ordinary value dest has of its own); what the
# values become is written down in CONVERSIONS
VALUE_CONVERSIONS = [
    ('string', ('empty-string', ''), ['7', '8'], 'int', 1),
    ('string', ('empty-string', ''), ['1.5', '2.5'], 'float', 0.5),
    ('string', ('empty-string', ''), ['b', 'c'], 'text', 'a\nb'),
    ('string', ('blank-string', ' '), ['b', 'c'], 'text', 'a\nb'),
    ('text', ('empty-string', ''), ['b', 'c'], 'string', 'a'),
    ('text', ('blank-string', ' '), ['b', 'c'], 'string', 'a'),
    ('text', ('empty-string', ''), ['7', '8'], 'int', 1),
    ('string', ('empty-string', ''), ['2020-01-02', '2021-03-04'], 'date', dt.date(2019, 5, 6)),
    ('string', ('zero-as-text', '0'), ['7', '8'], 'int', 1),
    ('string', ('zero-as-text', '0.0'), ['1.5', '2.5'], 'float', 0.5),
    ('int', ('zero', 0), [7, 8], 'float', 0.5),
    ('int', ('zero', 0), [7, 8], 'string', 'a'),
    ('float', ('zero', 0.0), [2.0, 3.0], 'int', 1),
    ('float', ('zero', 0.0), [2.5, 3.5], 'string', 'a'),
]


def _placements(special, ordinary, others):
    """src value lists: the special value alone, as first / middle / last of several, next to another special one."""
    out = [('alone', [special]), ('first', [special] + ordinary), ('last', ordinary + [special])]
    if len(ordinary) >= 2:
        out.insert(2, ('middle', ordinary[:1] + [special] + ordinary[1:]))
    for other in others:
        out.append(('with-other-special', [special, ordinary[0], other]))
    return out


def value_features():
    """[(label, dest spec, src spec, core)] in the format of PROP_FEATURES; core marks the part the quick tier
    also runs inside Section trees."""
    out = []
    for dtype, specials, ordinary, own in VALUE_CONTENT:
        for tag, f in specials:
            others = [x for _, x in specials if x != f]
            for place, svals in _placements(f, ordinary, others):
                dests = [('dest-empty-typed', dtype, []), ('dest-empty-untyped', None, []), ('dest-lacks-it', dtype, [own]),
                         ('dest-has-it-first', dtype, [f, own]), ('dest-has-it-last', dtype, [own, f]),
                         ('dest-has-only-it', dtype, [f])]
                for dlabel, ddt, dvals in dests:
                    core = place in ('alone', 'middle', 'first' if len(ordinary) < 2 else 'middle') and \
                        dlabel in ('dest-lacks-it', 'dest-has-it-last') and tag != 'empty-elements-tuple'
                    out.append(('value-content %s %s %s, %s' % (dtype, tag, place, dlabel),
                                P('pf', ddt, dvals), P('pf', dtype, svals, unit='mV'), core))
    for sdt, (tag, f), ordinary, ddt, own in VALUE_CONVERSIONS:
        conv = RAW_CONV[(sdt, repr(f), ddt)]
        for place, svals in _placements(f, ordinary, []):
            dests = [('dest-empty-typed', []), ('dest-lacks-it', [own])]
            if not _is_any(conv):
                dests.append(('dest-has-it-converted', [own, conv]))
            for dlabel, dvals in dests:
                core = place in ('alone', 'middle') and dlabel == 'dest-lacks-it'
                out.append(('value-content %s %s %s converted to %s, %s' % (sdt, tag, place, ddt, dlabel),
                            P('pf', ddt, dvals), P('pf', sdt, svals, definition='sd'), core))
    return out


VALUE_FEATURES = value_features()


SEC_FEATURES = [
    ('section-definition-conflict', {'definition': 'alpha'}, {'definition': 'beta'}),
    ('section-definition-case-whitespace-only', {'definition': 'Some Def'}, {'definition': ' some  def'}),
    ('section-reference-conflict', {'reference': 'ref A'}, {'reference': 'ref B'}),
    ('section-reference-case-whitespace-only', {'reference': 'Ref A'}, {'reference': 'ref  a '}),
    ('section-same-name-different-type', {'type': 't'}, {'type': 'other'}),
    ('section-type-case-only', {'type': 't'}, {'type': 'T'}),
]


def skeleton_specs(shape, overlap=None, rnd=None, tuples=True):
    """Two parallel spec trees over the skeleton; returns (dest root, src root, [(dest node, src node)] pre-order).
    overlap(k) -> 'both' | 'dest' | 'src' thins the skeleton (random pairs).
    tuples=False: the Property of the src-only Section is a string Property instead of a 2-tuple one (a Property
    that may be merged a second time: the library refuses to merge a non-empty n-tuple Property into another one)."""
    pairs = []
    counter = itertools.count()

    def node(k, name):
        even = k % 2 == 0
        # conflict free: an attribute is set on one side only, or identical on both
        d = S(name, 't', definition=None if even else 'own def %d' % k, reference='shared ref' if even else None,
              props=[P('pd', 'string', ['only in dest %d' % k]),
                     P('pv', 'int', [k, 1000], unit=None if even else 'mV', definition='pv def' if even else None)],
              secs=[S('donly', 't', props=[P('q', 'int', [k])])])
        s = S(name, 't', definition='src def %d' % k if even else None, reference='shared ref' if even else 'src ref %d' % k,
              props=[P('pv', 'int', [1000, k + 100], unit='mV', uncertainty=0.5, definition=None if even else 'src pv def'),
                     P('ps', 'float', [k + 0.5], unit='s')],
              secs=[S('sonly', 'st', definition='so',
                      props=[P('q', '2-tuple', ['(1;2)']) if tuples else P('q', 'string', ['(1;2)'])],
                      secs=[S('deep', 'st', props=[P('r', 'date', [D1])])])])
        return d, s

    droot, sroot = node(next(counter), 'root')
    sroot['name'] = 'srcroot'
    pairs.append((droot, sroot))

    def add(dpar, spar, forest, side):
        for j, sub in enumerate(forest):
            k = next(counter)
            d, s = node(k, 'n%d' % j)
            here = side
            if here == 'both' and overlap is not None:
                here = overlap(k)
            if here in ('both', 'dest'):
                dpar['secs'].insert(len(dpar['secs']) if j % 2 else 0, d)
            if here in ('both', 'src'):
                spar['secs'].insert(0 if j % 2 else len(spar['secs']), s)
            pairs.append((d, s) if here == 'both' else None)
            add(d, s, sub, here)
    add(droot, sroot, shape, 'both')
    return droot, sroot, pairs


def inject(pair, feature, where):
    """Put the feature into the pair of node specs. where in ('first', 'last') = position among the Properties."""
    label, dpart, spart = feature
    d, s = pair
    if 'name' in dpart:                     # Property feature
        dp, sp = dict(dpart), dict(spart)
        if where == 'first':
            d['props'].insert(0, dp)
            s['props'].insert(0, sp)
        else:
            d['props'].append(dp)
            s['props'].append(sp)
    else:
        d.update(dpart)
        s.update(spart)


# ---------------------------------------------------------------------------------------------
# naming of the children: names are unique per child list only, so a Section may have a child Section and a
# child Property of one name, a Property named like the Section it lives in, and children whose names differ
# in case / white space only from other children.  A sharing mode is applied to EVERY node of both trees
# (matched, dest only and src only subtrees alike), after the features have been injected, so that the feature
# Property takes part as well.
# ---------------------------------------------------------------------------------------------

SHARING = ['none',
           'property-named-like-section:dest',      # dest: a Property for every child Section name of dest or src, and
           'property-named-like-section:src',       # one named like the Section itself;  :src / :both likewise
           'property-named-like-section:both',
           'section-named-like-property:dest',      # dest: a child Section for every Property name of dest or src
           'section-named-like-property:src',
           'section-named-like-property:both',
           'all-names-shared',                      # both of the above on both sides
           'near-miss-names']                       # src: extra children named like dest's up to case / white space


def _union(*lists):
    out = []
    for lst in lists:
        for x in lst:
            if x not in out:
                out.append(x)
    return out


def share_names(d, s, mode):
    """d, s: Section specs that are counterparts of each other (one may be None).  Changes the specs in place."""
    if mode == 'none':
        return
    kind, _, side = mode.partition(':')
    if kind == 'all-names-shared':
        side = 'both'
    sides = [(tag, x) for tag, x in (('dest', d), ('src', s)) if x is not None and side in (tag, 'both')]
    present = [x for x in (d, s) if x is not None]
    sec_names = _union(*[[c['name'] for c in x['secs']] for x in present])
    prop_names = _union(*[[p['name'] for p in x['props']] for x in present])
    dsecs = {c['name']: c for c in (d['secs'] if d is not None else [])}
    ssecs = {c['name']: c for c in (s['secs'] if s is not None else [])}
    matched = [(dsecs.get(n), ssecs.get(n)) for n in sec_names]
    if kind in ('property-named-like-section', 'all-names-shared'):
        for i, n in enumerate(sec_names + [x['name'] for x in present]):
            for tag, x in sides:
                if any(p['name'] == n for p in x['props']):
                    continue
                p = P(n, 'string', ['%s property named like a section' % tag],
                      definition='shares its name' if tag == 'src' else None)
                x['props'].insert(0 if i % 2 == 0 else len(x['props']), p)
    if kind in ('section-named-like-property', 'all-names-shared'):
        for i, n in enumerate(prop_names):
            for tag, x in sides:
                if any(c['name'] == n for c in x['secs']):
                    continue
                c = S(n, 'ns', definition='section named like a property' if tag == 'src' else None,
                      props=[P('v', 'int', [1] if tag == 'dest' else [2], unit='mV' if tag == 'src' else None)])
                x['secs'].insert(0 if i % 2 else len(x['secs']), c)
    if kind == 'near-miss-names' and d is not None and s is not None:
        for c in d['secs']:
            for variant in (c['name'].upper(), c['name'] + ' '):
                if variant != c['name'] and variant not in ssecs and variant not in dsecs:
                    s['secs'].append(S(variant, c['type'], definition='near miss of %r' % c['name'],
                                       props=[P('nm', 'int', [1])]))
        have = {p['name'] for p in s['props']} | {p['name'] for p in d['props']}
        for p in d['props']:
            for variant in (p['name'].upper(), ' ' + p['name']):
                if variant not in have:
                    # would be in conflict with the dest Property if the two were (wrongly) taken for one
                    s['props'].append(P(variant, 'string', ['near miss'], unit='zz', definition='near miss of %r' % p['name']))
    for dc, sc in matched:
        share_names(dc, sc, mode)


def count_nodes(forest):
    return sum(1 + count_nodes(sub) for sub in forest)


def parents_of(shape):
    """pre-order number -> pre-order number of the parent (root = 0)."""
    par = {}
    counter = itertools.count(1)

    def rec(forest, up):
        for sub in forest:
            k = next(counter)
            par[k] = up
            rec(sub, k)
    rec(shape, 0)
    return par


def relation_class(shape, a, b):
    """a < b in pre-order: is a an ancestor of b, or does it sit in the subtree of an earlier sibling?"""
    par = parents_of(shape)
    k, dist = b, 0
    while k != 0 and k != a:
        k, dist = par[k], dist + 1
    if k == a:
        return 'ancestor-%d-above' % dist
    return 'earlier-branch'


def position_class(shape, pos):
    """Stable description of where in the skeleton the feature sits."""
    if pos == 0:
        return 'root'
    # depth and sibling index of the pos-th node in pre-order
    counter = itertools.count(1)
    found = {}

    def rec(forest, depth):
        for j, sub in enumerate(forest):
            k = next(counter)
            if k == pos:
                found['v'] = (depth, 'first' if j == 0 else ('last' if j == len(forest) - 1 else 'middle'), len(forest) > 1)
            rec(sub, depth + 1)
    rec(shape, 1)
    depth, sib, multi = found['v']
    return 'depth%d-%s%s' % (depth, sib if multi else 'only', '')


# ---------------------------------------------------------------------------------------------
# run_*
# ---------------------------------------------------------------------------------------------

CORE = ['plain-new-value', 'fill-all-attributes', 'dtype-conflict-string-into-int', 'dtype-unconvertible-string-into-int',
        'unit-conflict', 'uncertainty-conflict', 'definition-conflict', 'definition-case-whitespace-only',
        'reference-conflict', 'value_origin-conflict']
# ordered pairs: something the merge changes (or cannot merge) at an earlier / higher node ...
EARLIER = ['section-same-name-different-type', 'fill-all-attributes', 'dest-empty-no-dtype', 'dtype-conflict-string-into-int']
# ... and one conflict of every kind at a later / deeper node
LATER = ['dtype-conflict-string-into-int', 'dtype-unconvertible-string-into-int', 'unit-conflict', 'uncertainty-conflict',
         'definition-conflict', 'reference-conflict', 'value_origin-conflict', 'section-definition-conflict',
         'section-reference-conflict', 'section-same-name-different-type']


def _feature(label):
    return next(f[:3] for f in PROP_FEATURES + SEC_FEATURES + VALUE_FEATURES if f[0] == label)


def _chain_or_wide(shape):
    def chain(forest):
        return len(forest) == 0 or (len(forest) == 1 and chain(forest[0]))
    return chain(shape) or all(sub == () for sub in shape)


def _ctx(mode):
    return '' if mode == 'none' else ' | names: ' + mode


def _one(col, name, shape, injections, mode, strict, wit, label):
    """Build the pair (skeleton + injected features + naming mode), merge, judge.  injections: [(pos, feature, where)]."""
    droot, sroot, pairs = skeleton_specs(shape)
    for pos, feature, where in injections:
        inject(pairs[pos], feature, where)
    share_names(droot, sroot, mode)
    with h.quiet():
        dest, src = build_sec(droot), build_sec(sroot)
    return judge(col, name, 'section', dest, src, strict, wit, label, dest.merge, context=_ctx(mode))


def run_section_merge(tier, seed):
    name = 'C13.section_merge'
    max_nodes = 3 if tier == 'quick' else 4
    col = Col(name, rule='(1) every forest shape up to %d skeleton nodes (each node present in both trees with fillable '
                         'attributes, a shared Property, one-sided Properties and one-sided child Sections, an earlier '
                         'sibling that dest lacks) x every node position (root included) x every feature (%d Property '
                         'features at first/last Property position, %d Section features) x strict on/off; '
                         '(2) the same x every naming mode of the children (%d modes: Property named like a sibling '
                         'Section / like its own Section, Section named like a sibling Property, on dest, src or both, '
                         'at every node of both trees; names differing in case or white space only) x %d core features '
                         '+ all Section features (skeletons of the largest size: feature at the last node only); '
                         '(3) ordered pairs of features on skeletons one node smaller: %d earlier/higher (something merge '
                         'changes or cannot merge) x %d later/deeper conflicts at every pair of positions a < b, plain '
                         'and with all names shared; (4) random: 1-3 features, thinned overlap, random naming mode, '
                         'trees attached to documents; (5) value content: Properties holding empty / false looking '
                         'legitimate values (see C13.property_merge): the core of them (alone / middle value, dest lacks '
                         'it / has it, converted) at every position of the skeletons up to 2 nodes, the others at the last '
                         'node (quick: core at root / deepest node of the chain of two, second of two siblings); distinct = (feature(s), naming mode, position class, strict, outcome)'
                         % (max_nodes, len(PROP_FEATURES), len(SEC_FEATURES), len(SHARING) - 1, len(CORE),
                            len(EARLIER), len(LATER)), exhaustive=True)
    features = [(f, w) for f in PROP_FEATURES for w in ('first', 'last')] + [(f, None) for f in SEC_FEATURES]
    type_features = ('section-same-name-different-type', 'section-type-case-only')
    # ---- (1) one feature, disjoint names
    for shape in h.tree_shapes(max_nodes):
        n = count_nodes(shape)
        for pos in range(n + 1):
            for feature, where in features:
                if tier == 'quick' and n == max_nodes and where == 'last':
                    continue        # quick: largest skeletons with the feature Property in first position only
                if pos == 0 and feature[0] in type_features:
                    continue        # type/name of the two roots are free
                for strict in (True, False):
                    wit = {'shape': repr(shape), 'position': pos, 'feature': feature[0], 'property_position': where}
                    outcome = _one(col, name, shape, [(pos, feature, where)], 'none', strict, wit, feature[0])
                    col.case(cls_key=(feature[0], where, position_class(shape, pos), strict, outcome),
                             sample='%s pos %d %s strict=%s -> %s' % (shape, pos, feature[0], strict, outcome))
    # ---- (2) one feature x naming mode
    core = [(_feature(l), 'first' if i % 2 == 0 else 'last') for i, l in enumerate(CORE)] + [(f, None) for f in SEC_FEATURES]
    for mode in SHARING[1:]:
        for shape in h.tree_shapes(max_nodes):
            n = count_nodes(shape)
            for pos in range(n + 1):
                if n == max_nodes and (pos != n or (tier == 'quick' and not _chain_or_wide(shape))):
                    continue        # largest skeletons: feature at the last (deepest / right-most) node only;
                                    # quick: of these the chain and the row of siblings only
                for feature, where in core:
                    if pos == 0 and feature[0] in type_features:
                        continue
                    for strict in (True, False):
                        wit = {'shape': repr(shape), 'position': pos, 'feature': feature[0], 'property_position': where,
                               'names': mode}
                        outcome = _one(col, name, shape, [(pos, feature, where)], mode, strict, wit, feature[0])
                        col.case(cls_key=(feature[0], mode, position_class(shape, pos), strict, outcome),
                                 sample='%s pos %d %s names %s strict=%s -> %s' % (shape, pos, feature[0], mode, strict, outcome)
                                 if mode == SHARING[1] else None)
    # ---- (3) ordered pairs of features
    pair_nodes = max_nodes - 1
    for shape in h.tree_shapes(pair_nodes):
        n = count_nodes(shape)
        for a in range(n + 1):
            for b in range(a + 1, n + 1):
                for la in EARLIER:
                    if a == 0 and la in type_features:
                        continue
                    for lb in LATER:
                        for mode in ('none', 'all-names-shared'):
                            for strict in (True, False):
                                label = '%s, then %s' % (la, lb)
                                wit = {'shape': repr(shape), 'positions': [a, b], 'features': [la, lb], 'names': mode}
                                outcome = _one(col, name, shape, [(a, _feature(la), 'first'), (b, _feature(lb), 'last')],
                                               mode, strict, wit, label)
                                col.case(cls_key=(la, lb, mode, relation_class(shape, a, b), strict, outcome))
    # ---- (5) value content of the Properties: special (empty / false looking) values at every position of the small
    #      skeletons; quick: the core of them (alone / middle value, dest lacks it / has it) at the root and the deepest
    #      node of the chain of two nodes and at the second of two siblings
    for shape in h.tree_shapes(2):
        n = count_nodes(shape)
        for pos in range(n + 1):
            if tier == 'quick' and not (n == 2 and (pos == 2 or (pos == 0 and shape == (((),),)))):
                continue
            for vf in VALUE_FEATURES:
                if not vf[3] and (tier == 'quick' or pos != n):
                    continue        # outside the core: thorough only, at the last node of every skeleton
                for where in (('first', 'last') if tier != 'quick' and vf[3] else ('first',)):
                    for strict in (True, False):
                        wit = {'shape': repr(shape), 'position': pos, 'feature': vf[0], 'property_position': where,
                               'dest': _spec_wit(vf[1]), 'src': _spec_wit(vf[2])}
                        outcome = _one(col, name, shape, [(pos, vf[:3], where)], 'none', strict, wit, vf[0])
                        col.case(cls_key=(vf[0], where, position_class(shape, pos), strict, outcome))
    # ---- (4) random: several features, thinned overlap, naming mode, dest and src living in documents
    rnd = random.Random('c13-%s' % seed)
    shapes = [s for s in h.tree_shapes(max_nodes) if count_nodes(s) >= 1]
    n_rand = 150 if tier == 'quick' else 3000
    for i in range(n_rand):
        shape = rnd.choice(shapes)
        n = count_nodes(shape)
        thin = rnd.random() < 0.5
        choice = {}

        def overlap(k, choice=choice):
            choice[k] = rnd.choice(['both', 'both', 'both', 'dest', 'src'])
            return choice[k]
        droot, sroot, pairs = skeleton_specs(shape, overlap if thin else None)
        live = [k for k, p in enumerate(pairs) if p is not None]
        labels = []
        for _ in range(rnd.choice([1, 2, 2, 3])):
            pos = rnd.choice(live)
            feature, where = rnd.choice(features)
            if pos == 0 and feature[0] in type_features:
                continue
            if any(l[0] == pos for l in labels):
                continue
            inject(pairs[pos], feature, where)
            labels.append((pos, feature[0], where))
        mode = rnd.choice(SHARING) if rnd.random() < 0.6 else 'none'
        share_names(droot, sroot, mode)
        strict = rnd.random() < 0.5
        attached = rnd.random() < 0.5
        with h.quiet():
            if attached:
                doc = odml.Document()
                host = odml.Section(name='host', type='t', parent=doc)
                odml.Section(name='bystander', type='t', parent=doc)
                dest = build_sec(droot, host)
                src = build_sec(sroot, host if rnd.random() < 0.5 else doc)
            else:
                dest, src = build_sec(droot), build_sec(sroot)
        wit = {'shape': repr(shape), 'random': [seed, i], 'features': labels, 'thinned': choice, 'attached': attached,
               'names': mode}
        feat = labels[0][1] if len(labels) == 1 else _attribute(name, shape, labels, mode, strict)
        outcome = judge(col, name, 'section', dest, src, strict, wit, feat, dest.merge, context=_ctx(mode))
        col.case(cls_key=('random', tuple(sorted({l[1] for l in labels})), mode, strict, outcome, thin, attached))
    return col.result()


def _attribute(name, shape, labels, mode, strict):
    """Which of several injected features leaves a change behind when it is the only one?  Gives failures of
    random pairs the same (stable) feature label as the single-feature enumeration."""
    guilty = []
    for pos, flabel, where in labels:
        scratch = Col('scratch', rule='')
        _one(scratch, name, shape, [(pos, _feature(flabel), where)], mode, strict, {}, flabel)
        if any(f['cls']['clause'] == 'raise-changes-nothing' for f in scratch.failures):
            guilty.append(flabel)
    return '+'.join(sorted(set(guilty))) or 'random-pair'


def run_property_merge(tier, seed):
    name = 'C13.property_merge'
    col = Col(name, rule='every Property feature pair (dest, src) x strict on/off x (detached | attached to Sections); '
                         'value content (%d pairs): every empty / false looking legitimate value of every dtype (empty and '
                         'blank string, 0, 0.0, False, smallest date, midnight, tuples of empty looking elements) alone / '
                         'first / middle / last in src / next to another such value x dest empty typed / untyped, lacking '
                         'it, having it first / last / only x strict x attached, and the same converted to another dtype; '
                         'plus the cross product of attribute settings {unset, a, A-in-other-case, b} for unit, '
                         'definition, reference, value_origin and {unset, 0, 0.5, 2} for uncertainty on dest and src; '
                         'distinct = (feature, strict, attached, outcome)' % len(VALUE_FEATURES), exhaustive=True)
    for feature in PROP_FEATURES:
        for strict in (True, False):
            for attached in (False, True):
                with h.quiet():
                    if attached:
                        sd, ss = odml.Section(name='sd', type='t'), odml.Section(name='ss', type='t')
                        odml.Property(name='other', values=[1], parent=sd)
                        dest, src = build_prop(feature[1], sd), build_prop(feature[2], ss)
                    else:
                        dest, src = build_prop(feature[1]), build_prop(feature[2])
                wit = {'feature': feature[0], 'attached': attached}
                outcome = judge(col, name, 'property', dest, src, strict, wit, feature[0], dest.merge)
                col.case(cls_key=(feature[0], strict, attached, outcome),
                         sample='%s strict=%s -> %s' % (feature[0], strict, outcome))
    # ---- value content: every special value of every dtype x placement in src x state of dest x strict x attached
    for feature in VALUE_FEATURES:
        for strict in (True, False):
            for attached in (False, True):
                with h.quiet():
                    if attached:
                        sd, ss = odml.Section(name='sd', type='t'), odml.Section(name='ss', type='t')
                        odml.Property(name='other', values=[1], parent=sd)
                        dest, src = build_prop(feature[1], sd), build_prop(feature[2], ss)
                    else:
                        dest, src = build_prop(feature[1]), build_prop(feature[2])
                wit = {'feature': feature[0], 'attached': attached, 'dest': _spec_wit(feature[1]), 'src': _spec_wit(feature[2])}
                outcome = judge(col, name, 'property', dest, src, strict, wit, feature[0], dest.merge)
                col.case(cls_key=(feature[0], strict, attached, outcome),
                         sample='%s strict=%s -> %s' % (feature[0], strict, outcome)
                         if feature is VALUE_FEATURES[2] and not attached else None)
    texts = [None, 'some text', 'Some  Text ', 'other']
    uncs = [None, 0, 0.5, 2]
    for attr in ('unit', 'definition', 'reference', 'value_origin', 'uncertainty'):
        dom = uncs if attr == 'uncertainty' else texts
        for a in dom:
            for b in dom:
                for strict in (True, False):
                    with h.quiet():
                        dest = build_prop(P('p', 'int', [1], **{attr: a}))
                        src = build_prop(P('p', 'int', [1, 2], **{attr: b}))
                    feat = '%s %s-vs-%s' % (attr, _tag(a), _tag(b))
                    outcome = judge(col, name, 'property', dest, src, strict, {'attribute': attr, 'dest': a, 'src': b}, feat,
                                    dest.merge)
                    col.case(cls_key=(feat, strict, outcome))
    return col.result()


def _spec_wit(spec):
    return {'dtype': spec['dtype'], 'values': [v if isinstance(v, (str, int, float, bool)) else repr(v) for v in spec['values']]}


def _tag(v):
    if v is None:
        return 'unset'
    return {'some text': 'a', 'Some  Text ': 'a-other-case-whitespace', 'other': 'b'}.get(v, repr(v))


# ---------------------------------------------------------------------------------------------
# merge histories: the objects handed to merge are not fresh.  They have been merged before (with each other,
# with parts of each other, with a third tree, in the other direction), have been cloned, unmerged, cleaned and
# edited since.  The statement is a contract of every single call: after EVERY successful merge the destination
# is complete and conservative with respect to the source *as it is at that moment*, a refused one changes
# nothing - whatever happened to the two trees before.  So every merge of a history is judged by the same
# oracle (judge) on snapshots taken immediately before and after that call.
# ---------------------------------------------------------------------------------------------

class _NotApplicable(Exception):
    """The object an edit wants to change is not there (any more)."""


def _child(sec, name):
    for c in list.__iter__(sec._sections):
        if c._name == name:
            return c
    raise _NotApplicable('no Section %r' % (name,))


def _prop(sec, name):
    for p in list.__iter__(sec._props):
        if p._name == name:
            return p
    raise _NotApplicable('no Property %r' % (name,))


def _at(root, path):
    for nm in path:
        root = _child(root, nm)
    return root


def node_paths(shape):
    """Name path of every skeleton node, in the pre-order numbering of skeleton_specs."""
    out = [()]

    def rec(forest, up):
        for j, sub in enumerate(forest):
            path = up + ('n%d' % j,)
            out.append(path)
            rec(sub, path)
    rec(shape, ())
    return out


# ---- edits between two merges (public API only).  d, s: the Sections of the dest / src tree at one skeleton
# position, k: its pre-order number (the skeleton gives it pv = [k, 1000] in dest and [1000, k + 100] in src, a
# Property 'ps' and a Section 'sonly' / 'sonly/deep' on the src side only, 'pd' and 'donly' on the dest side only)

def _e_src_value(d, s, k):
    _prop(s, 'pv').append(k + 500)


def _e_src_value_of_one_sided_property(d, s, k):
    _prop(s, 'ps').append(k + 7.25)


def _e_src_attributes(d, s, k):
    _prop(s, 'ps').definition = 'late def'
    _prop(s, 'pv').reference = 'late ref'


def _e_src_property(d, s, k):
    odml.Property(name='late', dtype='string', values=['late %d' % k], unit='s', parent=s)


def _e_src_section(d, s, k):
    c = odml.Section(name='latesec', type='lt', definition='late', parent=s)
    odml.Property(name='lp', dtype='int', values=[k], parent=c)
    odml.Section(name='latedeep', type='lt', parent=c)


def _e_src_one_sided_section_grows(d, s, k):
    so = _child(s, 'sonly')
    odml.Property(name='late', dtype='float', values=[1.5], parent=so)
    _prop(so, 'q').append('(5;6)')
    deep = _child(so, 'deep')
    odml.Section(name='deeper', type='st', parent=deep)
    _prop(deep, 'r').append(D2)


def _e_src_section_attributes(d, s, k):
    deep = _child(_child(s, 'sonly'), 'deep')
    deep.definition = 'late def'
    deep.reference = 'late ref'


def _e_src_shrinks(d, s, k):
    _prop(s, 'pv').remove(k + 100)
    s.remove(_prop(s, 'ps'))
    so = _child(s, 'sonly')
    so.remove(_child(so, 'deep'))


def _e_src_property_conflict(d, s, k):
    pv = _prop(s, 'pv')
    pv.unit = 'kg'
    pv.append(k + 500)


def _e_src_section_conflict(d, s, k):
    so = _child(s, 'sonly')
    so.definition = 'changed'
    odml.Property(name='late', values=[1], parent=so)


def _e_src_section_type_changes(d, s, k):
    _child(s, 'sonly').type = 'other'


def _e_dest_loses_gained_value(d, s, k):
    _prop(d, 'pv').remove(k + 100)


def _e_dest_loses_gained_property(d, s, k):
    d.remove(_prop(d, 'ps'))


def _e_dest_loses_gained_section(d, s, k):
    d.remove(_child(d, 'sonly'))


def _e_dest_loses_deep_gained_section(d, s, k):
    so = _child(d, 'sonly')
    so.remove(_child(so, 'deep'))


def _e_dest_loses_filled_attributes(d, s, k):
    pv = _prop(d, 'pv')
    pv.uncertainty = None
    pv.unit = None
    d.definition = None
    _child(d, 'sonly').definition = None


def _e_dest_property_emptied(d, s, k):
    _prop(d, 'pv').values = []


def _e_dest_gained_property_loses_value(d, s, k):
    _prop(d, 'ps').remove(k + 0.5)


def _e_dest_grows(d, s, k):
    so = _child(d, 'sonly')
    odml.Property(name='mine', values=['m'], parent=so)
    odml.Section(name='minesec', type='m', parent=so)
    _prop(d, 'pv').append(k + 900)
    _prop(d, 'pd').append('more')


def _e_dest_property_conflict(d, s, k):
    _prop(d, 'ps').unit = 'kg'


SRC_EDITS = [
    ('src-property-gains-value', _e_src_value),
    ('src-one-sided-property-gains-value', _e_src_value_of_one_sided_property),
    ('src-properties-gain-attributes', _e_src_attributes),
    ('src-gains-property', _e_src_property),
    ('src-gains-section', _e_src_section),
    ('src-one-sided-section-grows', _e_src_one_sided_section_grows),
    ('src-deep-section-gains-attributes', _e_src_section_attributes),
    ('src-shrinks', _e_src_shrinks),
    ('src-property-conflict-introduced', _e_src_property_conflict),
    ('src-section-conflict-introduced', _e_src_section_conflict),
    ('src-section-type-changes', _e_src_section_type_changes),
]
DEST_EDITS = [
    ('dest-loses-gained-value', _e_dest_loses_gained_value),
    ('dest-loses-gained-property', _e_dest_loses_gained_property),
    ('dest-loses-gained-section', _e_dest_loses_gained_section),
    ('dest-loses-deep-gained-section', _e_dest_loses_deep_gained_section),
    ('dest-loses-filled-attributes', _e_dest_loses_filled_attributes),
    ('dest-property-emptied', _e_dest_property_emptied),
    ('dest-gained-property-loses-value', _e_dest_gained_property_loses_value),
    ('dest-grows', _e_dest_grows),
    ('dest-property-conflict-introduced', _e_dest_property_conflict),
]
EDITS = dict(SRC_EDITS + DEST_EDITS)
CONFLICT_EDITS = ('src-property-conflict-introduced', 'src-section-conflict-introduced',
                  'src-section-type-changes', 'dest-property-conflict-introduced')
# the edits every history kind is combined with (each alone)
CORE_EDITS = ['src-property-gains-value', 'src-gains-property', 'src-one-sided-section-grows',
              'dest-loses-gained-value', 'dest-loses-gained-section', 'src-property-conflict-introduced']


def third_spec(sroot):
    """A third tree over the same skeleton: everything src has (so: no conflict with either tree), one more value
    in every shared Property, one more Property and one more child Section at every skeleton node."""
    def rec(s, top):
        c = S('third' if top else s['name'], s['type'], s['definition'], s['reference'],
              props=[dict(p, values=list(p['values'])) for p in s['props']],
              secs=[rec(x, False) for x in s['secs']])
        if any(p['name'] == 'pv' for p in c['props']):
            for p in c['props']:
                if p['name'] == 'pv':
                    p['values'].append(7000)
            c['props'].append(P('pc', 'int', [9], definition='only in third'))
            c['secs'].append(S('tonly', 'tt', props=[P('q', 'int', [3])]))
        return c
    return rec(sroot, True)


class _Trees(object):
    """Specs of one generated pair (+ the third tree); builds fresh object trees on demand."""
    def __init__(self, shape, injections=(), mode='none', attached=False, tuples=False):
        droot, sroot, pairs = skeleton_specs(shape, tuples=tuples)
        for pos, feature, where in injections:
            inject(pairs[pos], feature, where)
        share_names(droot, sroot, mode)
        self.dspec, self.sspec, self.tspec = droot, sroot, third_spec(sroot)
        self.attached = attached
        self.doc = None

    def _build(self, spec, rename=None):
        if rename:
            spec = dict(spec, name=rename)
        with h.quiet():
            if not self.attached:
                return build_sec(spec)
            if self.doc is None:
                self.doc = odml.Document()
                self.host = odml.Section(name='host', type='t', parent=self.doc)
                odml.Section(name='bystander', type='t', parent=self.doc)
                return build_sec(spec, self.host)
            return build_sec(spec, self.doc)

    def dest(self):
        return self._build(self.dspec)

    def dest2(self):
        return self._build(self.dspec, 'root2')

    def src(self):
        return self._build(self.sspec)

    def third(self):
        return self._build(self.tspec)


class _History(object):
    """One history: judges and counts every merge, applies the edits, keeps a log for the witness."""
    def __init__(self, col, name, kind, wit, edits, path, k, strict, cls_extra=()):
        self.col, self.name, self.kind, self.wit = col, name, kind, wit
        self.edits, self.path, self.k, self.strict = list(edits), path, k, list(strict)
        self.cls_extra = cls_extra
        self.step = 0
        self.log = []
        self.label = '+'.join(self.edits) or 'no-edit'

    def merge(self, dest, src, what, kind_label='section'):
        strict = self.strict[min(self.step, len(self.strict) - 1)]
        self.step += 1
        wit = dict(self.wit, history=self.kind, merge_number=self.step, merge=what, before=list(self.log))
        outcome = judge(self.col, self.name, kind_label, dest, src, strict, wit, self.wit.get('feature') or self.label,
                        dest.merge, context=' | history: %s' % self.kind)
        self.log.append('%s strict=%s -> %s' % (what, strict, outcome))
        self.col.case(cls_key=(self.kind, self.step, what, strict, outcome, self.label) + self.cls_extra,
                      sample='%s: %s' % (self.kind, '; '.join(self.log)) if self.step > 1 else None)
        return outcome

    def do(self, what, fn, *args):
        """A library call that is part of the history but is not judged here (unmerge, clean, clone)."""
        kind, res = h.call(fn, *args)
        self.log.append('%s%s' % (what, '' if kind == 'ret' else ' raised %s' % type(res).__name__))
        return res if kind == 'ret' else None

    def edit(self, dest_root, src_root):
        for label in self.edits:
            try:
                with h.quiet():
                    EDITS[label](_at(dest_root, self.path), _at(src_root, self.path), self.k)
                self.log.append(label)
            except _NotApplicable as exc:
                self.log.append('%s not applicable (%s)' % (label, exc))
            except Exception as exc:       # noqa  - an edit the library refuses is simply not part of the history
                self.log.append('%s refused (%s)' % (label, type(exc).__name__))


# ---- history kinds.  t: _Trees, H: _History.  A = destination tree, B = source tree, C = third tree.

def _k_same_source_again(H, t):
    A, B = t.dest(), t.src()
    H.merge(A, B, 'A<-B')
    H.edit(A, B)
    H.merge(A, B, 'A<-B')


def _k_same_source_three_times(H, t):
    A, B = t.dest(), t.src()
    H.merge(A, B, 'A<-B')
    H.edit(A, B)
    H.merge(A, B, 'A<-B')
    with h.quiet():
        try:
            _e_src_section(_at(A, H.path), _at(B, H.path), H.k)
            _e_dest_loses_gained_property(_at(A, H.path), _at(B, H.path), H.k)
        except Exception:       # noqa
            pass
    H.merge(A, B, 'A<-B')


def _k_subtree_first(H, t):
    A, B = t.dest(), t.src()
    H.merge(_at(A, H.sub), _at(B, H.sub), 'A.sub<-B.sub')
    H.edit(A, B)
    H.merge(A, B, 'A<-B')


def _k_whole_then_subtree(H, t):
    A, B = t.dest(), t.src()
    H.merge(A, B, 'A<-B')
    H.edit(A, B)
    H.merge(_at(A, H.sub), _at(B, H.sub), 'A.sub<-B.sub')


def _k_after_unmerge(H, t):
    A, B = t.dest(), t.src()
    H.merge(A, B, 'A<-B')
    H.do('A.unmerge(B)', A.unmerge, B)
    H.edit(A, B)
    H.merge(A, B, 'A<-B')


def _k_after_clean(H, t):
    A, B = t.dest(), t.src()
    H.merge(A, B, 'A<-B')
    H.do('A.clean()', A.clean)
    H.edit(A, B)
    H.merge(A, B, 'A<-B')


def _k_clone_of_dest(H, t):
    A, B = t.dest(), t.src()
    H.merge(A, B, 'A<-B')
    A2 = H.do('A.clone()', A.clone)
    if A2 is None:
        return
    H.edit(A2, B)
    H.merge(A2, B, 'clone(A)<-B')
    H.merge(A, B, 'A<-B')


def _k_clone_of_src(H, t):
    A, B = t.dest(), t.src()
    H.merge(A, B, 'A<-B')
    B2 = H.do('B.clone()', B.clone)
    if B2 is None:
        return
    H.edit(A, B2)
    H.merge(A, B2, 'A<-clone(B)')


def _k_source_was_destination(H, t):
    A, B, C = t.dest(), t.src(), t.third()
    H.merge(B, C, 'B<-C')
    H.merge(A, B, 'A<-B')
    H.edit(A, B)
    H.merge(A, B, 'A<-B')


def _k_chain(H, t):
    A, B, C = t.dest(), t.src(), t.third()
    H.merge(A, B, 'A<-B')
    H.merge(B, C, 'B<-C')
    H.edit(A, B)
    H.merge(A, B, 'A<-B')


def _k_two_sources(H, t):
    A, B, C = t.dest(), t.src(), t.third()
    H.merge(A, B, 'A<-B')
    H.merge(A, C, 'A<-C')
    H.edit(A, B)
    H.merge(A, B, 'A<-B')


def _k_mutual(H, t):
    A, B = t.dest(), t.src()
    H.merge(A, B, 'A<-B')
    H.merge(B, A, 'B<-A')
    H.edit(A, B)
    H.merge(A, B, 'A<-B')


def _k_two_destinations(H, t):
    A, B, A2 = t.dest(), t.src(), t.dest2()
    H.merge(A, B, 'A<-B')
    H.merge(A2, B, 'A2<-B')
    H.edit(A, B)
    H.merge(A, B, 'A<-B')
    H.merge(A2, B, 'A2<-B')


def _k_property_after_section(H, t):
    A, B = t.dest(), t.src()
    H.merge(A, B, 'A<-B')
    H.edit(A, B)
    for pname in ('pv', 'ps'):
        try:
            dp, sp = _prop(_at(A, H.path), pname), _prop(_at(B, H.path), pname)
        except _NotApplicable:
            continue
        H.merge(dp, sp, 'A.%s<-B.%s' % (pname, pname), kind_label='property')


KINDS = [
    ('same-source-again', _k_same_source_again, 2),
    ('same-source-three-times', _k_same_source_three_times, 3),
    ('subtree-first', _k_subtree_first, 2),
    ('whole-then-subtree', _k_whole_then_subtree, 2),
    ('after-unmerge', _k_after_unmerge, 2),
    ('after-clean', _k_after_clean, 2),
    ('clone-of-dest', _k_clone_of_dest, 3),
    ('clone-of-src', _k_clone_of_src, 2),
    ('source-was-destination', _k_source_was_destination, 3),
    ('chain', _k_chain, 3),
    ('two-sources', _k_two_sources, 3),
    ('mutual', _k_mutual, 3),
    ('two-destinations', _k_two_destinations, 4),
    ('property-after-section', _k_property_after_section, 3),
]
KIND = {k[0]: k for k in KINDS}
SUBTREE_KINDS = ('subtree-first', 'whole-then-subtree')


def _strict_patterns(n, conflict):
    """all strict, all lenient; a conflict left behind by a lenient merge / introduced since must be refused by a
    strict one afterwards, and a refusal must not spoil the lenient merge that follows."""
    pats = [(True,) * n, (False,) * n]
    if conflict:
        pats += [(False,) * (n - 1) + (True,), (True,) * (n - 1) + (False,)]
    return pats


def _history(col, name, kind, shape, pos, edits, strict, sub=None, injections=(), mode='none', attached=False,
             feature=None, tuples=False, rand=None):
    paths = node_paths(shape)
    wit = {'shape': repr(shape), 'position': pos, 'edits': list(edits), 'strict': list(strict), 'names': mode}
    if feature:
        wit['feature'] = feature
    if sub is not None:
        wit['subtree'] = sub
    if attached:
        wit['attached'] = True
    if tuples:
        wit['tuple_property_in_src_only_section'] = True
    if rand is not None:
        wit['random'] = rand
    extra = (position_class(shape, pos), feature, mode, attached, tuples,
             None if sub is None else position_class(shape, sub))
    H = _History(col, name, kind, wit, edits, paths[pos], pos, strict, extra)
    H.sub = paths[sub] if sub is not None else None
    t = _Trees(shape, injections, mode, attached, tuples)
    try:
        KIND[kind][1](H, t)
    except _NotApplicable as exc:
        H.log.append('history cut short: %s' % exc)
    return H


def _subtree_of(shape, a, b):
    """Is skeleton node b the node a or below it?"""
    pa, pb = node_paths(shape)[a], node_paths(shape)[b]
    return pb[:len(pa)] == pa


def run_merge_history(tier, seed):
    name = 'C13.merge_history'
    quick = tier == 'quick'
    all_edits = [e[0] for e in SRC_EDITS + DEST_EDITS]
    col = Col(name, rule='histories of 2-4 merges over the skeleton pairs of run_section_merge (+ a third tree over the '
                         'same skeleton); EVERY merge of a history is judged with the full contract on snapshots taken '
                         'around that call.  %d history kinds (same source again / three times, sub-tree first then the '
                         'whole and the reverse, after unmerge / clean, clone of dest / of src, source that was a '
                         'destination before, a<-b b<-c a<-b, two sources, mutual, two destinations, Property merge after '
                         'the Section merge) x edit between the merges at every skeleton position (%d src edits: gains '
                         'value / attribute / Property / Section at the node and inside a Section dest only has as a '
                         'copy, shrinks, conflict introduced; %d dest edits: loses a gained value / Property / Section / '
                         'filled attribute, emptied, grows, conflict introduced; none) x strictness per merge (all '
                         'strict, all lenient, lenient then strict, strict then lenient); (1) same-source-again: every '
                         'edit alone at every position of every shape, every src edit x dest edit pair; (2) every other '
                         'kind x core edits; (3) same-source-again x injected conflict / conversion features x edits; '
                         '(4) naming modes, trees in documents; (5) random: kind, shape, position, 0-3 edits, strictness '
                         'per merge, feature, naming mode; distinct = (kind, merge number, strict, outcome, edits, '
                         'position class, feature, names)' % (len(KINDS), len(SRC_EDITS), len(DEST_EDITS)),
              exhaustive=True)
    if quick:
        shapes = [s for s in h.tree_shapes(2) if count_nodes(s) == 2]         # two siblings; chain of two
    else:
        shapes = [s for s in h.tree_shapes(3) if count_nodes(s) >= 1]
    small = [s for s in h.tree_shapes(2) if count_nodes(s) == 2]
    chain2 = (((),),)

    # ---- (1) the same source again: every edit alone, everywhere
    for shape in shapes:
        for pos in range(count_nodes(shape) + 1):
            for edits in [()] + [(e,) for e in all_edits]:
                conflict = bool(edits) and edits[0] in CONFLICT_EDITS
                for strict in _strict_patterns(2, conflict):
                    _history(col, name, 'same-source-again', shape, pos, edits, strict)
    #      ... and every src edit together with every dest edit
    for shape in ([chain2] if quick else small):
        for pos in range(count_nodes(shape) + 1):
            if quick and pos != count_nodes(shape):
                continue
            for se, _ in SRC_EDITS:
                for de, _ in DEST_EDITS:
                    if quick and (se not in CORE_EDITS or de not in CORE_EDITS):
                        continue
                    conflict = se in CONFLICT_EDITS or de in CONFLICT_EDITS
                    for strict in _strict_patterns(2, conflict):
                        _history(col, name, 'same-source-again', shape, pos, (se, de), strict)
    # ---- (2) the other kinds x core edits (thorough: all edits on the shapes of up to two nodes)
    for kind, _, n in KINDS[1:]:
        for shape in ([chain2] if quick else shapes):
            nn = count_nodes(shape)
            for pos in range(nn + 1):
                subs = [None]
                if kind in SUBTREE_KINDS:
                    # the sub-tree merged on its own: every node that contains the edited one, the root excepted
                    subs = [a for a in range(1, nn + 1) if _subtree_of(shape, a, pos)] or \
                           [a for a in range(1, nn + 1) if a == nn]
                for sub in subs:
                    pool = all_edits if (not quick and nn <= 2) else CORE_EDITS
                    for edits in [()] + [(e,) for e in pool]:
                        conflict = bool(edits) and edits[0] in CONFLICT_EDITS
                        pats = _strict_patterns(n, conflict)
                        if quick:
                            pats = pats[:2] if not conflict else pats[:3]
                        for strict in pats:
                            _history(col, name, kind, shape, pos, edits, strict, sub=sub)
    # ---- (3) what the first merge leaves behind when the trees are in conflict / need conversion
    feats = CORE + ['dtype-conflict-int-into-string', 'dest-empty-no-dtype', 'fill-uncertainty-zero',
                    'section-definition-conflict', 'section-same-name-different-type']
    for shape in ([chain2] if quick else small):
        nn = count_nodes(shape)
        for pos in range(nn + 1):
            if pos not in (0, nn):
                continue
            for fl in feats:
                if pos == 0 and fl == 'section-same-name-different-type':
                    continue
                for kind in ('same-source-again',) if quick else ('same-source-again', 'after-unmerge', 'clone-of-dest',
                                                                  'chain', 'mutual'):
                    for edits in [(), ('src-property-gains-value',)] + ([] if quick else [('dest-loses-gained-value',)]):
                        for strict in _strict_patterns(KIND[kind][2], True):
                            _history(col, name, kind, shape, pos, edits, strict,
                                     injections=[(pos, _feature(fl), 'first')], feature=fl)
    # ---- (4) names shared between Properties and Sections; trees living in a document
    for mode in (['all-names-shared'] if quick else SHARING[1:]):
        for kind in (('same-source-again', 'subtree-first') if quick else [k[0] for k in KINDS]):
            for shape in [chain2]:
                nn = count_nodes(shape)
                for edits in [(e,) for e in (CORE_EDITS[:3] if quick else CORE_EDITS)]:
                    for strict in _strict_patterns(KIND[kind][2], False)[:1 if quick else 2]:
                        _history(col, name, kind, shape, nn, edits, strict, mode=mode,
                                 sub=nn if kind in SUBTREE_KINDS else None)
    for kind in (('same-source-again', 'chain') if quick else [k[0] for k in KINDS]):
        for edits in [(e,) for e in (CORE_EDITS[:2] if quick else CORE_EDITS)]:
            for strict in _strict_patterns(KIND[kind][2], edits[0] in CONFLICT_EDITS):
                _history(col, name, kind, chain2, 2, edits, strict, attached=True,
                         sub=2 if kind in SUBTREE_KINDS else None)
    # ---- (5) random
    rnd = random.Random('c13-history-%s' % seed)
    rshapes = [s for s in h.tree_shapes(3) if count_nodes(s) >= 1]
    features = [f[0] for f in PROP_FEATURES + SEC_FEATURES]
    for i in range(60 if quick else 3000):
        kind, _, n = rnd.choice(KINDS)
        shape = rnd.choice(rshapes)
        nn = count_nodes(shape)
        pos = rnd.randrange(nn + 1)
        edits = tuple(rnd.sample(all_edits, rnd.choice([0, 1, 1, 2, 2, 3])))
        strict = tuple(rnd.random() < 0.5 for _ in range(n))
        sub = None
        if kind in SUBTREE_KINDS:
            sub = rnd.randrange(1, nn + 1)
        inj, fl = (), None
        if rnd.random() < 0.4:
            fl = rnd.choice(features)
            fpos = rnd.randrange(nn + 1)
            if not (fpos == 0 and fl in ('section-same-name-different-type', 'section-type-case-only')):
                inj = [(fpos, _feature(fl), rnd.choice(['first', 'last']))]
            else:
                fl = None
        mode = rnd.choice(SHARING) if rnd.random() < 0.3 else 'none'
        _history(col, name, kind, shape, pos, edits, strict, sub=sub, injections=inj, mode=mode,
                 attached=rnd.random() < 0.2, feature=fl, tuples=rnd.random() < 0.15, rand=[seed, i])
    # ---- (6) two Properties merged twice (detached, and living in Sections one of which has been merged before)
    for feature in PROP_FEATURES + [vf[:3] for vf in VALUE_FEATURES if vf[3] or not quick]:
        for edit in PROP_EDITS:
            if quick and feature[0].startswith('value-content') and edit[0] not in ('no-edit', 'dest-loses-last-value'):
                continue
            for attached in (False, True):
                for strict in _strict_patterns(2, True):
                    _property_history(col, name, feature, edit, attached, strict)
    return col.result()


def _pe_none(dp, sp):
    pass


def _pe_dest_loses_last_value(dp, sp):
    vals = list(dp._values)
    if not vals:
        raise _NotApplicable('no value')
    dp.remove(dp.values[-1])


def _pe_dest_loses_attributes(dp, sp):
    dp.unit = None
    dp.uncertainty = None
    dp.definition = None
    dp.reference = None
    dp.value_origin = None


def _pe_src_gains_unset_attributes(dp, sp):
    # only what is unset on both sides: no conflict is introduced
    for attr, val in (('unit', 'mV'), ('uncertainty', 0.25), ('definition', 'late def'), ('reference', 'late ref'),
                      ('value_origin', 'late.dat')):
        if getattr(sp, '_' + attr) is None and getattr(dp, '_' + attr) is None:
            setattr(sp, attr, val)


def _pe_src_repeats_its_values(dp, sp):
    vals = sp.values
    if not vals:
        raise _NotApplicable('no value')
    sp.values = vals + vals[:1]


PROP_EDITS = [('no-edit', _pe_none), ('dest-loses-last-value', _pe_dest_loses_last_value),
              ('dest-loses-attributes', _pe_dest_loses_attributes),
              ('src-gains-unset-attributes', _pe_src_gains_unset_attributes),
              ('src-repeats-a-value', _pe_src_repeats_its_values)]


def _property_history(col, name, feature, edit, attached, strict):
    kind = 'property-twice-in-merged-sections' if attached else 'property-twice'
    wit = {'feature': feature[0], 'edits': [edit[0]], 'strict': list(strict), 'attached': attached}
    with h.quiet():
        if attached:
            sd, ss = odml.Section(name='sd', type='t'), odml.Section(name='ss', type='t')
            odml.Property(name='other', values=[1], parent=sd)
            odml.Property(name='other', values=[2], parent=ss)
            dest, src = build_prop(feature[1]), build_prop(feature[2])
            h.call(sd.merge, ss, False)            # before the two Properties arrive: the Sections are 'merged'
            sd.append(dest)
            ss.append(src)
        else:
            dest, src = build_prop(feature[1]), build_prop(feature[2])
    log = []
    for step in (1, 2):
        w = dict(wit, history=kind, merge_number=step, before=list(log))
        outcome = judge(col, name, 'property', dest, src, strict[step - 1], w, feature[0], dest.merge,
                        context=' | history: %s' % kind)
        log.append('dest<-src strict=%s -> %s' % (strict[step - 1], outcome))
        applied = True
        if step == 1:
            try:
                with h.quiet():
                    edit[1](dest, src)
                log.append(edit[0])
            except Exception:       # noqa
                applied = False
                log.append('%s not applied' % edit[0])
        col.case(cls_key=(kind, step, feature[0], edit[0], strict[step - 1], outcome, applied))
