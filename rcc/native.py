"""
Native side of the contracts: bind a contract (path::qualname) to the real function object of the
repository, call it, and evaluate the contract clauses on the observed behaviour.
Runs under /venv/bin/python (the interpreter that has the repository's dependencies).
"""
from __future__ import annotations

import copy
import importlib
import io
import contextlib
import os
import sys
import warnings

REPO = os.environ.get('ODML_REPO', '/repo')
if REPO not in sys.path:
    sys.path.insert(0, REPO)


def resolve(fid):
    """'odml/section.py::BaseSection.parent.setter' -> (callable, kind)"""
    path, qual = fid.split('::')
    modname = path[:-3].replace('/', '.')
    if modname.endswith('.__init__'):
        modname = modname[:-9]
    mod = importlib.import_module(modname)
    parts = qual.split('.')
    obj = mod
    kind = 'function'
    for i, p in enumerate(parts):
        if p in ('getter', 'setter', 'deleter') and isinstance(obj, property):
            obj = {'getter': obj.fget, 'setter': obj.fset, 'deleter': obj.fdel}[p]
            kind = p
            continue
        if isinstance(obj, type):
            raw = None
            for klass in obj.__mro__:
                if p in klass.__dict__:
                    raw = klass.__dict__[p]
                    break
            if raw is None:
                raise AttributeError('%s has no %s' % (obj, p))
            if isinstance(raw, staticmethod):
                obj = raw.__func__
                kind = 'staticmethod'
            elif isinstance(raw, property):
                obj = raw
            else:
                obj = raw
                kind = 'method' if callable(raw) and not isinstance(raw, type) else kind
        else:
            obj = getattr(obj, p)
    return obj, kind


def quiet_call(fn, *args, **kw):
    """Call fn with stdout/stderr/warnings silenced; returns ('ret', value) or ('exc', exception)."""
    buf = io.StringIO()
    with warnings.catch_warnings():
        warnings.simplefilter('ignore')
        with contextlib.redirect_stdout(buf), contextlib.redirect_stderr(buf):
            try:
                return 'ret', fn(*args, **kw)
            except Exception as exc:      # noqa: broad on purpose, the contract classifies it
                return 'exc', exc


def shape(x, depth=0):
    """Stable classification of a value's shape (used to key known findings)."""
    if x is None:
        return 'None'
    if isinstance(x, bool):
        return 'bool:%s' % x
    if isinstance(x, int):
        return 'int0' if x == 0 else ('int+' if x > 0 else 'int-')
    if isinstance(x, float):
        return 'float0' if x == 0 else 'float'
    if isinstance(x, str):
        return "str''" if x == '' else 'str'
    if isinstance(x, tuple):
        return 'tuple(%s)' % ','.join(shape(y, depth + 1) for y in x[:6])
    if isinstance(x, list):
        return 'list[%s]' % ','.join(shape(y, depth + 1) for y in x[:6])
    if isinstance(x, dict):
        return 'dict{}' if not x else 'dict'
    return type(x).__name__


def eval_clause(src, cmod, env):
    g = dict(cmod.__dict__)
    g.update(env)       # comprehensions inside eval only see globals
    return eval(compile(src, '<contract>', 'eval'), g)


def check_pure_call(contract, cmod, fn, params, args, obligation=None, nreal=None):
    """Call the real pure function and evaluate every clause (or only `obligation`).
    Returns a list of failure dicts."""
    env = dict(zip(params, args))
    saved = copy.deepcopy(env)
    if not eval_clause(contract.requires, cmod, env):
        return None
    nreal = len(args) if nreal is None else nreal
    kind, val = quiet_call(fn, *copy.deepcopy(args[:nreal]))
    fails = []
    declared = set(contract.raises) | set(contract.may_raise)
    if kind == 'ret':
        env2 = dict(saved)
        env2['result'] = val
        for k, src in enumerate(contract.ensures):
            name = 'ensures[%d]' % k
            if obligation in (None, name):
                ok = False
                try:
                    ok = bool(eval_clause(src, cmod, env2))
                except Exception as exc:
                    ok = False
                if not ok:
                    fails.append({'obligation': name, 'observed': 'returned %r' % (val,),
                                  'expected': src})
        for exc_name, src in contract.raises.items():
            name = 'raises[%s]' % exc_name
            if obligation in (None, name):
                if eval_clause(src, cmod, saved):
                    fails.append({'obligation': name, 'observed': 'returned %r' % (val,),
                                  'expected': '%s because %s' % (exc_name, src)})
    else:
        ename = type(val).__name__
        matched = None
        for exc_name in declared:
            if _is_exc(val, exc_name):
                matched = exc_name
        if matched is None:
            if obligation in (None, 'escaping'):
                fails.append({'obligation': 'escaping', 'observed': 'raised %s: %s' % (ename, val),
                              'expected': 'only %s may escape' % sorted(declared)})
        else:
            src = contract.raises.get(matched) or contract.may_raise.get(matched)
            key = ('raises[%s]' if matched in contract.raises else 'may_raise[%s]') % matched
            if obligation in (None, key):
                if not eval_clause(src, cmod, saved):
                    fails.append({'obligation': key, 'observed': 'raised %s: %s' % (ename, val),
                                  'expected': 'no %s unless %s' % (matched, src)})
    return fails


def _is_exc(exc, name):
    for klass in type(exc).__mro__:
        if klass.__name__ == name:
            return True
    return False
