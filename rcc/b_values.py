"""
Bounded run-time contract checks for C05 (values conform to dtype, normal form), C06 (a refused value
operation changes nothing) and C09 (cardinalities).

run_values:       contract of every value-editing operation of odml.Property
    requires  InvV(p)                                   -- only conforming states are expanded
    ensures   InvV(p)                                   -- on normal and exceptional exit
    on raise  snap(p) == old(snap(p))   and the exception is a ValueError when the refused thing is a value
    dtype=    post-state is either (all values converted, dtype == requested) or old state
    normal form (when InvV holds): p.values = p.values keeps _values; get(set(v, dtype), dtype) == v
  InvV(p): every v in p._values has the Python type of p._dtype; p._dtype is a canonical odML type name
           (None only while there are no values).

run_cardinality:  contract of the three cardinality attributes (setter and set_*_cardinality)
    ensures   stored value is None or (min, max) in normal form; otherwise ValueError and old value kept
    report    warning 500/501/502 for the object  <=>  child count outside [min, max]
    never enforced; survives save+load in XML, JSON, YAML

All oracles are written from the property statements; the library is only called, never consulted.
"""
from __future__ import annotations

import copy
import datetime as dt
import decimal
import enum
import fractions
import itertools
import os
import random
import re
import shutil

from rcc import harness as h

odml = h.odml
BaseProperty = h.BaseProperty

CANON = ('string', 'text', 'int', 'float', 'url', 'datetime', 'date', 'time', 'boolean', 'person')
STR_TYPES = ('string', 'text', 'url', 'person')
TUPLE_RE = re.compile(r'^[1-9][0-9]*-tuple$')


# The repository's own tests (test_property.test_dtype, test_section.test_create_property) pin the two
# shorthands as stored verbatim, so they count as valid spellings of 'string' and 'boolean' here.
ALIASES = {'str': 'string', 'bool': 'boolean'}


def canon_dtype(d):
    """Canonical name for a stored/requested dtype, or None if it is not a valid odML type."""
    if not isinstance(d, str):
        return None
    if type(d) is str and d in ALIASES:
        return ALIASES[d]
    for c in CANON:
        if d == c and len(d) == len(c):
            return c
    s = str.__str__(d) if type(d) is str else None
    if s is not None and TUPLE_RE.match(s):
        return s
    return None


def value_problem(v, dtype):
    """None if v has the Python type of dtype (canonical), else a short description."""
    if dtype in STR_TYPES:
        ok = type(v) is str
    elif dtype == 'int':
        ok = type(v) is int
    elif dtype == 'float':
        ok = type(v) is float
    elif dtype == 'boolean':
        ok = type(v) is bool
    elif dtype == 'date':
        ok = type(v) is dt.date
    elif dtype == 'time':
        ok = type(v) is dt.time and v.microsecond == 0
    elif dtype == 'datetime':
        ok = type(v) is dt.datetime and v.microsecond == 0
    else:
        n = int(dtype.split('-')[0])
        ok = type(v) is list and len(v) == n and all(type(x) is str for x in v)
    if ok:
        return None
    return '%r (%s) is not a %s value' % (v, type(v).__name__, dtype)


def inv_values(p):
    """InvV(p): list of (clause, detail)."""
    out = []
    vals = p._values
    if not isinstance(vals, list):
        return [('values-is-list', '_values is %r' % (vals,))]
    d = p._dtype
    if d is None:
        if vals:
            out.append(('dtype-valid', 'dtype is None with values %r' % (vals,)))
        return out
    c = canon_dtype(d)
    if c is None:
        out.append(('dtype-valid', 'stored dtype %r is not an odML type name' % (d,)))
        return out
    for v in vals:
        pr = value_problem(v, c)
        if pr:
            out.append(('value-has-type-of-dtype', pr + ' (values %r)' % (vals,)))
            break
    return out


def vsnap(p):
    return (h._val(p._values), None if p._dtype is None else str.__str__(p._dtype) if type(p._dtype) is str
            else ('enum', str(p._dtype)))


# ---------------------------------------------------------------------------------------------
# pools
# ---------------------------------------------------------------------------------------------

D1, D2 = dt.date(2020, 1, 2), dt.date(1999, 12, 31)
T1, T2 = dt.time(12, 30, 1), dt.time(0, 0, 0)
DT1, DT2 = dt.datetime(2020, 1, 2, 3, 4, 5), dt.datetime(1999, 12, 31, 23, 59, 59)

# (label, value)  -- label is the stable class of the input
VALUES = [
    # native values
    ('int', 1), ('int-zero', 0), ('int-negative', -3), ('float', 1.5), ('float-integral', 2.0),
    ('bool-true', True), ('bool-false', False), ('str', 'x'), ('str-multiline', 'multi\nline'),
    ('date', D1), ('time', T1), ('datetime', DT1),
    ('datetime-with-microseconds', dt.datetime(2020, 1, 2, 3, 4, 5, 678)),
    ('time-with-microseconds', dt.time(12, 30, 1, 5)),
    ('list-int', [1, 2]), ('list-float', [1.5, 2.5]), ('list-bool', [True, False]), ('list-str', ['a', 'b']),
    ('list-date', [D1, D2]), ('list-time', [T1, T2]), ('list-datetime', [DT1, DT2]),
    ('tuple-int', (1, 2)), ('range', range(2)),
    # text forms
    ('text-int', '1'), ('text-float', '1.5'), ('text-bool-true', 'true'), ('text-bool-False', 'False'),
    ('text-bool-t', 't'), ('text-date', '2020-01-02'), ('text-time', '12:30:01'),
    ('text-datetime', '2020-01-02 03:04:05'), ('text-url', 'http://example.org/a?b=1'),
    ('text-person', 'Doe, Jane'), ('list-text-int', ['1', '2']), ('list-text-date', ['2020-01-02', '1999-12-31']),
    # near misses
    ('text-float-for-int', '1.7'), ('text-exponent', '1e3'), ('text-word', 'abc'), ('text-padded-int', ' 1 '),
    ('text-bad-date', '2020-13-01'), ('text-bad-time', '25:00:00'), ('text-iso-datetime', '2020-01-02T03:04:05'),
    ('text-yes', 'yes'), ('text-2', '2'), ('int-2', 2), ('float-nan-text', 'nan'), ('float-1.0', 1.0),
    ('bytes', b'x'), ('complex', 1j),
    # None / empty
    ('none', None), ('empty-str', ''), ('empty-list', []), ('empty-tuple', ()), ('list-none', [None]),
    ('list-empty-str', ['']), ('blank-str', ' '), ('list-blank-str', [' ']), ('empty-dict', {}),
    ('dict', {'a': 1}), ('list-empty-list', [[]]),
    # mixed lists
    ('mixed-int-str', [1, 'a']), ('mixed-int-float', [1, 2.5]), ('mixed-bool-int', [True, 1]),
    ('mixed-text-int', ['1', 2]), ('mixed-int-none', [1, None]), ('mixed-str-empty', ['a', '']),
    ('mixed-date-text', [D1, '1999-12-31']), ('mixed-str-int', ['a', 1]),
    # bracketed strings
    ('bracketed-ints', '[1, 2]'), ('bracketed-words', '[a,b]'), ('bracketed-tuples', '[(1;2), (3;4)]'),
    ('bracketed-empty', '[]'), ('bracket-open-only', '['), ('list-bracketed', ['[1, 2]']),
    # tuple syntax
    ('tuple2-text', '(1;2)'), ('tuple3-text', '(a;b;c)'), ('list-tuple2-text', ['(1;2)', '(3;4)']),
    ('tuple2-unclosed', '(1;2'), ('tuple2-no-brackets', '1;2'), ('tuple2-padded', ' ( 1 ; 2 ) '),
    ('tuple2-empty-items', '(;)'), ('list-of-lists-2', [['1', '2']]), ('list-of-tuples-2', [('1', '2')]),
    ('list-of-lists-int-2', [[1, 2], [3, 4]]), ('list-of-lists-3', [['a', 'b', 'c']]),
    ('tuple-empty-parens', '()'),
]
VALUE = dict(VALUES)

DTYPES = [(c, c) for c in CANON] + [('2-tuple', '2-tuple'), ('3-tuple', '3-tuple')] + \
         [('DType.' + c, getattr(odml.DType, c)) for c in CANON] + \
         [('none', None), ('upper-INT', 'INT'), ('capital-Float', 'Float'), ('alias-str', 'str'),
          ('alias-bool', 'bool'), ('attr-upper', 'upper'), ('attr-mro', 'mro'), ('attr-strip', 'strip'),
          ('attr-name', 'name'), ('zero-tuple', '0-tuple'), ('bare-tuple', 'tuple'), ('upper-2-TUPLE', '2-TUPLE'),
          ('empty-str', ''), ('unknown-word', 'quantity'), ('non-str-int', 5), ('padded-int', ' int')]
DTYPE = dict(DTYPES)
NATIVE = {'string': ['x', 'y'], 'text': ['multi\nline', 't2'], 'int': [1, -3], 'float': [1.5, 0.25],
          'url': ['http://example.org/a', 'http://b.org'], 'datetime': [DT1, DT2], 'date': [D1, D2],
          'time': [T1, T2], 'boolean': [True, False], 'person': ['Doe, Jane', 'Roe, R.'],
          '2-tuple': ['(1;2)', '(3;4)'], '3-tuple': ['(a;b;c)', '(d;e;f)']}

# start states: (dtype label, number of native values)
STARTS = [('none', 0)] + [(d, n) for d in list(CANON) + ['2-tuple', '3-tuple'] for n in (0, 1, 2)]


def fresh(label):
    return copy.deepcopy(VALUE[label])


def build_start(start):
    dlabel, n = start
    d = DTYPE[dlabel]
    vals = list(NATIVE[dlabel][:n]) if n else None
    with h.quiet():
        return odml.Property(name='p', dtype=d, values=vals)


def all_value_ops():
    ops = []
    for vl, _ in VALUES:
        ops.append(('values=', vl))
        for strict in (True, False):
            ops.append(('append', vl, strict))
            ops.append(('extend', vl, strict))
            for idx in (0, 5):
                ops.append(('insert', idx, vl, strict))
        for idx in (0, 1):
            ops.append(('setitem', idx, vl))
        ops.append(('remove', vl))
    for dl, _ in DTYPES:
        ops.append(('dtype=', dl))
    for st in STARTS:
        if st[1] == 0 and st[0] != 'none':
            continue
        for strict in (True, False):
            ops.append(('merge', st, strict))
        ops.append(('extend-property', st))
    ops.append(('clone',))
    return ops


VOPS = all_value_ops()


def apply_vop(op, p):
    """Apply one value operation; returns the property subsequent operations act on."""
    k = op[0]
    if k == 'values=':
        p.values = fresh(op[1])
    elif k == 'dtype=':
        p.dtype = DTYPE[op[1]]
    elif k == 'append':
        p.append(fresh(op[1]), strict=op[2])
    elif k == 'extend':
        p.extend(fresh(op[1]), strict=op[2])
    elif k == 'insert':
        p.insert(op[1], fresh(op[2]), strict=op[3])
    elif k == 'setitem':
        p[op[1]] = fresh(op[2])
    elif k == 'remove':
        p.remove(fresh(op[1]))
    elif k == 'merge':
        p.merge(build_start(op[1]), strict=op[2])
    elif k == 'extend-property':
        p.extend(build_start(op[1]))
    elif k == 'clone':
        return p.clone()
    else:
        raise AssertionError(op)
    return p


def replay_v(start, history):
    p = build_start(start)
    for op in history:
        with h.quiet():
            try:
                p = apply_vop(op, p)
            except Exception:       # noqa
                pass
    return p


def op_feature(op):
    """Stable label of the argument of the operation."""
    k = op[0]
    if k in ('values=', 'append', 'extend', 'remove'):
        return op[1]
    if k in ('insert', 'setitem'):
        return op[2]
    if k == 'dtype=':
        return op[1]
    if k in ('merge', 'extend-property'):
        return 'source-%s-%d-values' % op[1]
    return ''


EDGE_LABELS = ('none', 'empty-str', 'empty-list', 'empty-tuple', 'list-none', 'list-empty-str', 'blank-str',
               'list-blank-str', 'empty-dict', 'dict', 'list-empty-list', 'bytes', 'complex', 'range',
               'datetime-with-microseconds', 'time-with-microseconds', 'float-nan-text', 'tuple-empty-parens')


def group(label):
    """Coarse, stable class of an argument label (edge cases keep their own label)."""
    if label in EDGE_LABELS or label in DTYPE or label.startswith('source-'):
        return label
    return label.split('-')[0]


def op_kind(op):
    k = op[0]
    if k in ('append', 'extend'):
        return '%s(strict=%s)' % (k, op[2])
    if k == 'insert':
        return 'insert(strict=%s)' % op[3]
    if k == 'merge':
        return 'merge(strict=%s)' % op[2]
    return k


def state_label(p):
    d = p._dtype
    return '%s/%s' % ('None' if d is None else str.__str__(d) if type(d) is str else 'DType.' + d.name,
                      min(len(p._values), 3))


def check_normal_form(p):
    """Only called when InvV(p) holds."""
    out = []
    if p._dtype is None:
        return out
    c = canon_dtype(p._dtype)
    before = h._val(p._values)
    for v in list(p._values):
        st, r = h.call(lambda: odml.dtypes.get(odml.dtypes.set(v, p._dtype), p._dtype))
        if st == 'exc':
            out.append(('normal-form-text-roundtrip', 'get(set(%r, %r)) raised %s: %s'
                        % (v, c, type(r).__name__, r)))
            break
        if h._val(r) != h._val(v):
            out.append(('normal-form-text-roundtrip', 'get(set(%r, %r), %r) == %r' % (v, c, c, r)))
            break
    if not out:
        # the same through the public text accessor: str(p.value_str(i)) is the text of the i-th value
        for i, v in enumerate(list(p._values)):
            st, t = h.call(p.value_str, i)
            if st == 'exc':
                out.append(('normal-form-text-roundtrip', 'value_str(%d) of %r (%s) raised %s: %s'
                            % (i, v, c, type(t).__name__, str(t)[:80])))
                break
            text = t if type(t) is str else str(t)
            st, r = h.call(odml.dtypes.get, text, p._dtype)
            if st == 'exc':
                out.append(('normal-form-text-roundtrip', 'value %r (%s) has the text %r, which is refused: %s: %s'
                            % (v, c, text, type(r).__name__, str(r)[:80])))
                break
            if h._val(r) != h._val(v):
                out.append(('normal-form-text-roundtrip', 'value %r (%s) -> text %r -> value %r' % (v, c, text, r)))
                break
    q = copy.copy(p)
    q._values = list(p._values)
    st, r = h.call(setattr, q, 'values', q.values)
    if st == 'exc':
        out.append(('normal-form-self-assignment', 'p.values = p.values raised %s: %s on values %r dtype %r'
                    % (type(r).__name__, r, p._values, c)))
    elif h._val(q._values) != before or (q._dtype != p._dtype):
        out.append(('normal-form-self-assignment', 'p.values = p.values turned %r into %r (dtype %r -> %r)'
                    % (p._values, q._values, p._dtype, q._dtype)))
    return out


def evaluate_v(start, history, op):
    """Contract check of `op` in the state reached by `history` from `start`.
    Returns (violations [(clause, detail)], post-state key | None, outcome)."""
    p = replay_v(start, history)
    pre = vsnap(p)
    pre_len = len(p._values)
    pre_full = h.snap(p)
    with h.quiet():
        try:
            q = apply_vop(op, p)
            outcome, exc = 'ret', None
        except Exception as e:      # noqa
            q, outcome, exc = p, 'exc', e
    vio = []
    problems = inv_values(q)
    vio += problems
    if op[0] == 'clone' and outcome == 'ret':
        if inv_values(p):
            vio += inv_values(p)
        if vsnap(q) != vsnap(p):
            vio.append(('clone-equal-values', 'clone has %r, original %r' % (vsnap(q), vsnap(p))))
    if outcome == 'exc':
        if vsnap(p) != pre:
            vio.append(('unchanged-on-raise', 'raised %s: %s but (values, dtype) went from %r to %r'
                        % (type(exc).__name__, str(exc)[:60], pre, vsnap(p))))
        elif h.snap(p) != pre_full:
            vio.append(('unchanged-on-raise', 'raised %s but the property changed: %s'
                        % (type(exc).__name__, h.diff(pre_full, h.snap(p)))))
        # refused values must be refused with ValueError (silent about invalid dtype names and indexes)
        if not isinstance(exc, ValueError):
            value_op = op[0] in ('values=', 'append', 'extend', 'insert', 'remove', 'merge', 'extend-property') \
                or (op[0] == 'setitem' and op[1] < pre_len) \
                or (op[0] == 'dtype=' and canon_dtype(DTYPE[op[1]]) is not None)
            if value_op:
                vio.append(('refusal-is-ValueError', 'raised %s: %s' % (type(exc).__name__, str(exc)[:80])))
    if op[0] == 'dtype=' and not problems and canon_dtype(DTYPE[op[1]]) is not None:
        req = DTYPE[op[1]]
        now = vsnap(p)
        converted = canon_dtype(p._dtype) is not None and canon_dtype(p._dtype) == canon_dtype(req) \
            and len(p._values) == pre_len
        if now != pre and not converted:
            vio.append(('dtype-change-all-or-nothing', 'dtype=%r on %r gave %r' % (req, pre, now)))
    key = None
    if not problems:
        nf = check_normal_form(q)
        vio += nf
        if not nf:
            key = vsnap(q)
    return vio, key, outcome


PRIORITY = ('dtype-valid', 'values-is-list', 'value-has-type-of-dtype', 'dtype-change-all-or-nothing',
            'unchanged-on-raise', 'refusal-is-ValueError', 'clone-equal-values', 'normal-form-text-roundtrip',
            'normal-form-self-assignment')


def value_type(label):
    """Coarse class of an argument: its Python type (empty containers/strings marked)."""
    if label in DTYPE and label not in VALUE:
        return 'dtype:' + family(label)
    if label.startswith('source-'):
        return 'property-' + label.split('-')[1]
    v = VALUE[label]
    t = type(v).__name__
    if isinstance(v, (str, list, tuple, dict)) and len(v) == 0:
        return 'empty-' + t
    if isinstance(v, str) and not v.strip():
        return 'blank-str'
    if isinstance(v, (list, tuple)):
        inner = sorted(set('empty-' + type(x).__name__ if isinstance(x, (str, list)) and not x else
                           'blank-str' if isinstance(x, str) and not x.strip() else type(x).__name__ for x in v))
        return '%s-of-%s' % (t, '/'.join(inner))
    return t


def family(dlabel):
    d = dlabel.replace('DType.', '')
    return 'n-tuple' if d.endswith('-tuple') and d[0].isdigit() else d


class Agg(object):
    """One failure per class, with the number of cases and the shortest witness.
    Classes are first collected with all dimensions (clause, op, strict, dtype, argument type, exception);
    a dimension on which the failure does not depend is then dropped: strict when both settings fail,
    dtype when (all but at most one) canonical dtypes fail, argument type when three or more kinds fail."""

    def __init__(self):
        self.d = {}

    def add(self, check, cls, witness, detail, size):
        k = tuple(sorted(cls.items()))
        e = self.d.get(k)
        if e is None:
            self.d[k] = [1, check, dict(cls), witness, detail, size]
        else:
            e[0] += 1
            if size < e[5]:
                e[3:] = [witness, detail, size]

    def _merge(self, dim, full, merged_value):
        groups = {}
        for k, e in self.d.items():
            cls = e[2]
            if dim not in cls:
                continue
            rest = tuple(sorted((a, b) for a, b in cls.items() if a != dim))
            groups.setdefault(rest, []).append(k)
        for rest, keys in groups.items():
            present = set(self.d[k][2][dim] for k in keys)
            if len(keys) > 1 and full(present):
                keys.sort(key=lambda k: (self.d[k][5], repr(k)))
                first = self.d.pop(keys[0])
                for k in keys[1:]:
                    first[0] += self.d.pop(k)[0]
                first[2][dim] = merged_value
                self.d[tuple(sorted(first[2].items()))] = first

    def flush(self, col):
        self._merge('strict', lambda pres: {'True', 'False'} <= pres, 'either')
        self._merge('dtype', lambda pres: len([c for c in CANON if c in pres]) >= len(CANON) - 1, 'any')
        self._merge('value', lambda pres: len(pres) >= 3, 'several-kinds')
        for k in sorted(self.d, key=repr):
            n, check, cls, witness, detail, _ = self.d[k]
            col.fail(check=check, cls=cls, witness=witness, detail='%s  [%d failing cases in this class]' % (detail, n))


def _ctor_cases():
    for (dl, d), (vl, _) in itertools.product(DTYPES, VALUES):
        yield dl, d, vl


def run_values(tier='quick', seed=0, max_evaluations=None):
    quick = tier == 'quick'
    depth = 2 if quick else 3
    if max_evaluations is None:
        max_evaluations = 120000 if quick else 1500000
    name = 'C05.values'
    col = h.Collector(
        name,
        rule='(1) constructor: all %d dtype arguments x %d value arguments; (2) histories: every one of the %d '
             'value operations (values=, dtype=, append/extend/insert with strict on/off, item assignment, '
             'remove, merge, extend(Property), clone; arguments from the same pools) applied to every distinct '
             'conforming state (dtype, typed values) reachable by fewer than %d operations from the %d start '
             'properties (each canonical dtype and 2-/3-tuple with 0, 1, 2 native values; dtype None empty); '
             'states reached at the last level are taken one per (dtype, number of values, operation kind that '
             'produced it) when the evaluation budget would be exceeded; one evaluation = one contract check on a '
             'property rebuilt from scratch; distinct = (operation kind, state dtype/size, argument class, outcome)'
             % (len(DTYPES), len(VALUES), len(VOPS), depth, len(STARTS)),
        exhaustive=True)
    agg = Agg()

    def report(vio, cls_extra, witness, size):
        if not vio:
            return
        clauses = [c for c, _ in vio]
        for pr in PRIORITY:
            if pr in clauses:
                clause = pr
                break
        else:
            clause = clauses[0]
        detail = [d for c, d in vio if c == clause][0]
        base = cls_extra['op'].split('(')[0]
        cls = {'clause': clause, 'op': base}
        dlabel = cls_extra['dtype'].replace('DType.', '')
        if clause == 'dtype-valid':
            if base == 'constructor':
                cls['feature'] = 'dtype-argument:' + dlabel
            elif base == 'dtype=':
                cls['feature'] = 'dtype-argument:' + cls_extra['value'].replace('DType.', '')
            else:
                cls['feature'] = 'state-dtype:%s value:%s' % (family(dlabel), value_type(cls_extra['value']))
        else:
            if 'strict=' in cls_extra['op']:
                cls['strict'] = cls_extra['op'].split('strict=')[1].rstrip(')')
            cls['dtype'] = family(dlabel)
            cls['value'] = value_type(cls_extra['value'])
            if clause == 'refusal-is-ValueError':
                m = re.search(r'raised (\w+)', detail)
                cls['exception'] = m.group(1) if m else '?'
        agg.add('%s/%s' % (name, clause), cls, witness, 'observed: %s' % detail, size)

    # (1) constructor
    for dl, d, vl in _ctor_cases():
        st, p = h.call(odml.Property, name='p', dtype=d, values=fresh(vl))
        col.case(cls_key=('ctor', dl, vl, st), sample='Property(dtype=%r, values=%r)' % (d, VALUE[vl]))
        vio = []
        if st == 'exc':
            if not isinstance(p, ValueError):
                vio.append(('refusal-is-ValueError', 'constructor raised %s: %s' % (type(p).__name__, str(p)[:80])))
        else:
            vio = inv_values(p)
            if not vio:
                vio = check_normal_form(p)
        report(vio, {'op': 'constructor', 'dtype': dl, 'value': vl},
               {'call': 'odml.Property(name="p", dtype=%r, values=%r)' % (d, VALUE[vl])}, 0)

    # (2) histories
    seen = {}
    frontier = []
    for st in STARTS:
        p = build_start(st)
        assert not inv_values(p), (st, p._values, p._dtype)
        key = vsnap(p)
        if key not in seen:
            seen[key] = (st, ())
            frontier.append((st, ()))
    for level in range(depth):
        nxt = []
        remaining_budget = max_evaluations - col.evaluations
        if len(frontier) * len(VOPS) > remaining_budget:
            # one representative per (dtype, size, producing operation kind), deterministic
            reps = {}
            for st, hist in frontier:
                p = replay_v(st, hist)
                k = (state_label(p), op_kind(hist[-1]) if hist else '')
                reps.setdefault(k, (st, hist))
            frontier = [reps[k] for k in sorted(reps, key=repr)]
            col.exhaustive = False
            if len(frontier) * len(VOPS) > remaining_budget:
                rnd = random.Random(seed + level)
                frontier = rnd.sample(frontier, max(1, remaining_budget // len(VOPS)))
        for st, hist in frontier:
            slabel = state_label(replay_v(st, hist))
            for op in VOPS:
                vio, key, outcome = evaluate_v(st, hist, op)
                col.case(cls_key=(op_kind(op), slabel, op_feature(op), outcome))
                if vio:
                    report(vio, {'op': op_kind(op), 'dtype': slabel.split('/')[0], 'value': op_feature(op)},
                           {'start': 'odml.Property(name="p", dtype=%r, values=%r)'
                                     % (DTYPE[st[0]], NATIVE[st[0]][:st[1]] if st[1] else None),
                            'ops': [repr(o) for o in hist + (op,)]}, len(hist) + 1)
                if key is not None and key not in seen and level + 1 < depth:
                    seen[key] = (st, hist + (op,))
                    nxt.append((st, hist + (op,)))
        frontier = nxt
    agg.flush(col)
    res = col.result()
    res['failure_classes'] = len(agg.d)
    res['states'] = len(seen)
    return res


# =============================================================================================
# C09 cardinalities
# =============================================================================================

KINDS = {
    # kind: (attribute, set-method, validation id, children attribute)
    'values': ('val_cardinality', 'set_values_cardinality', 502),
    'sections': ('sec_cardinality', 'set_sections_cardinality', 501),
    'properties': ('prop_cardinality', 'set_properties_cardinality', 500),
}
GRID = (None, -1, 0, 1, 2, 3, 4)


def card_settings():
    """(label, value) of every setting of the C09 quantifier."""
    out = [('none', None)]
    for n in range(-1, 5):
        out.append((_item_cls(n, single=True), n))
    for a in GRID:
        for b in GRID:
            out.append(('pair:' + _pair_cls(a, b), (a, b)))
    for a, b in ((1, 3), (None, 2), (2, None), (2, 2), (3, 1), (-1, 2), (0, 0), (None, None)):
        out.append(('list:' + _pair_cls(a, b), [a, b]))
    out += [('str-empty', ''), ('str-digit', '1'), ('str-pair-text', '(1, 2)'), ('str-word', 'ab'),
            ('float-zero', 0.0), ('float-integral', 1.0), ('float', 2.5),
            ('tuple-len-0', ()), ('tuple-len-1', (1,)), ('tuple-len-3', (1, 2, 3)), ('list-len-0', []),
            ('list-len-3', [1, 2, 3]), ('pair-with-float-item', (1.0, 2)), ('pair-with-str-item', ('1', 2)),
            ('pair-with-float-max', (1, 2.0)), ('dict-empty', {}), ('dict', {1: 2})]
    return out


def _item_cls(n, single=False):
    if n is None:
        return 'None'
    pre = 'int-' if single else ''
    return pre + ('negative' if n < 0 else 'zero' if n == 0 else 'positive')


def _pair_cls(a, b):
    s = '%s,%s' % (_item_cls(a), _item_cls(b))
    if isinstance(a, int) and isinstance(b, int) and a > 0 and b > 0:
        s += ':min<max' if a < b else ':min==max' if a == b else ':min>max'
    return s


def _valid_item(x):
    return x is None or (type(x) is int and x >= 0)


def expectation(setting):
    """('store', acceptable-stored-values) | ('raise',) | ('either',) - from the statement only."""
    if setting is None:
        return ('store', [None])
    if type(setting) is tuple and len(setting) == 2 and all(_valid_item(x) for x in setting):
        a, b = setting
        if not a and not b:                       # only None / 0 items: the statement does not say
            return ('either',)
        if type(a) is int and type(b) is int and a > b:
            return ('raise',)
        alts = [(a, b)]
        if a in (0, None):
            alts = [(0, b), (None, b)]
        return ('store', alts)
    if type(setting) is tuple and len(setting) == 2:
        return ('raise',)                         # negative / non-int items
    if type(setting) is list and len(setting) == 2:
        return ('either',)                        # lists: accepted "without advertising it"
    if type(setting) is int:
        return ('raise',) if setting < 0 else ('either',)
    if not setting and setting is not False:
        return ('either',)                        # '', (), [], 0.0, {}: library resets, statement unclear
    return ('raise',)                             # strings, floats, wrong-length tuples, dicts


def normal_form_problem(c):
    if c is None:
        return None
    if type(c) is not tuple or len(c) != 2:
        return 'stored %r is not None or a 2-tuple' % (c,)
    for x in c:
        if x is not None and (type(x) is not int or x < 0):
            return 'stored %r has an item that is not None or a non-negative int' % (c,)
    if c[0] is None and c[1] is None:
        return 'stored (None, None): both empty'
    if c[0] is not None and c[1] is not None and c[0] > c[1]:
        return 'stored %r has min > max' % (c,)
    return None


def make_holder(kind, count):
    """Object carrying the cardinality with `count` children of the kind, inside a document."""
    with h.quiet():
        doc = odml.Document()
        sec = odml.Section(name='s', type='t', parent=doc)
        if kind == 'values':
            obj = odml.Property(name='p', dtype='int', values=list(range(count)) if count else None, parent=sec)
        else:
            obj = sec
            for i in range(count):
                if kind == 'sections':
                    odml.Section(name='c%d' % i, type='t', parent=sec)
                else:
                    odml.Property(name='c%d' % i, values=[i], parent=sec)
    return doc, obj


def child_count(kind, obj):
    if kind == 'values':
        return len(obj._values)
    return len(list(list.__iter__(obj._sections if kind == 'sections' else obj._props)))


def add_child(kind, obj, tag):
    with h.quiet():
        if kind == 'values':
            obj.append(1000 + tag)
        elif kind == 'sections':
            obj.append(odml.Section(name='n%d' % tag, type='t'))
        else:
            obj.append(odml.Property(name='n%d' % tag, values=[1]))


def remove_child(kind, obj):
    with h.quiet():
        if kind == 'values':
            obj.remove(obj.values[-1])
        elif kind == 'sections':
            obj.remove(obj.sections[-1])
        else:
            obj.remove(obj.properties[-1])


def warned(kind, doc, obj):
    """Is a cardinality warning of the kind reported for obj? (object level, document level)"""
    vid = KINDS[kind][2]
    res = []
    for target in (obj, doc):
        with h.quiet():
            val = odml.validation.Validation(target)
        res.append(any(getattr(e.validation_id, 'value', e.validation_id) == vid and e.obj is obj
                       and e.rank == 'warning' for e in val.errors))
    return tuple(res)


def outside(c, k):
    if c is None:
        return False
    lo, hi = c
    return (lo is not None and k < lo) or (hi is not None and k > hi)


def position(c, k):
    lo, hi = c
    shape = 'min-only' if hi is None else 'max-only' if lo is None else 'min==max' if lo == hi else 'min<max'
    if lo is not None and k < lo:
        rel = 'count<min'
    elif hi is not None and k > hi:
        rel = 'count>max'
    elif lo is not None and k == lo:
        rel = 'count==min'
    elif hi is not None and k == hi:
        rel = 'count==max'
    else:
        rel = 'inside'
    return '%s:%s' % (shape, rel)


def valid_cards():
    out = []
    for a in (None, 0, 1, 2, 3, 4):
        for b in (None, 1, 2, 3, 4):
            if a in (None, 0) and b is None:
                continue
            if a is not None and b is not None and a > b:
                continue
            out.append((a, b))
    return out


def same_card(x, y):
    def norm(c):
        if c is None:
            return None
        c = tuple(c)
        return (c[0] or None, c[1])
    return norm(x) == norm(y)


def run_cardinality(tier='quick', seed=0):
    name = 'C09.cardinality'
    settings = card_settings()
    col = h.Collector(
        name,
        rule='(a) assignment: all %d settings (None, ints -1..4, all pairs over {None,-1..4}, lists, strings, floats, '
             'wrong-length tuples, pairs with non-int items) x child counts 0..5 x 3 kinds x previous setting in '
             '{None,(1,3)} x route (attribute setter; set_*_cardinality(min,max) for pairs); (b) reports: every valid '
             '(min,max) over {None,0..4} x 3 kinds x every ordered pair of child counts (count when set -> count when '
             'validated) in 0..5, children added/removed one at a time after the cardinality was set, validated at '
             'object and at document level; (c) persistence: every valid (min,max) and None x 3 kinds x XML/JSON/YAML; '
             'distinct = (part, kind, route/format, setting class, count relation, outcome)' % len(settings),
        exhaustive=True)
    agg = Agg()
    work = os.path.join(h.WORK, 'b_values')
    os.makedirs(work, exist_ok=True)

    def fail(clause, kind, feature, witness, detail, extra=None):
        cls = {'clause': clause, 'kind': kind, 'feature': feature}
        if extra:
            cls.update(extra)
        agg.add('%s/%s' % (name, clause), cls, witness, detail, 0)

    # (a) assignment ------------------------------------------------------------------------
    for kind, (attr, method, vid) in KINDS.items():
        for label, setting in settings:
            routes = ['setter']
            if type(setting) is tuple and len(setting) == 2:
                routes.append('method')
            for route in routes:
                for prev in (None, (1, 3)):
                    for count in range(6):
                        doc, obj = make_holder(kind, count)
                        with h.quiet():
                            setattr(obj, attr, prev)
                        before = getattr(obj, '_' + attr)
                        full_before = h.snap(doc)
                        arg = copy.deepcopy(setting)
                        if route == 'setter':
                            st, r = h.call(setattr, obj, attr, arg)
                            call = 'obj.%s = %r' % (attr, setting)
                        else:
                            st, r = h.call(getattr(obj, method), arg[0], arg[1])
                            call = 'obj.%s(%r, %r)' % (method, setting[0], setting[1])
                        after = getattr(obj, '_' + attr)
                        exp = expectation(setting)
                        col.case(cls_key=('assign', kind, route, label, prev is None, st),
                                 sample='%s with %d %s, previous %r' % (call, count, kind, prev))
                        wit = {'kind': kind, 'children': count, 'previous': repr(prev), 'call': call}
                        nf = normal_form_problem(after)
                        if nf:
                            fail('stored-normal-form', kind, label, wit, '%s; %s' % (nf, st), {'route': route})
                            continue
                        if st == 'exc':
                            if not isinstance(r, ValueError):
                                fail('refusal-is-ValueError', kind, label, wit,
                                     'raised %s: %s' % (type(r).__name__, r), {'route': route})
                            if h.snap(doc) != full_before:
                                fail('previous-setting-kept-on-raise', kind, label, wit,
                                     'raised %s but %s' % (type(r).__name__, h.diff(full_before, h.snap(doc))),
                                     {'route': route})
                            if exp[0] == 'store':
                                fail('valid-setting-accepted', kind, label, wit,
                                     'raised %s: %s; a valid (min, max) must be stored' % (type(r).__name__, r),
                                     {'route': route})
                        else:
                            if exp[0] == 'raise':
                                fail('invalid-setting-refused', kind, label, wit,
                                     'no exception, stored %r (previous %r); ValueError required' % (after, prev),
                                     {'route': route})
                            elif exp[0] == 'store' and not any(after == a for a in exp[1]):
                                fail('valid-setting-stored-as-given', kind, label, wit,
                                     'stored %r, expected one of %r' % (after, exp[1]), {'route': route})
                            if child_count(kind, obj) != count:
                                fail('children-untouched', kind, label, wit,
                                     'child count went from %d to %d' % (count, child_count(kind, obj)),
                                     {'route': route})

    # (b) reports and non-enforcement ----------------------------------------------------------
    for kind, (attr, method, vid) in KINDS.items():
        for card in valid_cards():
            for k0 in range(6):
                for k1 in range(6):
                    doc, obj = make_holder(kind, k0)
                    st, r = h.call(setattr, obj, attr, card)
                    stored = getattr(obj, '_' + attr)
                    if st == 'exc' or not same_card(stored, card):
                        col.case(cls_key=('report', kind, 'not-settable'))
                        continue            # already reported in (a)
                    steps = []
                    blocked = None
                    tag = 0
                    while child_count(kind, obj) != k1 and blocked is None:
                        n = child_count(kind, obj)
                        tag += 1
                        if n < k1:
                            st, r = h.call(add_child, kind, obj, tag)
                            steps.append('add')
                        else:
                            st, r = h.call(remove_child, kind, obj)
                            steps.append('remove')
                        if st == 'exc' or child_count(kind, obj) == n:
                            blocked = '%s of a child with %d children under cardinality %r: %s' \
                                      % (steps[-1], n, card, r if st == 'exc' else 'count unchanged')
                    col.case(cls_key=('report', kind, position(card, k1), 'moved' if k0 != k1 else 'static'),
                             sample='%s %r set at %d children, validated at %d' % (attr, card, k0, k1))
                    wit = {'kind': kind, 'cardinality': repr(card), 'children_when_set': k0,
                           'children_when_validated': k1}
                    if blocked:
                        fail('never-enforced', kind, position(card, child_count(kind, obj)), wit, blocked)
                        continue
                    if not same_card(getattr(obj, '_' + attr), card):
                        fail('cardinality-stable-under-child-edits', kind, position(card, k1), wit,
                             'cardinality became %r' % (getattr(obj, '_' + attr),))
                        continue
                    got = warned(kind, doc, obj)
                    want = outside(card, k1)
                    for level, g in zip(('object', 'document'), got):
                        if g != want:
                            fail('warning-iff-count-outside-range', kind, position(card, k1), wit,
                                 '%s-level validation %s a warning %d for %d children and cardinality %r'
                                 % (level, 'reports' if g else 'does not report', vid, k1, card),
                                 {'level': level, 'expected': 'warning' if want else 'no-warning'})

    # (c) persistence -------------------------------------------------------------------------
    for fmt in ('XML', 'JSON', 'YAML'):
        for kind, (attr, method, vid) in KINDS.items():
            for card in [None] + valid_cards():
                doc, obj = make_holder(kind, 1)
                st, r = h.call(setattr, obj, attr, card)
                stored = getattr(obj, '_' + attr)
                if st == 'exc' or not same_card(stored, card):
                    col.case(cls_key=('persist', kind, fmt, 'not-settable'))
                    continue
                path = os.path.join(work, 'card_%s_%s.%s' % (kind, fmt, fmt.lower()))
                label = 'none' if card is None else 'pair:' + _pair_cls(*card)
                col.case(cls_key=('persist', kind, fmt, label), sample='%s=%r via %s' % (attr, card, fmt))
                wit = {'kind': kind, 'cardinality': repr(card), 'format': fmt}
                st, r = h.call(odml.save, doc, path, fmt)
                if st == 'exc':
                    fail('survives-save-load', kind, label, wit, 'save raised %s: %s' % (type(r).__name__, r),
                         {'format': fmt})
                    continue
                st, back = h.call(odml.load, path, fmt)
                if st == 'exc':
                    fail('survives-save-load', kind, label, wit, 'load raised %s: %s' % (type(back).__name__, back),
                         {'format': fmt})
                    continue
                try:
                    sec2 = list(list.__iter__(back._sections))[0]
                    obj2 = sec2 if kind != 'values' else list(list.__iter__(sec2._props))[0]
                    got = getattr(obj2, '_' + attr)
                except Exception as exc:     # noqa
                    fail('survives-save-load', kind, label, wit, 'loaded document lacks the object: %s' % exc,
                         {'format': fmt})
                    continue
                if not same_card(got, stored):
                    fail('survives-save-load', kind, label, wit,
                         'saved %r, loaded %r' % (stored, got), {'format': fmt})
    shutil.rmtree(work, ignore_errors=True)

    agg._merge('route', lambda pres: {'setter', 'method'} <= pres, 'either')
    agg._merge('kind', lambda pres: set(KINDS) <= pres, 'any')
    agg._merge('format', lambda pres: {'XML', 'JSON', 'YAML'} <= pres, 'any')
    agg._merge('level', lambda pres: {'object', 'document'} <= pres, 'both')
    for k in sorted(agg.d, key=repr):
        n, check, cls, witness, detail, _ = agg.d[k]
        col.fail(check=check, cls=cls, witness=witness, detail='%s  [%d failing cases in this class]' % (detail, n))
    res = col.result()
    res['failure_classes'] = len(agg.d)
    return res
