"""
Bounded run-time contract checks for C05 (values conform to dtype, normal form), C06 (a refused value
operation changes nothing) and C09 (cardinalities).

run_values:       contract of every value-editing operation of odml.Property
    requires  InvV(p)                                   -- only conforming states are expanded
    ensures   InvV(p)                                   -- on normal and exceptional exit
    on raise  snap(p) == old(snap(p))   and the exception is a ValueError when the refused thing is a value
    dtype=    post-state is either (all values converted, dtype == requested) or old state
    normal form (when InvV holds): p.values = p.values keeps _values; get(set(v, dtype), dtype) == v;
              get(str(p.value_str(i)), dtype) == v
    list-like input of k plain items: accepted => k values arrive (an item is converted or the input is refused,
              never dropped)
  Inputs: (1)/(2) one pool of values of every Python type crossed with all operation histories; (3) per dtype a pool
  of near-miss texts / hostile objects and disguised valid texts, through every entry point that stores values.
  InvV(p): every v in p._values has the Python type of p._dtype; p._dtype is a canonical odML type name
           (None only while there are no values).

run_cardinality:  contract of the three cardinality attributes (setter and set_*_cardinality)
    ensures   stored value is None or (min, max) in normal form; otherwise ValueError and old value kept
    report    warning 500/501/502 for the object  <=>  child count outside [min, max]
    never enforced; survives save+load in XML, JSON, YAML
    frame     in a document with several Sections / Properties every object comes back from save+load (string and
              file) with its own cardinalities only - an unset one stays unset whatever siblings, ancestors or
              children carry - and the loaded document warns for exactly the objects outside their own range

All oracles are written from the property statements; the library is only called, never consulted.
"""
from __future__ import annotations

import copy
import datetime as dt
import decimal
import enum
import fractions
import itertools
import os
import random
import re
import shutil

from rcc import harness as h

odml = h.odml
BaseProperty = h.BaseProperty

CANON = ('string', 'text', 'int', 'float', 'url', 'datetime', 'date', 'time', 'boolean', 'person')
STR_TYPES = ('string', 'text', 'url', 'person')
TUPLE_RE = re.compile(r'\A[1-9][0-9]*-tuple\Z')       # \Z, not $: '2-tuple\n' is not a type name


# The repository's own tests (test_property.test_dtype, test_section.test_create_property) pin the two
# shorthands as stored verbatim, so they count as valid spellings of 'string' and 'boolean' here.
ALIASES = {'str': 'string', 'bool': 'boolean'}


def canon_dtype(d):
    """Canonical name for a stored/requested dtype, or None if it is not a valid odML type."""
    if not isinstance(d, str):
        return None
    if type(d) is str and d in ALIASES:
        return ALIASES[d]
    for c in CANON:
        if d == c and len(d) == len(c):
            return c
    s = str.__str__(d) if type(d) is str else None
    if s is not None and TUPLE_RE.match(s):
        return s
    return None


def value_problem(v, dtype):
    """None if v has the Python type of dtype (canonical), else a short description."""
    if dtype in STR_TYPES:
        ok = type(v) is str
    elif dtype == 'int':
        ok = type(v) is int
    elif dtype == 'float':
        ok = type(v) is float
    elif dtype == 'boolean':
        ok = type(v) is bool
    elif dtype == 'date':
        ok = type(v) is dt.date
    elif dtype == 'time':
        ok = type(v) is dt.time and v.microsecond == 0
    elif dtype == 'datetime':
        ok = type(v) is dt.datetime and v.microsecond == 0
    else:
        n = int(dtype.split('-')[0])
        ok = type(v) is list and len(v) == n and all(type(x) is str for x in v)
    if ok:
        return None
    if dtype in ('time', 'datetime') and type(v) in (dt.time, dt.datetime) and v.microsecond:
        return '%r has a sub-second part: not a %s value in normal form' % (v, dtype)
    return '%r (%s) is not a %s value' % (v, type(v).__name__, dtype)


def inv_values(p):
    """InvV(p): list of (clause, detail)."""
    out = []
    vals = p._values
    if not isinstance(vals, list):
        return [('values-is-list', '_values is %r' % (vals,))]
    d = p._dtype
    if d is None:
        if vals:
            out.append(('dtype-valid', 'dtype is None with values %r' % (vals,)))
        return out
    c = canon_dtype(d)
    if c is None:
        out.append(('dtype-valid', 'stored dtype %r is not an odML type name' % (d,)))
        return out
    for v in vals:
        pr = value_problem(v, c)
        if pr:
            out.append(('value-has-type-of-dtype', pr + ' (values %r)' % (vals,)))
            break
    return out


def vsnap(p):
    return (h._val(p._values), None if p._dtype is None else str.__str__(p._dtype) if type(p._dtype) is str
            else ('enum', str(p._dtype)))


# hostile stand-ins for the native types (exact type checks must not be fooled by subclasses)
class _Str(str):
    pass


class _Int(int):
    pass


class _Float(float):
    pass


class _Date(dt.date):
    pass


class _Time(dt.time):
    pass


class _DateTime(dt.datetime):
    pass


class _Num(enum.IntEnum):
    one = 1
    five = 5


UTC = dt.timezone.utc
CET = dt.timezone(dt.timedelta(hours=1))

# ---------------------------------------------------------------------------------------------
# pools
# ---------------------------------------------------------------------------------------------

D1, D2 = dt.date(2020, 1, 2), dt.date(1999, 12, 31)
T1, T2 = dt.time(12, 30, 1), dt.time(0, 0, 0)
DT1, DT2 = dt.datetime(2020, 1, 2, 3, 4, 5), dt.datetime(1999, 12, 31, 23, 59, 59)

# (label, value)  -- label is the stable class of the input
VALUES = [
    # native values
    ('int', 1), ('int-zero', 0), ('int-negative', -3), ('float', 1.5), ('float-integral', 2.0),
    ('bool-true', True), ('bool-false', False), ('str', 'x'), ('str-multiline', 'multi\nline'),
    ('date', D1), ('time', T1), ('datetime', DT1),
    ('datetime-with-microseconds', dt.datetime(2020, 1, 2, 3, 4, 5, 678)),
    ('time-with-microseconds', dt.time(12, 30, 1, 5)),
    ('list-int', [1, 2]), ('list-float', [1.5, 2.5]), ('list-bool', [True, False]), ('list-str', ['a', 'b']),
    ('list-date', [D1, D2]), ('list-time', [T1, T2]), ('list-datetime', [DT1, DT2]),
    ('tuple-int', (1, 2)), ('range', range(2)),
    # text forms
    ('text-int', '1'), ('text-float', '1.5'), ('text-bool-true', 'true'), ('text-bool-False', 'False'),
    ('text-bool-t', 't'), ('text-date', '2020-01-02'), ('text-time', '12:30:01'),
    ('text-datetime', '2020-01-02 03:04:05'), ('text-url', 'http://example.org/a?b=1'),
    ('text-person', 'Doe, Jane'), ('list-text-int', ['1', '2']), ('list-text-date', ['2020-01-02', '1999-12-31']),
    # near misses
    ('text-float-for-int', '1.7'), ('text-exponent', '1e3'), ('text-word', 'abc'), ('text-padded-int', ' 1 '),
    ('text-bad-date', '2020-13-01'), ('text-bad-time', '25:00:00'), ('text-iso-datetime', '2020-01-02T03:04:05'),
    ('text-yes', 'yes'), ('text-2', '2'), ('int-2', 2), ('float-nan-text', 'nan'), ('float-1.0', 1.0),
    ('bytes', b'x'), ('complex', 1j),
    # None / empty
    ('none', None), ('empty-str', ''), ('empty-list', []), ('empty-tuple', ()), ('list-none', [None]),
    ('list-empty-str', ['']), ('blank-str', ' '), ('list-blank-str', [' ']), ('empty-dict', {}),
    ('dict', {'a': 1}), ('list-empty-list', [[]]),
    # mixed lists
    ('mixed-int-str', [1, 'a']), ('mixed-int-float', [1, 2.5]), ('mixed-bool-int', [True, 1]),
    ('mixed-text-int', ['1', 2]), ('mixed-int-none', [1, None]), ('mixed-str-empty', ['a', '']),
    ('mixed-date-text', [D1, '1999-12-31']), ('mixed-str-int', ['a', 1]),
    # bracketed strings
    ('bracketed-ints', '[1, 2]'), ('bracketed-words', '[a,b]'), ('bracketed-tuples', '[(1;2), (3;4)]'),
    ('bracketed-empty', '[]'), ('bracket-open-only', '['), ('list-bracketed', ['[1, 2]']),
    # tuple syntax
    ('tuple2-text', '(1;2)'), ('tuple3-text', '(a;b;c)'), ('list-tuple2-text', ['(1;2)', '(3;4)']),
    ('tuple2-unclosed', '(1;2'), ('tuple2-no-brackets', '1;2'), ('tuple2-padded', ' ( 1 ; 2 ) '),
    ('tuple2-empty-items', '(;)'), ('list-of-lists-2', [['1', '2']]), ('list-of-tuples-2', [('1', '2')]),
    ('list-of-lists-int-2', [[1, 2], [3, 4]]), ('list-of-lists-3', [['a', 'b', 'c']]),
    ('tuple-empty-parens', '()'),
]
VALUE = dict(VALUES)

DTYPES = [(c, c) for c in CANON] + [('2-tuple', '2-tuple'), ('3-tuple', '3-tuple')] + \
         [('DType.' + c, getattr(odml.DType, c)) for c in CANON] + \
         [('none', None), ('upper-INT', 'INT'), ('capital-Float', 'Float'), ('alias-str', 'str'),
          ('alias-bool', 'bool'), ('attr-upper', 'upper'), ('attr-mro', 'mro'), ('attr-strip', 'strip'),
          ('attr-name', 'name'), ('zero-tuple', '0-tuple'), ('bare-tuple', 'tuple'), ('upper-2-TUPLE', '2-TUPLE'),
          ('empty-str', ''), ('unknown-word', 'quantity'), ('non-str-int', 5), ('padded-int', ' int'),
          # near misses of type names
          ('trailing-newline-2-tuple', '2-tuple\n'), ('trailing-newline-int', 'int\n'), ('trailing-blank-int', 'int '),
          ('trailing-blank-2-tuple', '2-tuple '), ('leading-newline-2-tuple', '\n2-tuple'),
          ('leading-zero-02-tuple', '02-tuple'), ('fullwidth-digit-tuple', '\uff12-tuple'),
          ('arabic-indic-digit-tuple', '\u0662-tuple'), ('negative-tuple', '-2-tuple'), ('plus-tuple', '+2-tuple'),
          ('no-dash-2tuple', '2tuple'), ('underscore-2_tuple', '2_tuple'), ('two-lines-tuple', 'x\n2-tuple'),
          ('1-tuple', '1-tuple'), ('10-tuple', '10-tuple'), ('word-integer', 'integer'), ('word-double', 'double'),
          ('word-datetime.datetime', 'datetime.datetime'), ('mixed-case-DateTime', 'DateTime'),
          ('upper-STRING', 'STRING'), ('dotless-i-ınt', '\u0131nt'), ('capital-dotted-İNT', '\u0130NT'),
          ('bytes-int', b'int'), ('list-of-name-int', ['int']), ('str-subclass-int', _Str('int')), ('python-type-int', int), ('python-type-str', str),
          ('nul-int', 'int\x00'), ('two-names', 'int float')]
DTYPE = dict(DTYPES)
NATIVE = {'string': ['x', 'y'], 'text': ['multi\nline', 't2'], 'int': [1, -3], 'float': [1.5, 0.25],
          'url': ['http://example.org/a', 'http://b.org'], 'datetime': [DT1, DT2], 'date': [D1, D2],
          'time': [T1, T2], 'boolean': [True, False], 'person': ['Doe, Jane', 'Roe, R.'],
          '2-tuple': ['(1;2)', '(3;4)'], '3-tuple': ['(a;b;c)', '(d;e;f)']}

# start states: (dtype label, number of native values)
STARTS = [('none', 0)] + [(d, n) for d in list(CANON) + ['2-tuple', '3-tuple'] for n in (0, 1, 2)]


def fresh(label):
    return copy.deepcopy(VALUE[label])


def build_start(start):
    with h.quiet():
        return build_start_raw(start)


def build_start_raw(start):
    dlabel, n = start
    d = DTYPE[dlabel]
    vals = list(NATIVE[dlabel][:n]) if n else None
    return odml.Property(name='p', dtype=d, values=vals)


def all_value_ops():
    ops = []
    for vl, _ in VALUES:
        ops.append(('values=', vl))
        for strict in (True, False):
            ops.append(('append', vl, strict))
            ops.append(('extend', vl, strict))
            for idx in (0, 5):
                ops.append(('insert', idx, vl, strict))
        for idx in (0, 1):
            ops.append(('setitem', idx, vl))
        ops.append(('remove', vl))
    for dl, _ in DTYPES:
        ops.append(('dtype=', dl))
    for st in STARTS:
        if st[1] == 0 and st[0] != 'none':
            continue
        for strict in (True, False):
            ops.append(('merge', st, strict))
        ops.append(('extend-property', st))
    ops.append(('clone',))
    return ops


VOPS = all_value_ops()


def apply_vop(op, p):
    """Apply one value operation; returns the property subsequent operations act on."""
    k = op[0]
    if k == 'values=':
        p.values = fresh(op[1])
    elif k == 'dtype=':
        p.dtype = DTYPE[op[1]]
    elif k == 'append':
        p.append(fresh(op[1]), strict=op[2])
    elif k == 'extend':
        p.extend(fresh(op[1]), strict=op[2])
    elif k == 'insert':
        p.insert(op[1], fresh(op[2]), strict=op[3])
    elif k == 'setitem':
        p[op[1]] = fresh(op[2])
    elif k == 'remove':
        p.remove(fresh(op[1]))
    elif k == 'merge':
        p.merge(build_start(op[1]), strict=op[2])
    elif k == 'extend-property':
        p.extend(build_start(op[1]))
    elif k == 'clone':
        return p.clone()
    else:
        raise AssertionError(op)
    return p


def replay_v(start, history):
    p = build_start(start)
    for op in history:
        with h.quiet():
            try:
                p = apply_vop(op, p)
            except Exception:       # noqa
                pass
    return p


def op_feature(op):
    """Stable label of the argument of the operation."""
    k = op[0]
    if k in ('values=', 'append', 'extend', 'remove'):
        return op[1]
    if k in ('insert', 'setitem'):
        return op[2]
    if k == 'dtype=':
        return op[1]
    if k in ('merge', 'extend-property'):
        return 'source-%s-%d-values' % op[1]
    return ''


EDGE_LABELS = ('none', 'empty-str', 'empty-list', 'empty-tuple', 'list-none', 'list-empty-str', 'blank-str',
               'list-blank-str', 'empty-dict', 'dict', 'list-empty-list', 'bytes', 'complex', 'range',
               'datetime-with-microseconds', 'time-with-microseconds', 'float-nan-text', 'tuple-empty-parens')


def group(label):
    """Coarse, stable class of an argument label (edge cases keep their own label)."""
    if label in EDGE_LABELS or label in DTYPE or label.startswith('source-'):
        return label
    return label.split('-')[0]


def op_kind(op):
    k = op[0]
    if k in ('append', 'extend'):
        return '%s(strict=%s)' % (k, op[2])
    if k == 'insert':
        return 'insert(strict=%s)' % op[3]
    if k == 'merge':
        return 'merge(strict=%s)' % op[2]
    return k


def state_label(p):
    d = p._dtype
    return '%s/%s' % ('None' if d is None else str.__str__(d) if type(d) is str else 'DType.' + d.name,
                      min(len(p._values), 3))


def _try(fn, *a, **kw):
    """h.call without the silencing (for use inside one h.quiet() block)."""
    try:
        return 'ret', fn(*a, **kw)
    except Exception as exc:       # noqa
        return 'exc', exc


def check_normal_form(p):
    """Only called when InvV(p) holds."""
    with h.quiet():
        return check_normal_form_raw(p)


def check_normal_form_raw(p):
    out = []
    if p._dtype is None:
        return out
    c = canon_dtype(p._dtype)
    before = h._val(p._values)
    for v in list(p._values):
        st, r = _try(lambda: odml.dtypes.get(odml.dtypes.set(v, p._dtype), p._dtype))
        if st == 'exc':
            out.append(('normal-form-text-roundtrip', 'get(set(%r, %r)) raised %s: %s'
                        % (v, c, type(r).__name__, r)))
            break
        if h._val(r) != h._val(v):
            out.append(('normal-form-text-roundtrip', 'get(set(%r, %r), %r) == %r' % (v, c, c, r)))
            break
    if not out:
        # the same through the public text accessor: str(p.value_str(i)) is the text of the i-th value
        for i, v in enumerate(list(p._values)):
            st, t = _try(p.value_str, i)
            if st == 'exc':
                out.append(('normal-form-text-roundtrip', 'value_str(%d) of %r (%s) raised %s: %s'
                            % (i, v, c, type(t).__name__, str(t)[:80])))
                break
            text = t if type(t) is str else str(t)
            st, r = _try(odml.dtypes.get, text, p._dtype)
            if st == 'exc':
                out.append(('normal-form-text-roundtrip', 'value %r (%s) has the text %r, which is refused: %s: %s'
                            % (v, c, text, type(r).__name__, str(r)[:80])))
                break
            if h._val(r) != h._val(v):
                out.append(('normal-form-text-roundtrip', 'value %r (%s) -> text %r -> value %r' % (v, c, text, r)))
                break
    q = copy.copy(p)
    q._values = list(p._values)
    st, r = _try(setattr, q, 'values', q.values)
    if st == 'exc':
        out.append(('normal-form-self-assignment', 'p.values = p.values raised %s: %s on values %r dtype %r'
                    % (type(r).__name__, r, p._values, c)))
    elif h._val(q._values) != before or (q._dtype != p._dtype):
        out.append(('normal-form-self-assignment', 'p.values = p.values turned %r into %r (dtype %r -> %r)'
                    % (p._values, q._values, p._dtype, q._dtype)))
    return out


def evaluate_v(start, history, op):
    """Contract check of `op` in the state reached by `history` from `start`.
    Returns (violations [(clause, detail)], post-state key | None, outcome)."""
    p = replay_v(start, history)
    pre = vsnap(p)
    pre_len = len(p._values)
    pre_full = h.snap(p)
    with h.quiet():
        try:
            q = apply_vop(op, p)
            outcome, exc = 'ret', None
        except Exception as e:      # noqa
            q, outcome, exc = p, 'exc', e
    vio = []
    problems = inv_values(q)
    vio += problems
    if op[0] == 'clone' and outcome == 'ret':
        if inv_values(p):
            vio += inv_values(p)
        if vsnap(q) != vsnap(p):
            vio.append(('clone-equal-values', 'clone has %r, original %r' % (vsnap(q), vsnap(p))))
    if outcome == 'exc':
        if vsnap(p) != pre:
            vio.append(('unchanged-on-raise', 'raised %s: %s but (values, dtype) went from %r to %r'
                        % (type(exc).__name__, str(exc)[:60], pre, vsnap(p))))
        elif h.snap(p) != pre_full:
            vio.append(('unchanged-on-raise', 'raised %s but the property changed: %s'
                        % (type(exc).__name__, h.diff(pre_full, h.snap(p)))))
        # refused values must be refused with ValueError (silent about invalid dtype names and indexes)
        if not isinstance(exc, ValueError):
            value_op = op[0] in ('values=', 'append', 'extend', 'insert', 'remove', 'merge', 'extend-property') \
                or (op[0] == 'setitem' and op[1] < pre_len) \
                or (op[0] == 'dtype=' and canon_dtype(DTYPE[op[1]]) is not None)
            if value_op:
                vio.append(('refusal-is-ValueError', 'raised %s: %s' % (type(exc).__name__, str(exc)[:80])))
    if op[0] == 'dtype=' and not problems and canon_dtype(DTYPE[op[1]]) is not None:
        req = DTYPE[op[1]]
        now = vsnap(p)
        converted = canon_dtype(p._dtype) is not None and canon_dtype(p._dtype) == canon_dtype(req) \
            and len(p._values) == pre_len
        if now != pre and not converted:
            vio.append(('dtype-change-all-or-nothing', 'dtype=%r on %r gave %r' % (req, pre, now)))
    key = None
    if not problems:
        nf = check_normal_form(q)
        vio += nf
        if not nf:
            key = vsnap(q)
    return vio, key, outcome


PRIORITY = ('dtype-valid', 'values-is-list', 'value-has-type-of-dtype', 'dtype-change-all-or-nothing',
            'unchanged-on-raise', 'refusal-is-ValueError', 'every-input-item-stored-or-refused', 'clone-equal-values', 'normal-form-text-roundtrip',
            'normal-form-self-assignment')


def value_type(label):
    """Coarse class of an argument: its Python type (empty containers/strings marked)."""
    if label in DTYPE and label not in VALUE:
        return 'dtype:' + family(label)
    if label.startswith('source-'):
        return 'property-' + label.split('-')[1]
    v = VALUE[label]
    t = type(v).__name__
    if isinstance(v, (str, list, tuple, dict)) and len(v) == 0:
        return 'empty-' + t
    if isinstance(v, str) and not v.strip():
        return 'blank-str'
    if isinstance(v, (list, tuple)):
        inner = sorted(set('empty-' + type(x).__name__ if isinstance(x, (str, list)) and not x else
                           'blank-str' if isinstance(x, str) and not x.strip() else type(x).__name__ for x in v))
        return '%s-of-%s' % (t, '/'.join(inner))
    return t


def family(dlabel):
    d = dlabel.replace('DType.', '')
    return 'n-tuple' if d.endswith('-tuple') and d[0].isdigit() else d


class Agg(object):
    """One failure per class, with the number of cases and the shortest witness.
    Classes are first collected with all dimensions (clause, op, strict, dtype, argument type, exception);
    a dimension on which the failure does not depend is then dropped: strict when both settings fail,
    dtype when (all but at most one) canonical dtypes fail, argument type when three or more kinds fail; for the
    near-miss phase the way the value got in (entry point, strict, argument form) when there are several, and the
    near-miss label when six or more fail (then the defect is not about one particular spelling)."""

    def __init__(self):
        self.d = {}

    def add(self, check, cls, witness, detail, size):
        k = tuple(sorted(cls.items()))
        e = self.d.get(k)
        if e is None:
            self.d[k] = [1, check, dict(cls), witness, detail, size]
        else:
            e[0] += 1
            if size < e[5]:
                e[3:] = [witness, detail, size]

    def _merge(self, dim, full, merged_value):
        groups = {}
        for k, e in self.d.items():
            cls = e[2]
            if dim not in cls:
                continue
            rest = tuple(sorted((a, b) for a, b in cls.items() if a != dim))
            groups.setdefault(rest, []).append(k)
        for rest, keys in groups.items():
            present = set(self.d[k][2][dim] for k in keys)
            if len(keys) > 1 and full(present):
                keys.sort(key=lambda k: (self.d[k][5], repr(k)))
                first = self.d.pop(keys[0])
                for k in keys[1:]:
                    first[0] += self.d.pop(k)[0]
                first[2][dim] = merged_value
                self.d[tuple(sorted(first[2].items()))] = first

    def _collapse_entries(self):
        """Near-miss classes that differ only in how the value got in (entry point, strict, argument form) are
        one class; the way in is kept when there is only one."""
        groups = {}
        for k, e in self.d.items():
            if 'entry' in e[2]:
                rest = tuple(sorted((a, b) for a, b in e[2].items() if a not in ('entry', 'strict', 'form')))
                groups.setdefault(rest, []).append(k)
        for rest, keys in groups.items():
            if len(keys) < 2:
                continue
            keys.sort(key=lambda k: (self.d[k][5], repr(k)))
            entries = sorted(set(self.d[k][2]['entry'] for k in keys))
            first = self.d.pop(keys[0])
            for k in keys[1:]:
                first[0] += self.d.pop(k)[0]
            first[2] = dict(rest)
            first[2]['entry'] = entries[0] if len(entries) == 1 else 'several-entry-points'
            self.d[tuple(sorted(first[2].items()))] = first

    def flush(self, col):
        self._merge('strict', lambda pres: {'True', 'False'} <= pres, 'either')
        self._collapse_entries()
        self._merge('feature', lambda pres: len(pres) >= 6 and all(':' in f for f in pres), 'several-near-misses')
        self._merge('dtype', lambda pres: len([c for c in CANON if c in pres]) >= len(CANON) - 1, 'any')
        self._merge('value', lambda pres: len(pres) >= 3, 'several-kinds')
        for k in sorted(self.d, key=repr):
            n, check, cls, witness, detail, _ = self.d[k]
            col.fail(check=check, cls=cls, witness=witness, detail='%s  [%d failing cases in this class]' % (detail, n))


# ---------------------------------------------------------------------------------------------
# near-miss / hostile input dimension
#
# For every dtype: texts and objects that are *almost* a value of the dtype (a converter that becomes
# more lenient accepts them) together with general disguises of valid text (blanks, case, foreign
# digits, quotes, str subclass, bytes) and of valid objects (subclass instances, tz-aware / sub-second
# variants, the neighbouring temporal type).  The statement does not say which of them are convertible,
# so nothing here is expected to be accepted or refused: the oracle is only what the statement says
# about the result (stored values have exactly the type of the dtype and are in normal form; a refusal
# is a ValueError and changes nothing; dtype= converts all or nothing).
# ---------------------------------------------------------------------------------------------

NATIVE_TEXT = {'string': ['abc'], 'text': ['ab\ncd'], 'url': ['http://example.org/x'], 'person': ['Doe, Jane'],
               'int': ['5', '-12'], 'float': ['1.5', '-0.25'], 'boolean': ['true', 'False'],
               'date': ['2021-03-04'], 'time': ['05:06:07'], 'datetime': ['2021-03-04 05:06:07'],
               '2-tuple': ['(1;2)'], '3-tuple': ['(a;b;c)']}


def _digits(text, zero):
    return text.translate(dict((ord('0') + i, zero + i) for i in range(10)))


# disguises of a valid text: (label, function)
TEXT_DISGUISES = [
    ('leading-blank', lambda t: ' ' + t), ('trailing-blank', lambda t: t + ' '),
    ('surrounding-blanks', lambda t: '  ' + t + '  '), ('trailing-newline', lambda t: t + '\n'),
    ('leading-tab', lambda t: '\t' + t), ('no-break-space', lambda t: '\xa0' + t),
    ('zero-width-space', lambda t: t + '\u200b'), ('byte-order-mark', lambda t: '\ufeff' + t),
    ('nul-suffix', lambda t: t + '\x00'), ('upper-case', lambda t: t.upper()),
    ('capitalized', lambda t: t.capitalize()), ('arabic-indic-digits', lambda t: _digits(t, 0x0660)),
    ('fullwidth-digits', lambda t: _digits(t, 0xFF10)), ('double-quoted', lambda t: '"%s"' % t),
    ('single-quoted', lambda t: "'%s'" % t), ('doubled', lambda t: t + ' ' + t),
    ('trailing-comma', lambda t: t + ','), ('trailing-semicolon', lambda t: t + ';'),
    ('trailing-point', lambda t: t + '.'), ('square-bracketed', lambda t: '[' + t + ']'),
    ('parenthesised', lambda t: '(' + t + ')'), ('str-subclass', lambda t: _Str(t)),
    ('bytes', lambda t: t.encode('utf-8')), ('bytearray', lambda t: bytearray(t.encode('utf-8'))),
]

# near misses proper: dtype -> [(label, value)]
NEAR = {
    'datetime': [
        ('text-fractional-seconds', '2021-03-04 05:06:07.250000'), ('text-fractional-seconds-short', '2021-03-04 05:06:07.5'),
        ('text-fractional-seconds-zero', '2021-03-04 05:06:07.000000'), ('text-fractional-comma', '2021-03-04 05:06:07,25'),
        ('text-T-separator', '2021-03-04T05:06:07'), ('text-T-separator-fractional', '2021-03-04T05:06:07.25'),
        ('text-timezone-Z', '2021-03-04 05:06:07Z'), ('text-timezone-offset', '2021-03-04 05:06:07+01:00'),
        ('text-timezone-name', '2021-03-04 05:06:07 UTC'), ('text-single-digit-fields', '2021-3-4 5:6:7'),
        ('text-two-digit-year', '21-03-04 05:06:07'), ('text-five-digit-year', '12021-03-04 05:06:07'),
        ('text-month-13', '2021-13-04 05:06:07'), ('text-month-0', '2021-00-04 05:06:07'),
        ('text-day-30-february', '2021-02-30 05:06:07'), ('text-day-29-february-common-year', '2021-02-29 05:06:07'),
        ('text-day-29-february-leap-year', '2020-02-29 05:06:07'), ('text-hour-24', '2021-03-04 24:00:00'),
        ('text-minute-60', '2021-03-04 05:60:07'), ('text-second-60', '2021-03-04 05:06:60'),
        ('text-second-61', '2021-03-04 05:06:61'), ('text-date-only', '2021-03-04'), ('text-time-only', '05:06:07'),
        ('text-no-seconds', '2021-03-04 05:06'), ('text-slashes', '2021/03/04 05:06:07'),
        ('text-day-first', '04-03-2021 05:06:07'), ('text-double-blank-separator', '2021-03-04  05:06:07'),
        ('text-compact', '20210304050607'), ('text-am-pm', '2021-03-04 05:06:07 PM'),
        ('text-negative-year', '-2021-03-04 05:06:07'), ('text-year-0000', '0000-01-01 00:00:00'),
        ('text-year-below-1000', '0999-12-31 23:59:59'), ('text-year-9999', '9999-12-31 23:59:59'),
        ('text-epoch-seconds', '1614834367'),
        ('object-microseconds', dt.datetime(2021, 3, 4, 5, 6, 7, 250000)),
        ('object-tz-aware', dt.datetime(2021, 3, 4, 5, 6, 7, tzinfo=UTC)),
        ('object-tz-aware-offset', dt.datetime(2021, 3, 4, 5, 6, 7, tzinfo=CET)),
        ('object-tz-aware-microseconds', dt.datetime(2021, 3, 4, 5, 6, 7, 9, tzinfo=CET)),
        ('object-fold', dt.datetime(2021, 3, 4, 5, 6, 7, fold=1)),
        ('object-subclass', _DateTime(2021, 3, 4, 5, 6, 7)),
        ('object-subclass-microseconds', _DateTime(2021, 3, 4, 5, 6, 7, 8)),
        ('object-max', dt.datetime.max), ('object-min', dt.datetime.min),
        ('object-year-below-1000', dt.datetime(999, 12, 31, 23, 59, 59)),
        ('object-date', dt.date(2021, 3, 4)), ('object-time', dt.time(5, 6, 7)),
        ('object-epoch-int', 1614834367), ('object-epoch-float', 1614834367.25),
    ],
    'date': [
        ('text-datetime', '2021-03-04 05:06:07'), ('text-datetime-midnight', '2021-03-04 00:00:00'),
        ('text-datetime-T', '2021-03-04T05:06:07'), ('text-timezone-Z', '2021-03-04Z'),
        ('text-single-digit-fields', '2021-3-4'), ('text-two-digit-year', '21-03-04'),
        ('text-five-digit-year', '12021-03-04'), ('text-month-13', '2021-13-04'), ('text-month-0', '2021-00-04'),
        ('text-day-0', '2021-03-00'), ('text-day-32', '2021-03-32'), ('text-day-30-february', '2021-02-30'),
        ('text-day-29-february-common-year', '2021-02-29'), ('text-day-29-february-leap-year', '2020-02-29'),
        ('text-compact', '20210304'), ('text-slashes', '2021/03/04'), ('text-points', '2021.03.04'),
        ('text-day-first', '04-03-2021'), ('text-month-name', '2021-Mar-04'), ('text-ordinal-day', '2021-063'),
        ('text-week-date', '2021-W09-4'), ('text-year-month', '2021-03'), ('text-negative-year', '-2021-03-04'),
        ('text-year-0000', '0000-01-01'), ('text-year-below-1000', '0999-12-31'), ('text-year-9999', '9999-12-31'),
        ('object-datetime', dt.datetime(2021, 3, 4, 5, 6, 7)), ('object-datetime-midnight', dt.datetime(2021, 3, 4)),
        ('object-datetime-microseconds', dt.datetime(2021, 3, 4, 0, 0, 0, 5)),
        ('object-datetime-tz-aware', dt.datetime(2021, 3, 4, tzinfo=UTC)),
        ('object-subclass', _Date(2021, 3, 4)), ('object-datetime-subclass', _DateTime(2021, 3, 4)),
        ('object-max', dt.date.max), ('object-min', dt.date.min), ('object-year-below-1000', dt.date(999, 12, 31)),
        ('object-time', dt.time(5, 6, 7)), ('object-int', 20210304), ('object-ordinal-int', 737853),
    ],
    'time': [
        ('text-fractional-seconds', '05:06:07.250000'), ('text-fractional-seconds-short', '05:06:07.5'),
        ('text-fractional-seconds-zero', '05:06:07.000000'), ('text-fractional-comma', '05:06:07,25'),
        ('text-timezone-Z', '05:06:07Z'), ('text-timezone-offset', '05:06:07+01:00'),
        ('text-single-digit-fields', '5:6:7'), ('text-hour-24', '24:00:00'), ('text-hour-25', '25:00:00'),
        ('text-minute-60', '05:60:07'), ('text-second-60', '05:06:60'), ('text-second-61', '05:06:61'),
        ('text-no-seconds', '05:06'), ('text-hour-only', '05'), ('text-am-pm', '05:06:07 PM'),
        ('text-T-prefix', 'T05:06:07'), ('text-compact', '050607'), ('text-points', '05.06.07'),
        ('text-datetime', '2021-03-04 05:06:07'), ('text-negative', '-05:06:07'), ('text-three-digit-hour', '005:06:07'),
        ('object-microseconds', dt.time(5, 6, 7, 250000)), ('object-tz-aware', dt.time(5, 6, 7, tzinfo=UTC)),
        ('object-tz-aware-microseconds', dt.time(5, 6, 7, 9, tzinfo=CET)), ('object-fold', dt.time(5, 6, 7, fold=1)),
        ('object-subclass', _Time(5, 6, 7)), ('object-subclass-microseconds', _Time(5, 6, 7, 8)),
        ('object-max', dt.time.max), ('object-min', dt.time.min),
        ('object-datetime', dt.datetime(2021, 3, 4, 5, 6, 7)), ('object-date', dt.date(2021, 3, 4)),
        ('object-timedelta', dt.timedelta(hours=5)), ('object-seconds-int', 18367), ('object-seconds-float', 18367.25),
    ],
    'int': [
        ('text-exponent', '1e3'), ('text-exponent-upper', '1E3'), ('text-negative-exponent', '1e-3'),
        ('text-big-exponent', '1e22'), ('text-huge-exponent', '1e400'), ('text-decimal-point-zero', '5.0'),
        ('text-decimal-fraction', '5.7'), ('text-negative-decimal-fraction', '-5.7'), ('text-trailing-point', '5.'),
        ('text-leading-point', '.5'), ('text-hex', '0x10'), ('text-octal', '0o17'), ('text-binary', '0b11'),
        ('text-underscore', '1_000'), ('text-plus-sign', '+5'), ('text-minus-zero', '-0'), ('text-double-sign', '--5'),
        ('text-sign-blank', '- 5'), ('text-arabic-indic-digit', '٣'), ('text-fullwidth-digit', '５'),
        ('text-superscript-digit', '²'), ('text-roman-numeral', 'Ⅴ'), ('text-vulgar-fraction', '½'),
        ('text-leading-zeros', '007'), ('text-thousands-comma', '1,000'), ('text-decimal-comma', '1,5'),
        ('text-thousands-blank', '1 000'), ('text-nan', 'nan'), ('text-inf', 'inf'), ('text-negative-inf', '-inf'),
        ('text-400-digits', '9' * 400), ('text-trailing-L', '5L'), ('text-percent', '5%'), ('text-with-unit', '5 mV'),
        ('text-true', 'true'), ('text-word-number', 'five'), ('text-fraction', '7/2'), ('text-complex', '5+0j'),
        ('object-bool-true', True), ('object-bool-false', False), ('object-float-fraction', 2.5),
        ('object-float-negative-fraction', -2.5), ('object-float-integral', 2.0), ('object-float-nan', float('nan')),
        ('object-float-inf', float('inf')), ('object-float-1e22', 1e22), ('object-complex', 5 + 0j),
        ('object-decimal-integral', decimal.Decimal('5')), ('object-decimal-fraction', decimal.Decimal('5.5')),
        ('object-decimal-nan', decimal.Decimal('NaN')), ('object-fraction', fractions.Fraction(7, 2)),
        ('object-subclass', _Int(5)), ('object-int-enum', _Num.five), ('object-400-digits', 10 ** 400),
        ('object-negative-400-digits', -10 ** 400),
    ],
    'float': [
        ('text-nan', 'nan'), ('text-nan-mixed-case', 'NaN'), ('text-negative-nan', '-nan'), ('text-inf', 'inf'),
        ('text-negative-inf', '-inf'), ('text-infinity', 'Infinity'), ('text-underscore', '1_0.0'),
        ('text-decimal-comma', '1,5'), ('text-thousands-comma', '1,000.5'), ('text-exponent', '1e3'),
        ('text-exponent-upper', '1E3'), ('text-exponent-signed', '1.5e+3'), ('text-d-exponent', '1d3'),
        ('text-huge-exponent', '1e400'), ('text-tiny-exponent', '1e-400'), ('text-leading-point', '.5'),
        ('text-trailing-point', '5.'), ('text-plus-sign', '+1.5'), ('text-minus-zero', '-0.0'),
        ('text-double-point', '1.5.2'), ('text-hex-float', '0x1.8p1'), ('text-hex-int', '0x10'),
        ('text-arabic-indic-digits', '٣.٥'), ('text-fullwidth-digits', '１.５'),
        ('text-vulgar-fraction', '½'), ('text-fraction', '1/2'), ('text-percent', '50%'),
        ('text-with-unit', '1.5 mV'), ('text-long-digits', '0.1000000000000000055511151231257827'),
        ('text-17-digits', '0.30000000000000004'), ('text-complex', '1.5+0j'), ('text-true', 'true'),
        ('text-f-suffix', '1.5f'),
        ('object-bool-true', True), ('object-int', 3), ('object-400-digit-int', 10 ** 400), ('object-complex', 1.5 + 0j),
        ('object-decimal', decimal.Decimal('1.5')), ('object-decimal-nan', decimal.Decimal('NaN')),
        ('object-decimal-many-digits', decimal.Decimal('0.1000000000000000055511151231257827')),
        ('object-fraction', fractions.Fraction(1, 2)), ('object-subclass', _Float(1.5)), ('object-int-subclass', _Int(3)),
        ('object-nan', float('nan')), ('object-inf', float('inf')), ('object-negative-inf', float('-inf')),
        ('object-minus-zero', -0.0), ('object-denormal', 5e-324), ('object-max', 1.7976931348623157e308),
    ],
    'boolean': [
        ('text-T', 'T'), ('text-F', 'F'), ('text-yes', 'yes'), ('text-no', 'no'), ('text-y', 'y'), ('text-n', 'n'),
        ('text-on', 'on'), ('text-off', 'off'), ('text-leading-blank-true', ' true'), ('text-trailing-blank-true', 'true '),
        ('text-TRUE', 'TRUE'), ('text-True', 'True'), ('text-mixed-case-true', 'tRuE'), ('text-FALSE', 'FALSE'),
        ('text-1', '1'), ('text-0', '0'), ('text-2', '2'), ('text-minus-1', '-1'), ('text-01', '01'), ('text-00', '00'),
        ('text-1.0', '1.0'), ('text-0.0', '0.0'), ('text-truee', 'truee'), ('text-tru', 'tru'), ('text-null', 'null'),
        ('text-none', 'None'), ('text-fullwidth-true', 'ｔｒｕｅ'), ('text-fullwidth-1', '１'),
        ('text-arabic-indic-1', '١'), ('text-not-true', 'not true'), ('text-true-false', 'true false'),
        ('text-wahr', 'wahr'), ('text-check-mark', '✓'),
        ('object-int-2', 2), ('object-int-minus-1', -1), ('object-int-0', 0), ('object-int-1', 1),
        ('object-float-0.0', 0.0), ('object-float-1.0', 1.0), ('object-float-0.5', 0.5), ('object-float-nan', float('nan')),
        ('object-decimal-1', decimal.Decimal(1)), ('object-decimal-0', decimal.Decimal(0)),
        ('object-fraction-1', fractions.Fraction(1, 1)), ('object-complex-1', 1 + 0j), ('object-complex-0', 0j),
        ('object-int-enum-1', _Num.one), ('object-int-subclass-1', _Int(1)), ('object-int-subclass-0', _Int(0)),
        ('object-float-subclass-1', _Float(1.0)),
    ],
    'string': [
        ('text-blank-padded', ' padded '), ('text-only-newline', '\n'), ('text-nul', 'a\x00b'), ('text-tab', 'a\tb'),
        ('text-carriage-return', 'a\rb'), ('text-combining', 'é'), ('text-ligature', 'ﬁ'),
        ('text-lone-surrogate', 'a\ud800'), ('text-astral', '\U0001F600'), ('text-long', 'x' * 5000),
        ('text-looks-like-list', '[a, b]'), ('text-looks-like-list-of-one', '[a]'), ('text-looks-like-tuple', '(a;b)'),
        ('text-open-bracket', '[a'), ('text-close-bracket', 'a]'), ('text-only-brackets', '[]'),
        ('text-nested-brackets', '[[a]]'), ('text-bracketed-empty-items', '[,]'), ('text-bracketed-blank', '[ ]'),
        ('text-None', 'None'), ('text-looks-like-dict', "{'a': 1}"),
        ('object-int', 5), ('object-int-0', 0), ('object-float', 1.5), ('object-float-0.0', 0.0),
        ('object-bool-false', False), ('object-bool-true', True), ('object-date', dt.date(2021, 3, 4)),
        ('object-datetime-microseconds', dt.datetime(2021, 3, 4, 5, 6, 7, 8)), ('object-bytes', b'abc'),
        ('object-str-subclass', _Str('abc')), ('object-str-subclass-multiline', _Str('ab\ncd')),
        ('object-str-subclass-empty', _Str('')), ('object-dtype-member', odml.DType.int),
        ('object-int-enum', _Num.five), ('object-decimal', decimal.Decimal('1.5')), ('object-complex', 1j),
        ('object-frozenset', frozenset(['a'])), ('object-type', int), ('object-ellipsis', Ellipsis),
        ('object-not-implemented', NotImplemented),
    ],
    '2-tuple': [
        ('text-arity-3', '(1;2;3)'), ('text-arity-1', '(1)'), ('text-inner-blanks', '( 1 ; 2 )'),
        ('text-outer-blanks', ' (1;2) '), ('text-inner-newline', '(1;\n2)'), ('text-nested-brackets', '((1;2);3)'),
        ('text-double-brackets', '((1;2))'), ('text-nested-second', '(1;(2))'), ('text-nested-pair', '((1;2);(3;4))'),
        ('text-empty-elements', '(;)'), ('text-empty-second', '(1;)'), ('text-empty-first', '(;2)'),
        ('text-blank-elements', '( ; )'), ('text-empty-parens', '()'), ('text-comma-separator', '(1,2)'),
        ('text-no-brackets', '1;2'), ('text-unclosed', '(1;2'), ('text-unopened', '1;2)'), ('text-square-brackets', '[1;2]'),
        ('text-curly-brackets', '{1;2}'), ('text-list-of-one', '[(1;2)]'), ('text-list-of-two', '[(1;2), (3;4)]'),
        ('text-list-mixed-arity', '[(1;2), (3;4;5)]'), ('text-list-without-blank', '[(1;2),(3;4)]'),
        ('text-trailing-semicolon', '(1;2;)'), ('text-leading-semicolon', '(;1;2)'), ('text-fullwidth-semicolon', '(1；2)'),
        ('text-fullwidth-brackets', '（1;2）'), ('text-two-tuples-adjacent', '(1;2)(3;4)'),
        ('text-two-tuples-blank', '(1;2) (3;4)'), ('text-reversed-brackets', ')1;2('), ('text-comma-inside-element', '(1,5;2)'),
        ('text-semicolon-only', ';'), ('text-brackets-inside-element', '(a(b);c)'),
        ('object-tuple-of-str', ('1', '2')), ('object-list-of-str', ['1', '2']), ('object-nested-list', [['1', '2']]),
        ('object-nested-tuple', [('1', '2')]), ('object-nested-ints', [[1, 2]]), ('object-nested-floats', [[1.5, 2.0]]),
        ('object-nested-arity-3', [['1', '2', '3']]), ('object-nested-arity-1', [['1']]), ('object-nested-empty', [[]]),
        ('object-nested-mixed-types', [['1', 2]]), ('object-nested-none', [[None, '1']]),
        ('object-nested-empty-str', [['', '']]), ('object-nested-blank-padded', [[' 1 ', '2']]),
        ('object-nested-semicolon-in-element', [['a;b', 'c']]), ('object-nested-brackets-in-element', [['(1', '2)']]),
        ('object-nested-newline-in-element', [['1\n', '2']]), ('object-nested-bool', [[True, False]]),
        ('object-nested-str-subclass', [[_Str('1'), _Str('2')]]), ('object-nested-two', [['1', '2'], ['3', '4']]),
        ('object-nested-two-mixed-arity', [['1', '2'], ['3']]), ('object-nested-then-text', [['1', '2'], '(3;4)']),
        ('object-triple-nested', [[['1', '2']]]), ('object-int', 12), ('object-dict', {'1': '2'}),
        ('object-str-subclass', _Str('(1;2)')), ('object-bytes', b'(1;2)'),
    ],
}
NEAR['text'] = NEAR['url'] = NEAR['person'] = NEAR['string']
NEAR['3-tuple'] = [(l, v) for l, v in NEAR['2-tuple']] + [
    ('text-arity-3-inner-blanks', '( a ; b ; c )'), ('text-arity-4', '(a;b;c;d)'), ('text-arity-3-empty', '(;;)'),
    ('object-nested-arity-3-ints', [[1, 2, 3]]), ('object-nested-arity-3-semicolon', [['a;b', 'c', 'd']])]

NM_DTYPES = list(CANON) + ['2-tuple', '3-tuple']


def near_pool(dtype, quick=False):
    """[(feature label, value)] for a Property of the dtype: its own near misses and the disguises of its valid
    texts (quick: of the first valid text only).  The label is '<pool>:<what>' and is the stable class of the input."""
    pool = 'string' if dtype in STR_TYPES else 'n-tuple' if dtype.endswith('-tuple') else dtype
    out = [('%s:%s' % (pool, l), v) for l, v in NEAR[dtype]]
    for i, t in enumerate(NATIVE_TEXT[dtype][:1] if quick else NATIVE_TEXT[dtype]):
        for l, f in TEXT_DISGUISES:
            v = f(t)
            if type(v) is str and v == t:
                continue
            if i and type(v) is not str:
                continue
            out.append(('%s:valid-text-%s' % (pool, l), v))
    return out


def _ident(v):
    return (type(v).__name__, repr(v))


def nm_source(stype, x, first=None):
    """A Property of dtype stype (None: inferred) that holds x (after `first`); None when it cannot be built
    or is not a conforming Property (then it is not a start state)."""
    vals = [copy.deepcopy(x)] if first is None else [first, copy.deepcopy(x)]
    st, src = _try(odml.Property, name='p', dtype=stype, values=vals)
    if st == 'exc' or inv_values(src) or len(src._values) != len(vals):
        return None
    return src


def nm_cases(D, x, scope):
    """All ways a value x reaches a Property of dtype D ('none': no dtype yet).
    scope 'full': every combination below; 'quick': a subset that still has every entry point, both strict
    settings and every argument form; 'core': one case per entry point.
    Yields (entry, strict, form, text, build, act, items): build() -> pre-state tuple (None: constructor),
    act(*pre-state); items = number of items of a list-like argument (None: not list-like)."""
    cp = copy.deepcopy
    d = DTYPE[D]
    nat = NATIVE[D][0] if D != 'none' else None
    # (label, builder, witness pattern, number of list items)
    forms = [('single', lambda: cp(x), '%r', None), ('list', lambda: [cp(x)], '[%r]', 1)]
    if D == 'none':
        forms.append(('twice', lambda: [cp(x), cp(x)], '[%r, %r]', 2))
    else:
        forms.append(('after-native', lambda: [nat, cp(x)], '[' + repr(nat) + ', %r]', 2))
        forms.append(('before-native', lambda: [cp(x), nat], '[%r, ' + repr(nat) + ']', 2))
        forms.append(('generator-after-native', lambda: (v for v in [nat, cp(x)]),
                      '(v for v in [' + repr(nat) + ', %r])', 2))
        forms.append(('tuple-after-native', lambda: (nat, cp(x)), '(' + repr(nat) + ', %r)', 2))
        ntext = NATIVE_TEXT.get(D, [','])[0]
        if type(x) is str and ',' not in ntext and not set(x) & set('[],'):
            forms.append(('bracketed-text-after-native', lambda: '[%s, %s]' % (ntext, x),
                          repr('[%s, ' % ntext) + ' + %r + "]"', None))
    short = forms[:2]
    second = 'twice' if D == 'none' else 'after-native'
    sizes = (0, 1, 2) if D != 'none' else (0,)
    core_n = 1 if D != 'none' else 0

    def start(n):
        return lambda: (build_start_raw((D, n)),)

    def stext(n):
        return 'p = odml.Property(name="p", dtype=%r, values=%r)' % (d, (NATIVE[D][:n] if n else None))

    def fmt(pattern):
        return pattern.replace('%r', repr(x)[:120].replace('%', '%%')) % ()

    def want(entry, n=None, form=None, strict=None, idx=None, first_source=True, member=False):
        if scope == 'full':
            return True
        if scope == 'core':
            if entry == 'constructor':
                return form == 'single' and not member
            if entry in ('values=', 'extend'):
                return n == core_n and form == second and strict in (None, False)
            if entry == 'setitem':
                return n == 1 and idx == 0 and form == 'single'
            if entry == 'append':
                return n == core_n and form == 'single'
            if entry == 'insert':
                return n == core_n and form == 'single' and idx == 0 and strict is False
            if entry in ('dtype=', 'merge'):
                return first_source and n in (None, 1) and strict in (None, False) and not member
            return False
        # quick
        if entry == 'constructor':
            return not member or form == 'single'
        if entry in ('constructor(value=)', 'value='):
            return form == 'single' and n in (None, core_n)
        if entry == 'values=':
            return n in (0, 1)
        if entry in ('setitem', 'setitem-at-end'):
            return (n == 1 and (idx == 0 or form == 'single')) or (n == 2 and idx == 1 and form == 'single')
        if entry == 'append':
            return (n in (0, 1) and form == 'single') or (n == 1 and strict is False)
        if entry == 'insert':
            return n == core_n and form == 'single'
        if entry == 'extend':
            return n == core_n or (n == 0 and form in ('single', second) and strict is False)
        if entry == 'dtype=':
            return not member or first_source
        if entry == 'remove':
            return n == 2
        if entry == 'merge':
            return n == 1 or (n == 0 and first_source and strict is False)
        if entry == 'extend-property':
            return n == 1
        return False

    # constructor (dtype as name, as DType member, deprecated value= keyword)
    spellings = [('', d)]
    if D in CANON:
        spellings.append(('DType.', getattr(odml.DType, D)))
    for fl, fb, ft, k in forms:
        for sl, sd in spellings:
            if sl and fl not in ('single', second) or not want('constructor', form=fl, member=bool(sl)):
                continue
            yield ('constructor', None, fl, 'odml.Property(name="p", dtype=%r, values=%s)' % (sd, fmt(ft)), None,
                   (lambda fb=fb, sd=sd: odml.Property(name='p', dtype=sd, values=fb())), k)
    for fl, fb, ft, k in short:
        if want('constructor(value=)', form=fl):
            yield ('constructor(value=)', None, fl, 'odml.Property(name="p", dtype=%r, value=%s)' % (d, fmt(ft)), None,
                   (lambda fb=fb: odml.Property(name='p', dtype=d, value=fb())), k)
    for n in sizes:
        for fl, fb, ft, k in forms:
            if want('values=', n=n, form=fl):
                yield ('values=', None, fl, '%s; p.values = %s' % (stext(n), fmt(ft)), start(n),
                       (lambda p, fb=fb: setattr(p, 'values', fb())), k)
        for fl, fb, ft, k in short:
            if want('value=', n=n, form=fl):
                yield ('value=', None, fl, '%s; p.value = %s' % (stext(n), fmt(ft)), start(n),
                       (lambda p, fb=fb: setattr(p, 'value', fb())), k)
    for n in sizes:
        for idx in (0, 1):
            if n == 0:
                continue
            for fl, fb, ft, k in short:
                entry = 'setitem' if idx < n else 'setitem-at-end'
                if want(entry, n=n, form=fl, idx=idx):
                    yield (entry, None, fl, '%s; p[%d] = %s' % (stext(n), idx, fmt(ft)), start(n),
                           (lambda p, fb=fb, idx=idx: p.__setitem__(idx, fb())), None)
    for n in sizes:
        for strict in (True, False):
            for fl, fb, ft, k in short:
                if want('append', n=n, form=fl, strict=strict):
                    yield ('append', strict, fl, '%s; p.append(%s, strict=%s)' % (stext(n), fmt(ft), strict), start(n),
                           (lambda p, fb=fb, strict=strict: p.append(fb(), strict=strict)), k)
                for idx in (0, 5):
                    if want('insert', n=n, form=fl, strict=strict, idx=idx):
                        yield ('insert', strict, fl,
                               '%s; p.insert(%d, %s, strict=%s)' % (stext(n), idx, fmt(ft), strict), start(n),
                               (lambda p, fb=fb, strict=strict, idx=idx: p.insert(idx, fb(), strict=strict)), k)
            for fl, fb, ft, k in forms:
                if want('extend', n=n, form=fl, strict=strict):
                    yield ('extend', strict, fl, '%s; p.extend(%s, strict=%s)' % (stext(n), fmt(ft), strict), start(n),
                           (lambda p, fb=fb, strict=strict: p.extend(fb(), strict=strict)), k)
    for n in sizes:
        if n and want('remove', n=n):
            yield ('remove', None, 'single', '%s; p.remove(%s)' % (stext(n), fmt('%r')), start(n),
                   (lambda p: p.remove(cp(x))), None)
    if D == 'none':
        return
    # a Property of another dtype that holds x: re-typed to D, merged into / appended to a D Property
    sources = []
    for stype in ('string', None, 'text'):
        if stype is not None and not isinstance(x, str):
            continue
        sources.append((stype, None))
        if stype == 'string' and D in NATIVE_TEXT and '\n' not in NATIVE_TEXT[D][0]:
            sources.append((stype, NATIVE_TEXT[D][0]))
    first_source = True
    for stype, first in sources:
        if scope == 'core' and not first_source:
            break
        if nm_source(stype, x, first) is None:
            continue
        stxt = 's = odml.Property(name="p", dtype=%r, values=%r)' % (stype, ([first] if first else []) + [x])
        fl = 'property-%s%s' % (stype or 'inferred', '-after-native' if first else '')
        for sl, sd in spellings:
            if want('dtype=', first_source=first_source, member=bool(sl)):
                yield ('dtype=', None, fl + ('-DType-member' if sl else ''), '%s; s.dtype = %r' % (stxt, sd),
                       (lambda stype=stype, first=first: (nm_source(stype, x, first),)),
                       (lambda s, sd=sd: setattr(s, 'dtype', sd)), None)
        for n in sizes:
            for strict in (True, False):
                if want('merge', n=n, strict=strict, first_source=first_source):
                    yield ('merge', strict, fl, '%s; %s; p.merge(s, strict=%s)' % (stext(n), stxt, strict),
                           (lambda stype=stype, first=first, n=n: (build_start_raw((D, n)), nm_source(stype, x, first))),
                           (lambda p, s, strict=strict: p.merge(s, strict=strict)), None)
            if want('extend-property', n=n, first_source=first_source):
                yield ('extend-property', None, fl, '%s; %s; p.extend(s)' % (stext(n), stxt),
                       (lambda stype=stype, first=first, n=n: (build_start_raw((D, n)), nm_source(stype, x, first))),
                       (lambda p, s: p.extend(s)), None)
        first_source = False


VALUE_ENTRIES = ('constructor', 'constructor(value=)', 'values=', 'value=', 'setitem', 'append', 'insert', 'extend',
                 'merge', 'extend-property', 'dtype=')
ADDING = ('append', 'insert', 'extend')


def plain_item(x):
    """x is one non-empty item: a text with visible content or a scalar object (for containers and empty
    input the statement does not say how many values they stand for)."""
    if isinstance(x, str):
        return bool(x.strip())
    return x is not None and not isinstance(x, (list, tuple, dict, set, frozenset, bytes, bytearray))


def dropped_items(x, items, stored_before, stored_after, adding):
    """Statement: input that cannot be converted is refused with ValueError. A list-like argument of k plain
    items that is accepted while fewer than k values arrive was neither converted nor refused."""
    if items is None or not plain_item(x):
        return None
    arrived = stored_after - stored_before if adding else stored_after
    if arrived < items:
        return '%d items given, %d values stored, no ValueError' % (items, arrived)
    return None


def clone_problems(p):
    """The clone of a conforming Property in normal form holds the same values under the same dtype."""
    st, q = _try(p.clone)
    if st == 'exc':
        return [('clone-equal-values', 'clone() raised %s: %s on %r' % (type(q).__name__, str(q)[:60], vsnap(p)))]
    out = inv_values(q)
    if not out and vsnap(q) != vsnap(p):
        out.append(('clone-equal-values', 'clone has %r, original %r' % (vsnap(q), vsnap(p))))
    return out


def nm_evaluate(D, x, case):
    """Contract check of one near-miss case. Returns (violations, outcome)."""
    entry, strict, form, text, build, act, items = case
    vio = []
    if build is None:
        st, p = _try(act)
        if st == 'exc':
            if not isinstance(p, ValueError):
                vio.append(('refusal-is-ValueError', 'constructor raised %s: %s' % (type(p).__name__, str(p)[:80])))
            return vio, st
        vio = inv_values(p)
        if not vio:
            dr = dropped_items(x, items, 0, len(p._values), False)
            if dr:
                vio.append(('every-input-item-stored-or-refused', dr + '; stored %r' % (p._values,)))
            nf = check_normal_form_raw(p)
            vio += nf
            if not nf:
                vio += clone_problems(p)
        return vio, st
    pre_state = build()
    p = pre_state[0]
    assert not inv_values(p), (D, text)
    pre, pre_len, pre_full = vsnap(p), len(p._values), h.snap(p)
    src_pre = vsnap(pre_state[1]) if len(pre_state) > 1 else None
    st, exc = _try(act, *pre_state)
    problems = inv_values(p)
    vio += problems
    if len(pre_state) > 1:
        sp = inv_values(pre_state[1])
        if sp:
            vio += [(c, 'source Property after the operation: ' + t) for c, t in sp]
        elif st == 'exc' and vsnap(pre_state[1]) != src_pre:
            vio.append(('unchanged-on-raise', 'raised %s but the source Property went from %r to %r'
                        % (type(exc).__name__, src_pre, vsnap(pre_state[1]))))
    if st == 'exc':
        if vsnap(p) != pre:
            vio.append(('unchanged-on-raise', 'raised %s: %s but (values, dtype) went from %r to %r'
                        % (type(exc).__name__, str(exc)[:60], pre, vsnap(p))))
        elif h.snap(p) != pre_full:
            vio.append(('unchanged-on-raise', 'raised %s but the property changed: %s'
                        % (type(exc).__name__, h.diff(pre_full, h.snap(p)))))
        # silent about indexes: p[len(p)] = x ('setitem-at-end') may be refused as an index
        if not isinstance(exc, ValueError) and entry in VALUE_ENTRIES:
            vio.append(('refusal-is-ValueError', 'raised %s: %s' % (type(exc).__name__, str(exc)[:80])))
    if entry == 'dtype=' and not problems:
        now = vsnap(p)
        # no value may get lost; one text that lists several tuples ('[(1;2), (3;4)]') may become several values
        converted = canon_dtype(p._dtype) is not None and canon_dtype(p._dtype) == canon_dtype(DTYPE[D]) \
            and len(p._values) >= pre_len
        if now != pre and not converted:
            vio.append(('dtype-change-all-or-nothing', 'dtype=%r on %r gave %r' % (DTYPE[D], pre, now)))
    if not problems:
        if st == 'ret' and entry in ('values=', 'value=') + ADDING:
            dr = dropped_items(x, items, pre_len, len(p._values), entry in ADDING and pre_len > 0)
            if dr:
                vio.append(('every-input-item-stored-or-refused', dr + '; values went from %r to %r'
                            % (pre[0], vsnap(p)[0])))
        nf = check_normal_form_raw(p)
        vio += nf
        if st == 'ret' and not nf and vsnap(p) != pre:
            vio += clone_problems(p)
    return vio, st


def near_miss_phase(col, agg, name, tier, seed):
    """Phase (3) of run_values. Returns the number of (dtype, value) pairs."""
    quick = tier == 'quick'
    pairs = 0
    own = dict((D, near_pool(D, quick)) for D in NM_DTYPES)
    for D in NM_DTYPES + ['none']:
        todo = [(label, v, 'quick' if quick else 'full') for label, v in own[D]] if D != 'none' else []
        seen = set(_ident(v) for _, v, _ in todo)
        # the pools of the other dtypes, each value once: in the quick tier the near misses proper (not the
        # disguises) with one case per entry point, in the thorough tier everything with the quick scope
        for E in NM_DTYPES:
            if E == D or (E in STR_TYPES and E != 'string') or (E == '3-tuple' and D != 'none'):
                continue
            for label, v in own[E]:
                if quick and ':valid-text-' in label and D != 'none':
                    continue
                if _ident(v) in seen:
                    continue
                seen.add(_ident(v))
                todo.append((label, v, 'core' if quick else 'quick'))
        for label, x, scope in todo:
            pairs += 1
            with h.quiet():
                results = [(case[:4], nm_evaluate(D, x, case)) for case in nm_cases(D, x, scope)]
            for (entry, strict, form, text), (vio, outcome) in results:
                col.case(cls_key=('near-miss', entry, strict, form, D, label, outcome),
                         sample=text if col.evaluations % 997 == 0 else None)
                if not vio:
                    continue
                clauses = [c for c, _ in vio]
                clause = [pr for pr in PRIORITY if pr in clauses][0] if set(PRIORITY) & set(clauses) else clauses[0]
                detail = [t for c, t in vio if c == clause][0]
                cls = {'clause': clause, 'entry': entry, 'dtype': family(D), 'feature': label, 'form': form}
                if strict is not None:
                    cls['strict'] = str(strict)
                if clause == 'refusal-is-ValueError':
                    m = re.search(r'raised (\w+)', detail)
                    cls['exception'] = m.group(1) if m else '?'
                agg.add('%s/%s' % (name, clause), cls, {'python': text}, 'observed: %s' % detail, len(text))
    return pairs


def run_near_miss(tier='quick', seed=0):
    """Phase (3) of run_values on its own (for targeted runs; run_values includes it)."""
    name = 'C05.values'
    col = h.Collector(name, rule='near-miss phase of run_values only', exhaustive=True)
    agg = Agg()
    pairs = near_miss_phase(col, agg, name, tier, seed)
    agg.flush(col)
    res = col.result()
    res['failure_classes'] = len(agg.d)
    res['pairs'] = pairs
    return res


def _ctor_cases():
    for (dl, d), (vl, _) in itertools.product(DTYPES, VALUES):
        yield dl, d, vl


def run_values(tier='quick', seed=0, max_evaluations=None):
    quick = tier == 'quick'
    depth = 2 if quick else 3
    if max_evaluations is None:
        max_evaluations = 120000 if quick else 1500000
    name = 'C05.values'
    col = h.Collector(
        name,
        rule='(1) constructor: all %d dtype arguments x %d value arguments; (2) histories: every one of the %d '
             'value operations (values=, dtype=, append/extend/insert with strict on/off, item assignment, '
             'remove, merge, extend(Property), clone; arguments from the same pools) applied to every distinct '
             'conforming state (dtype, typed values) reachable by fewer than %d operations from the %d start '
             'properties (each canonical dtype and 2-/3-tuple with 0, 1, 2 native values; dtype None empty); '
             'states reached at the last level are taken one per (dtype, number of values, operation kind that '
             'produced it) when the evaluation budget would be exceeded; one evaluation = one contract check on a '
             'property rebuilt from scratch; distinct = (operation kind, state dtype/size, argument class, outcome); '
             '(3) near misses: for each of the %d dtypes (and no dtype) its pool of near-miss texts and hostile objects '
             '(%d labelled values in all: fractional seconds, T separator, time zone, out-of-range and single-digit fields, '
             'foreign digits, exponent / hex / underscore / sign / comma forms, nan / inf, boolean spellings, tuple arity / '
             'blanks / nesting / empty elements, sub-second and tz-aware objects, subclass instances, Decimal / Fraction / '
             'complex, neighbouring temporal type) plus %d disguises of each valid text (blanks, case, quotes, foreign '
             'digits, str subclass, bytes), and the pools of the other dtypes (quick: near misses only; thorough: all), '
             'each driven through every entry point that stores values: constructor (dtype name / DType member / value= '
             'keyword), values=, value=, p[i]=, append / insert / extend with strict on and off on 0, 1, 2 native values, '
             'dtype= on a string / text / inferred-dtype Property holding the value, merge (strict on/off) and extend of '
             'such a Property; argument forms: alone, [x], after / before a native value, generator, tuple, bracketed text; '
             'distinct = (entry point, strict, form, dtype, value label, outcome)'
             % (len(DTYPES), len(VALUES), len(VOPS), depth, len(STARTS), len(NM_DTYPES),
                sum(len(NEAR[d]) for d in ('datetime', 'date', 'time', 'int', 'float', 'boolean', 'string', '3-tuple')),
                len(TEXT_DISGUISES)),
        exhaustive=True)
    agg = Agg()

    def report(vio, cls_extra, witness, size):
        if not vio:
            return
        clauses = [c for c, _ in vio]
        for pr in PRIORITY:
            if pr in clauses:
                clause = pr
                break
        else:
            clause = clauses[0]
        detail = [d for c, d in vio if c == clause][0]
        base = cls_extra['op'].split('(')[0]
        cls = {'clause': clause, 'op': base}
        dlabel = cls_extra['dtype'].replace('DType.', '')
        if clause == 'dtype-valid':
            if base == 'constructor':
                cls['feature'] = 'dtype-argument:' + dlabel
            elif base == 'dtype=':
                cls['feature'] = 'dtype-argument:' + cls_extra['value'].replace('DType.', '')
            else:
                cls['feature'] = 'state-dtype:%s value:%s' % (family(dlabel), value_type(cls_extra['value']))
        else:
            if 'strict=' in cls_extra['op']:
                cls['strict'] = cls_extra['op'].split('strict=')[1].rstrip(')')
            cls['dtype'] = family(dlabel)
            cls['value'] = value_type(cls_extra['value'])
            if clause == 'refusal-is-ValueError':
                m = re.search(r'raised (\w+)', detail)
                cls['exception'] = m.group(1) if m else '?'
        agg.add('%s/%s' % (name, clause), cls, witness, 'observed: %s' % detail, size)

    # (1) constructor
    for dl, d, vl in _ctor_cases():
        st, p = h.call(odml.Property, name='p', dtype=d, values=fresh(vl))
        col.case(cls_key=('ctor', dl, vl, st), sample='Property(dtype=%r, values=%r)' % (d, VALUE[vl]))
        vio = []
        if st == 'exc':
            if not isinstance(p, ValueError):
                vio.append(('refusal-is-ValueError', 'constructor raised %s: %s' % (type(p).__name__, str(p)[:80])))
        else:
            vio = inv_values(p)
            if not vio:
                vio = check_normal_form(p)
        report(vio, {'op': 'constructor', 'dtype': dl, 'value': vl},
               {'call': 'odml.Property(name="p", dtype=%r, values=%r)' % (d, VALUE[vl])}, 0)

    # (2) histories
    seen = {}
    frontier = []
    for st in STARTS:
        p = build_start(st)
        assert not inv_values(p), (st, p._values, p._dtype)
        key = vsnap(p)
        if key not in seen:
            seen[key] = (st, ())
            frontier.append((st, ()))
    for level in range(depth):
        nxt = []
        remaining_budget = max_evaluations - col.evaluations
        if len(frontier) * len(VOPS) > remaining_budget:
            # one representative per (dtype, size, producing operation kind), deterministic
            reps = {}
            for st, hist in frontier:
                p = replay_v(st, hist)
                k = (state_label(p), op_kind(hist[-1]) if hist else '')
                reps.setdefault(k, (st, hist))
            frontier = [reps[k] for k in sorted(reps, key=repr)]
            col.exhaustive = False
            if len(frontier) * len(VOPS) > remaining_budget:
                rnd = random.Random(seed + level)
                frontier = rnd.sample(frontier, max(1, remaining_budget // len(VOPS)))
        for st, hist in frontier:
            slabel = state_label(replay_v(st, hist))
            for op in VOPS:
                vio, key, outcome = evaluate_v(st, hist, op)
                col.case(cls_key=(op_kind(op), slabel, op_feature(op), outcome))
                if vio:
                    report(vio, {'op': op_kind(op), 'dtype': slabel.split('/')[0], 'value': op_feature(op)},
                           {'start': 'odml.Property(name="p", dtype=%r, values=%r)'
                                     % (DTYPE[st[0]], NATIVE[st[0]][:st[1]] if st[1] else None),
                            'ops': [repr(o) for o in hist + (op,)]}, len(hist) + 1)
                if key is not None and key not in seen and level + 1 < depth:
                    seen[key] = (st, hist + (op,))
                    nxt.append((st, hist + (op,)))
        frontier = nxt

    # (3) near misses and hostile objects through every entry point
    pairs = near_miss_phase(col, agg, name, tier, seed)
    agg.flush(col)
    res = col.result()
    res['failure_classes'] = len(agg.d)
    res['states'] = len(seen)
    res['near_miss_pairs'] = pairs
    return res


# =============================================================================================
# C09 cardinalities
# =============================================================================================

KINDS = {
    # kind: (attribute, set-method, validation id, children attribute)
    'values': ('val_cardinality', 'set_values_cardinality', 502),
    'sections': ('sec_cardinality', 'set_sections_cardinality', 501),
    'properties': ('prop_cardinality', 'set_properties_cardinality', 500),
}
GRID = (None, -1, 0, 1, 2, 3, 4)


def card_settings():
    """(label, value) of every setting of the C09 quantifier."""
    out = [('none', None)]
    for n in range(-1, 5):
        out.append((_item_cls(n, single=True), n))
    for a in GRID:
        for b in GRID:
            out.append(('pair:' + _pair_cls(a, b), (a, b)))
    for a, b in ((1, 3), (None, 2), (2, None), (2, 2), (3, 1), (-1, 2), (0, 0), (None, None)):
        out.append(('list:' + _pair_cls(a, b), [a, b]))
    out += [('str-empty', ''), ('str-digit', '1'), ('str-pair-text', '(1, 2)'), ('str-word', 'ab'),
            ('float-zero', 0.0), ('float-integral', 1.0), ('float', 2.5),
            ('tuple-len-0', ()), ('tuple-len-1', (1,)), ('tuple-len-3', (1, 2, 3)), ('list-len-0', []),
            ('list-len-3', [1, 2, 3]), ('pair-with-float-item', (1.0, 2)), ('pair-with-str-item', ('1', 2)),
            ('pair-with-float-max', (1, 2.0)), ('dict-empty', {}), ('dict', {1: 2})]
    return out


def _item_cls(n, single=False):
    if n is None:
        return 'None'
    pre = 'int-' if single else ''
    return pre + ('negative' if n < 0 else 'zero' if n == 0 else 'positive')


def _pair_cls(a, b):
    s = '%s,%s' % (_item_cls(a), _item_cls(b))
    if isinstance(a, int) and isinstance(b, int) and a > 0 and b > 0:
        s += ':min<max' if a < b else ':min==max' if a == b else ':min>max'
    return s


def _valid_item(x):
    return x is None or (type(x) is int and x >= 0)


def expectation(setting):
    """('store', acceptable-stored-values) | ('raise',) | ('either',) - from the statement only."""
    if setting is None:
        return ('store', [None])
    if type(setting) is tuple and len(setting) == 2 and all(_valid_item(x) for x in setting):
        a, b = setting
        if not a and not b:                       # only None / 0 items: the statement does not say
            return ('either',)
        if type(a) is int and type(b) is int and a > b:
            return ('raise',)
        alts = [(a, b)]
        if a in (0, None):
            alts = [(0, b), (None, b)]
        return ('store', alts)
    if type(setting) is tuple and len(setting) == 2:
        return ('raise',)                         # negative / non-int items
    if type(setting) is list and len(setting) == 2:
        return ('either',)                        # lists: accepted "without advertising it"
    if type(setting) is int:
        return ('raise',) if setting < 0 else ('either',)
    if not setting and setting is not False:
        return ('either',)                        # '', (), [], 0.0, {}: library resets, statement unclear
    return ('raise',)                             # strings, floats, wrong-length tuples, dicts


def normal_form_problem(c):
    if c is None:
        return None
    if type(c) is not tuple or len(c) != 2:
        return 'stored %r is not None or a 2-tuple' % (c,)
    for x in c:
        if x is not None and (type(x) is not int or x < 0):
            return 'stored %r has an item that is not None or a non-negative int' % (c,)
    if c[0] is None and c[1] is None:
        return 'stored (None, None): both empty'
    if c[0] is not None and c[1] is not None and c[0] > c[1]:
        return 'stored %r has min > max' % (c,)
    return None


def make_holder(kind, count):
    """Object carrying the cardinality with `count` children of the kind, inside a document."""
    with h.quiet():
        doc = odml.Document()
        sec = odml.Section(name='s', type='t', parent=doc)
        if kind == 'values':
            obj = odml.Property(name='p', dtype='int', values=list(range(count)) if count else None, parent=sec)
        else:
            obj = sec
            for i in range(count):
                if kind == 'sections':
                    odml.Section(name='c%d' % i, type='t', parent=sec)
                else:
                    odml.Property(name='c%d' % i, values=[i], parent=sec)
    return doc, obj


def child_count(kind, obj):
    if kind == 'values':
        return len(obj._values)
    return len(list(list.__iter__(obj._sections if kind == 'sections' else obj._props)))


def add_child(kind, obj, tag):
    with h.quiet():
        if kind == 'values':
            obj.append(1000 + tag)
        elif kind == 'sections':
            obj.append(odml.Section(name='n%d' % tag, type='t'))
        else:
            obj.append(odml.Property(name='n%d' % tag, values=[1]))


def remove_child(kind, obj):
    with h.quiet():
        if kind == 'values':
            obj.remove(obj.values[-1])
        elif kind == 'sections':
            obj.remove(obj.sections[-1])
        else:
            obj.remove(obj.properties[-1])


def warned(kind, doc, obj):
    """Is a cardinality warning of the kind reported for obj? (object level, document level)"""
    vid = KINDS[kind][2]
    res = []
    for target in (obj, doc):
        with h.quiet():
            val = odml.validation.Validation(target)
        res.append(any(getattr(e.validation_id, 'value', e.validation_id) == vid and e.obj is obj
                       and e.rank == 'warning' for e in val.errors))
    return tuple(res)


def outside(c, k):
    if c is None:
        return False
    lo, hi = c
    return (lo is not None and k < lo) or (hi is not None and k > hi)


def position(c, k):
    lo, hi = c
    shape = 'min-only' if hi is None else 'max-only' if lo is None else 'min==max' if lo == hi else 'min<max'
    if lo is not None and k < lo:
        rel = 'count<min'
    elif hi is not None and k > hi:
        rel = 'count>max'
    elif lo is not None and k == lo:
        rel = 'count==min'
    elif hi is not None and k == hi:
        rel = 'count==max'
    else:
        rel = 'inside'
    return '%s:%s' % (shape, rel)


def valid_cards():
    out = []
    for a in (None, 0, 1, 2, 3, 4):
        for b in (None, 1, 2, 3, 4):
            if a in (None, 0) and b is None:
                continue
            if a is not None and b is not None and a > b:
                continue
            out.append((a, b))
    return out


def same_card(x, y):
    def norm(c):
        if c is None:
            return None
        c = tuple(c)
        return (c[0] or None, c[1])
    return norm(x) == norm(y)


# --- (d) documents in which several objects carry different cardinalities --------------------------------
#
# A model of the document (plain dicts, built here, never read back from the library) says for every Section
# and Property which cardinalities it has and how many children it has.  The document is built from the model,
# saved and loaded, and the loaded objects are compared with the model object by object: each one must have
# exactly its own cardinalities (an unset one stays unset), and a warning must be reported for exactly the
# objects whose child count lies outside their own range.

CARD_CLASSES = ('unset', 'min-only', 'max-only', 'range', 'exact')
VID_KIND = {502: 'values', 501: 'sections', 500: 'properties'}
UNSET = ('unset', 'unset')


def class_card(cls, v):
    """A cardinality of the class; the variant v makes equal classes in one document differ in their numbers."""
    a = 1 + v % 3
    return {'unset': None, 'min-only': (a, None), 'max-only': (None, a), 'range': (a, a + 1), 'exact': (a, a)}[cls]


def card_class(c):
    if c is None:
        return 'unset'
    lo, hi = c[0] or None, c[1]
    return 'min-only' if hi is None else 'max-only' if lo is None else 'exact' if lo == hi else 'range'


def prop_model(name, n, cls, v):
    return {'name': name, 'n': n, 'values': class_card(cls, v)}


def sec_model(name, profile, v, props=(), subs=()):
    """profile = (class of sec_cardinality, class of prop_cardinality)"""
    return {'name': name, 'sections': class_card(profile[0], v), 'properties': class_card(profile[1], v + 1),
            'props': list(props), 'subs': list(subs)}


def wrap_levels(roots, level, profiles, rot):
    """Put the sibling group `level` Sections deep; every wrapper is followed by a Section without cardinalities
    and preceded by nothing, so a group member has ancestors, the ancestors have later siblings."""
    for d in range(level):
        w = sec_model('w%d' % d, profiles[(d + rot) % len(profiles)], rot + d + 1,
                      props=[prop_model('wp', (rot + d) % 3, CARD_CLASSES[(rot + d) % 5], rot)], subs=roots)
        z = sec_model('z%d' % d, UNSET, 0, props=[prop_model('zp%d' % j, j, 'unset', 0) for j in range(2)])
        roots = [w, z]
    return roots


def section_group(profiles, level, rot):
    """k sibling Sections with the given profiles in the given order.  Member i has (i + rot) % 3 sub-Sections
    (alternately with the profile of the next member and without cardinalities) and (i + rot + 1) % 4 Properties
    whose val_cardinality classes rotate."""
    k = len(profiles)
    group = []
    for i, prof in enumerate(profiles):
        subs = []
        for j in range((i + rot) % 3):
            leaf_props = [prop_model('lp', (i + j) % 3, CARD_CLASSES[(rot + i + j) % 5], rot + j)] if (i + j) % 2 else []
            subs.append(sec_model('g%dc%d' % (i, j), profiles[(i + 1) % k] if j % 2 == 0 else UNSET, rot + i + j + 2,
                                  props=leaf_props))
        props = [prop_model('p%d' % j, (i + j + rot) % 4, CARD_CLASSES[(rot + i + 2 * j) % 5], rot + i + j)
                 for j in range((i + rot + 1) % 4)]
        group.append(sec_model('g%d' % i, prof, rot + i, props, subs))
    return wrap_levels(group, level, profiles, rot)


def property_group(classes, level, rot):
    """k sibling Properties with the given val_cardinality classes in the given order inside one Section, which
    is followed by a Section whose Property has no cardinality."""
    props = [prop_model('p%d' % j, (j + rot) % 4, c, rot + j) for j, c in enumerate(classes)]
    prof = (CARD_CLASSES[rot % 5], CARD_CLASSES[(rot // 5) % 5])
    roots = [sec_model('s', prof, rot, props=props),
             sec_model('t', UNSET, 0, props=[prop_model('p0', 2, 'unset', 0)])]
    return wrap_levels(roots, level, [prof, UNSET], rot)


def build_model(roots):
    with h.quiet():
        doc = odml.Document()

        def mk(parent, s):
            sec = odml.Section(name=s['name'], type='t', parent=parent)
            for p in s['props']:
                prop = odml.Property(name=p['name'], dtype='int', values=list(range(p['n'])) if p['n'] else None,
                                     parent=sec)
                prop.val_cardinality = p['values']
            for c in s['subs']:
                mk(sec, c)
            sec.sec_cardinality = s['sections']
            sec.prop_cardinality = s['properties']
        for s in roots:
            mk(doc, s)
    return doc


def model_table(roots):
    """{(path, kind): (cardinality, child count)} and {path: (parent path, index among its siblings, 'S'|'P')}"""
    table, rel = {}, {}

    def rec(s, parent, idx):
        path = parent + '/' + s['name']
        rel[path] = (parent, idx, 'S')
        table[(path, 'sections')] = (s['sections'], len(s['subs']))
        table[(path, 'properties')] = (s['properties'], len(s['props']))
        for j, p in enumerate(s['props']):
            rel[path + ':' + p['name']] = (path, j, 'P')
            table[(path + ':' + p['name'], 'values')] = (p['values'], p['n'])
        for j, c in enumerate(s['subs']):
            rec(c, path, j)
    for i, s in enumerate(roots):
        rec(s, '', i)
    return table, rel


def lib_table(doc):
    """The same table read from a library document through its private fields, and {id(object): path}."""
    table, ids = {}, {}

    def rec(sec, parent):
        path = parent + '/' + str(sec._name)
        ids[id(sec)] = path
        subs = list(list.__iter__(sec._sections))
        props = list(list.__iter__(sec._props))
        table[(path, 'sections')] = (sec._sec_cardinality, len(subs))
        table[(path, 'properties')] = (sec._prop_cardinality, len(props))
        for p in props:
            ids[id(p)] = path + ':' + str(p._name)
            table[(path + ':' + str(p._name), 'values')] = (p._val_cardinality, len(p._values))
        for c in subs:
            rec(c, path)
    for s in list.__iter__(doc._sections):
        rec(s, '')
    return table, ids


def doc_warnings(doc, ids):
    """set of (path, kind) for which the document validation reports a cardinality warning | None"""
    st, val = h.call(odml.validation.Validation, doc)
    if st == 'exc':
        return None
    return set((ids.get(id(e.obj), '?'), VID_KIND[getattr(e.validation_id, 'value', e.validation_id)])
               for e in val.errors
               if getattr(e.validation_id, 'value', e.validation_id) in VID_KIND and e.rank == 'warning')


def card_source(table, rel, path, kind, got):
    """Where in the saved document the wrongly loaded cardinality occurs (relative to the object)."""
    if got is None:
        return 'nothing'
    parent, idx, typ = rel[path]
    found = set()
    for (p2, k2), (c2, _) in table.items():
        if c2 is None or not same_card(c2, got) or (p2, k2) == (path, kind):
            continue
        par2, idx2, typ2 = rel[p2]
        if p2 == path:
            found.add('same-object-other-kind')
        elif par2 == parent and typ2 == typ and k2 == kind:
            found.add('earlier-sibling' if idx2 < idx else 'later-sibling')
        elif par2 == parent and typ2 == typ:
            found.add('sibling-other-kind')
        elif path.startswith(p2 + '/') or path.startswith(p2 + ':'):
            found.add('ancestor')
        elif p2.startswith(path + '/') or p2.startswith(path + ':'):
            found.add('descendant')
        else:
            found.add('elsewhere')
    for s in ('earlier-sibling', 'later-sibling', 'ancestor', 'descendant', 'same-object-other-kind',
              'sibling-other-kind', 'elsewhere'):
        if s in found:
            return s
    return 'new-value'


def round_trip(doc, fmt, io, path):
    """('ok', loaded) | ('save'|'load', exception)"""
    from odml.tools.odmlparser import ODMLWriter, ODMLReader
    if io == 'file':
        st, r = h.call(odml.save, doc, path, fmt)
        if st == 'exc':
            return 'save', r
        st, back = h.call(odml.load, path, fmt)
    else:
        st, r = h.call(ODMLWriter(fmt).to_string, doc)
        if st == 'exc':
            return 'save', r
        st, back = h.call(ODMLReader(fmt, show_warnings=False).from_string, r)
    if st == 'exc':
        return 'load', back
    if not isinstance(back, h.BaseDocument):
        return 'load', TypeError('reader returned %s' % type(back).__name__)
    return 'ok', back


def multi_object_cases(tier):
    """(group kind, number of siblings, level, description, model roots): every order of cardinality classes
    over 2..4 siblings."""
    quick = tier == 'quick'
    profiles = [(a, b) for a in CARD_CLASSES for b in CARD_CLASSES]
    n = 0
    # two sibling Sections: every ordered pair of (sec class, prop class) profiles
    for pa in profiles:
        for pb in profiles:
            n += 1
            for level in ([n % 3] if quick else [0, 1, 2]):
                yield 'sections', 2, level, '%s|%s' % ('+'.join(pa), '+'.join(pb)), section_group([pa, pb], level, n)
    # three and four sibling Sections: per cardinality kind every sequence of classes, the other kind rotates
    for k in (3, 4):
        classes = CARD_CLASSES if not (quick and k == 4) else ('unset', 'min-only', 'range')
        for which in (0, 1):
            for seq in itertools.product(classes, repeat=k):
                n += 1
                other = [CARD_CLASSES[(2 * CARD_CLASSES.index(c) + i + n) % 5] for i, c in enumerate(seq)]
                profs = [(c, o) if which == 0 else (o, c) for c, o in zip(seq, other)]
                for level in ([n % 3] if quick or k == 4 else [0, 1, 2]):
                    yield ('sections', k, level, '%s:%s' % (('sec', 'prop')[which], '|'.join(seq)),
                           section_group(profs, level, n))
    # two to four sibling Properties: every sequence of val_cardinality classes
    for k in (2, 3, 4):
        classes = CARD_CLASSES if not (quick and k == 4) else ('unset', 'max-only', 'exact')
        for seq in itertools.product(classes, repeat=k):
            n += 1
            for level in ([n % 2] if quick or k == 4 else [0, 1]):
                yield 'properties', k, level, 'val:' + '|'.join(seq), property_group(seq, level, n)


def set_pattern(roots):
    """Which siblings of the top group have which kinds set: the diversity class of a multi-object case."""
    while roots and roots[0]['name'].startswith('w'):
        roots = roots[0]['subs']
    if roots and roots[0]['name'] == 's':
        return 'v:' + ''.join('U' if p['values'] is None else 'S' for p in roots[0]['props'])
    return '/'.join(('U' if s['sections'] is None else 'S') + ('U' if s['properties'] is None else 'S') for s in roots)


def run_cardinality(tier='quick', seed=0):
    name = 'C09.cardinality'
    settings = card_settings()
    col = h.Collector(
        name,
        rule='(a) assignment: all %d settings (None, ints -1..4, all pairs over {None,-1..4}, lists, strings, floats, '
             'wrong-length tuples, pairs with non-int items) x child counts 0..5 x 3 kinds x previous setting in '
             '{None,(1,3)} x route (attribute setter; set_*_cardinality(min,max) for pairs); (b) reports: every valid '
             '(min,max) over {None,0..4} x 3 kinds x every ordered pair of child counts (count when set -> count when '
             'validated) in 0..5, children added/removed one at a time after the cardinality was set, validated at '
             'object and at document level; (c) persistence: every valid (min,max) and None x 3 kinds x XML/JSON/YAML; '
             '(d) documents with several cardinalities: 2 sibling Sections with every ordered pair of (sec, prop) '
             'cardinality classes from {unset,(n,None),(None,n),(m,n),(n,n)}^2, 3 and 4 sibling Sections with every '
             'class sequence per kind (quick: 3 classes for 4 siblings), 2..4 sibling Properties with every sequence of '
             'val_cardinality classes, the group 0..2 Sections deep with sub-Sections, Properties and following '
             'Sections that carry other cardinalities, x XML/JSON/YAML x string/file (quick: XML and JSON string for '
             'every document, the other four routes in turn): every loaded object has exactly its own cardinalities '
             'and the loaded document warns for exactly the objects outside their range; '
             'distinct = (part, kind, route/format, setting class, count relation / set-unset pattern of the siblings, '
             'outcome)' % len(settings),
        exhaustive=True)
    agg = Agg()
    work = os.path.join(h.WORK, 'b_values_card_%d' % os.getpid())
    os.makedirs(work, exist_ok=True)

    def fail(clause, kind, feature, witness, detail, extra=None):
        cls = {'clause': clause, 'kind': kind, 'feature': feature}
        if extra:
            cls.update(extra)
        agg.add('%s/%s' % (name, clause), cls, witness, detail, 0)

    # (a) assignment ------------------------------------------------------------------------
    for kind, (attr, method, vid) in KINDS.items():
        for label, setting in settings:
            routes = ['setter']
            if type(setting) is tuple and len(setting) == 2:
                routes.append('method')
            for route in routes:
                for prev in (None, (1, 3)):
                    for count in range(6):
                        doc, obj = make_holder(kind, count)
                        with h.quiet():
                            setattr(obj, attr, prev)
                        before = getattr(obj, '_' + attr)
                        full_before = h.snap(doc)
                        arg = copy.deepcopy(setting)
                        if route == 'setter':
                            st, r = h.call(setattr, obj, attr, arg)
                            call = 'obj.%s = %r' % (attr, setting)
                        else:
                            st, r = h.call(getattr(obj, method), arg[0], arg[1])
                            call = 'obj.%s(%r, %r)' % (method, setting[0], setting[1])
                        after = getattr(obj, '_' + attr)
                        exp = expectation(setting)
                        col.case(cls_key=('assign', kind, route, label, prev is None, st),
                                 sample='%s with %d %s, previous %r' % (call, count, kind, prev))
                        wit = {'kind': kind, 'children': count, 'previous': repr(prev), 'call': call}
                        nf = normal_form_problem(after)
                        if nf:
                            fail('stored-normal-form', kind, label, wit, '%s; %s' % (nf, st), {'route': route})
                            continue
                        if st == 'exc':
                            if not isinstance(r, ValueError):
                                fail('refusal-is-ValueError', kind, label, wit,
                                     'raised %s: %s' % (type(r).__name__, r), {'route': route})
                            if h.snap(doc) != full_before:
                                fail('previous-setting-kept-on-raise', kind, label, wit,
                                     'raised %s but %s' % (type(r).__name__, h.diff(full_before, h.snap(doc))),
                                     {'route': route})
                            if exp[0] == 'store':
                                fail('valid-setting-accepted', kind, label, wit,
                                     'raised %s: %s; a valid (min, max) must be stored' % (type(r).__name__, r),
                                     {'route': route})
                        else:
                            if exp[0] == 'raise':
                                fail('invalid-setting-refused', kind, label, wit,
                                     'no exception, stored %r (previous %r); ValueError required' % (after, prev),
                                     {'route': route})
                            elif exp[0] == 'store' and not any(after == a for a in exp[1]):
                                fail('valid-setting-stored-as-given', kind, label, wit,
                                     'stored %r, expected one of %r' % (after, exp[1]), {'route': route})
                            if child_count(kind, obj) != count:
                                fail('children-untouched', kind, label, wit,
                                     'child count went from %d to %d' % (count, child_count(kind, obj)),
                                     {'route': route})

    # (b) reports and non-enforcement ----------------------------------------------------------
    for kind, (attr, method, vid) in KINDS.items():
        for card in valid_cards():
            for k0 in range(6):
                for k1 in range(6):
                    doc, obj = make_holder(kind, k0)
                    st, r = h.call(setattr, obj, attr, card)
                    stored = getattr(obj, '_' + attr)
                    if st == 'exc' or not same_card(stored, card):
                        col.case(cls_key=('report', kind, 'not-settable'))
                        continue            # already reported in (a)
                    steps = []
                    blocked = None
                    tag = 0
                    while child_count(kind, obj) != k1 and blocked is None:
                        n = child_count(kind, obj)
                        tag += 1
                        if n < k1:
                            st, r = h.call(add_child, kind, obj, tag)
                            steps.append('add')
                        else:
                            st, r = h.call(remove_child, kind, obj)
                            steps.append('remove')
                        if st == 'exc' or child_count(kind, obj) == n:
                            blocked = '%s of a child with %d children under cardinality %r: %s' \
                                      % (steps[-1], n, card, r if st == 'exc' else 'count unchanged')
                    col.case(cls_key=('report', kind, position(card, k1), 'moved' if k0 != k1 else 'static'),
                             sample='%s %r set at %d children, validated at %d' % (attr, card, k0, k1))
                    wit = {'kind': kind, 'cardinality': repr(card), 'children_when_set': k0,
                           'children_when_validated': k1}
                    if blocked:
                        fail('never-enforced', kind, position(card, child_count(kind, obj)), wit, blocked)
                        continue
                    if not same_card(getattr(obj, '_' + attr), card):
                        fail('cardinality-stable-under-child-edits', kind, position(card, k1), wit,
                             'cardinality became %r' % (getattr(obj, '_' + attr),))
                        continue
                    got = warned(kind, doc, obj)
                    want = outside(card, k1)
                    for level, g in zip(('object', 'document'), got):
                        if g != want:
                            fail('warning-iff-count-outside-range', kind, position(card, k1), wit,
                                 '%s-level validation %s a warning %d for %d children and cardinality %r'
                                 % (level, 'reports' if g else 'does not report', vid, k1, card),
                                 {'level': level, 'expected': 'warning' if want else 'no-warning'})

    # (c) persistence -------------------------------------------------------------------------
    for fmt in ('XML', 'JSON', 'YAML'):
        for kind, (attr, method, vid) in KINDS.items():
            for card in [None] + valid_cards():
                doc, obj = make_holder(kind, 1)
                st, r = h.call(setattr, obj, attr, card)
                stored = getattr(obj, '_' + attr)
                if st == 'exc' or not same_card(stored, card):
                    col.case(cls_key=('persist', kind, fmt, 'not-settable'))
                    continue
                path = os.path.join(work, 'card_%s_%s.%s' % (kind, fmt, fmt.lower()))
                label = 'none' if card is None else 'pair:' + _pair_cls(*card)
                col.case(cls_key=('persist', kind, fmt, label), sample='%s=%r via %s' % (attr, card, fmt))
                wit = {'kind': kind, 'cardinality': repr(card), 'format': fmt}
                st, r = h.call(odml.save, doc, path, fmt)
                if st == 'exc':
                    fail('survives-save-load', kind, label, wit, 'save raised %s: %s' % (type(r).__name__, r),
                         {'format': fmt})
                    continue
                st, back = h.call(odml.load, path, fmt)
                if st == 'exc':
                    fail('survives-save-load', kind, label, wit, 'load raised %s: %s' % (type(back).__name__, back),
                         {'format': fmt})
                    continue
                try:
                    sec2 = list(list.__iter__(back._sections))[0]
                    obj2 = sec2 if kind != 'values' else list(list.__iter__(sec2._props))[0]
                    got = getattr(obj2, '_' + attr)
                except Exception as exc:     # noqa
                    fail('survives-save-load', kind, label, wit, 'loaded document lacks the object: %s' % exc,
                         {'format': fmt})
                    continue
                if not same_card(got, stored):
                    fail('survives-save-load', kind, label, wit,
                         'saved %r, loaded %r' % (stored, got), {'format': fmt})

    # (d) several objects with different cardinalities in one document ---------------------------------
    case_no = 0
    for gkind, k, level, desc, roots in multi_object_cases(tier):
        table, rel = model_table(roots)
        st, doc = h.call(build_model, roots)
        built = lib_table(doc)[0] if st == 'ret' else None
        if built is None or set(built) != set(table) or any(
                built[key][1] != table[key][1] or not same_card(built[key][0], table[key][0]) for key in table):
            col.case(cls_key=('docs', gkind, 'not-buildable'))
            continue                # single assignments are judged in (a)
        want_warn = set(key for key, (c, cnt) in table.items() if outside(c, cnt))
        pattern = set_pattern(roots)
        case_no += 1
        routes = [(fmt, io) for fmt in ('XML', 'JSON', 'YAML') for io in ('string', 'file')]
        if tier == 'quick':         # both readers (XML, dict) for every document, the slower routes in turn
            slow = [r for r in routes if r not in (('XML', 'string'), ('JSON', 'string'))]
            routes = [('XML', 'string'), ('JSON', 'string'), slow[case_no % len(slow)]]
        for fmt, io in routes:
            col.case(cls_key=('docs', gkind, k, level, fmt, io, pattern),
                     sample='%d sibling %s %s, %d levels deep, %s %s' % (k, gkind, desc, level, fmt, io))
            wit = {'siblings': gkind, 'classes': desc, 'level': level, 'format': fmt, 'io': io, 'model': roots}
            extra = {'format': fmt, 'io': io}
            st, back = round_trip(doc, fmt, io, os.path.join(work, 'multi.%s' % fmt.lower()))
            if st != 'ok':
                fail('documents-survive-save-load', 'any', '%s-raises' % st, wit,
                     '%s raised %s: %s' % (st, type(back).__name__, back), extra)
                continue
            got, ids = lib_table(back)
            changed = set()
            for key in sorted(table):
                path, kind = key
                own, cnt = table[key]
                if key not in got:
                    if (rel[path][0], 'sections') in got or not rel[path][0]:      # report the topmost only
                        fail('objects-survive-save-load', kind, 'object-missing-after-load', wit,
                             '%s is not in the loaded document' % path, extra)
                    continue
                if not same_card(got[key][0], own):
                    changed.add(key)
                    fail('own-cardinality-after-load', kind,
                         'own=%s;loaded=that-of-%s' % (card_class(own), card_source(table, rel, path, kind, got[key][0])),
                         wit, '%s: %s saved as %r, loaded as %r'
                         % (path, KINDS[kind][0], own, got[key][0]), extra)
            have_warn = doc_warnings(back, ids)
            if have_warn is None:
                fail('loaded-document-warnings', 'any', 'validation-raises', wit,
                     'Validation of the loaded document raised', extra)
                continue
            for key in sorted(want_warn ^ have_warn):
                if key not in got or key not in table or got[key][1] != table[key][1]:
                    continue            # object or children lost / unknown object: not a cardinality clause
                fail('loaded-document-warnings', key[1],
                     '%s:%s' % ('missing-warning' if key in want_warn else 'extra-warning',
                                'cardinality-changed-by-load' if key in changed else
                                position(table[key][0], table[key][1]) if table[key][0] else 'unset'),
                     wit, '%s (%s %r, %d children): the loaded document %s the warning; the saved one %s'
                     % (key[0], KINDS[key[1]][0], table[key][0], table[key][1],
                        'lacks' if key in want_warn else 'reports', 'needs it' if key in want_warn else 'must not'),
                     extra)
    shutil.rmtree(work, ignore_errors=True)

    agg._merge('route', lambda pres: {'setter', 'method'} <= pres, 'either')
    agg._merge('kind', lambda pres: set(KINDS) <= pres, 'any')
    agg._merge('io', lambda pres: {'string', 'file'} <= pres, 'both')
    agg._merge('format', lambda pres: {'XML', 'JSON', 'YAML'} <= pres, 'any')
    agg._merge('level', lambda pres: {'object', 'document'} <= pres, 'both')
    for k in sorted(agg.d, key=repr):
        n, check, cls, witness, detail, _ = agg.d[k]
        col.fail(check=check, cls=cls, witness=witness, detail='%s  [%d failing cases in this class]' % (detail, n))
    res = col.result()
    res['failure_classes'] = len(agg.d)
    return res
