"""
Bounded stand-in (run-time contract check) for property C01:
"XML save/load is lossless and conforms to odML format 1.1".

Parts
  run_value_codec     to_csv/from_csv as chained by XMLWriter.save_element / XMLReader.parse_tag; n-tuple values
                      through XMLWriter / XMLReader
  run_roundtrip       load(save(doc)) == doc over writer entry points x input forms (file, bytes, decoded str;
                      re-encoded with/without BOM and declaration) x reader entry points; file names
  run_native_roundtrip  the same for documents whose values were given as unusual native Python objects (time zone
                      aware datetimes, subclass instances, Decimal, big ints, ...; pool and value entry points of
                      b_C02) x writer options x handed-out forms x strict / lenient readers
  run_vocabulary      written XML uses the odML 1.1 element vocabulary only (stdlib ElementTree)
  run_foreign_writer  XML produced by an independent serializer (8 spellings, 3 of them with a document type
                      declaration and internal general entities) in every input form loads to the document it
                      describes; entry points handed the same text return the same document

The oracle is written from the property statement: own normalisation / comparison of independent
snapshots (harness.snap_* read private fields), own 1.1 vocabulary table, own serializer.
Also holds the helpers shared with b_C02 (document comparison, feature labels, extra documents).
"""
from __future__ import annotations

import codecs
import datetime as dt
import functools
import io
import itertools
import os
import random
import re
import shutil
import xml.etree.ElementTree as StdET

from rcc import harness as h

import odml                                                     # noqa: E402  (after harness: sys.path)
from odml.tools import xmlparser as xp                           # noqa: E402
from odml.tools.odmlparser import ODMLReader, ODMLWriter          # noqa: E402

WORKDIR = os.path.join(h.WORK, 'c0102-%d' % os.getpid())     # per process: concurrent runs do not share files

# ---------------------------------------------------------------------------------------------
# odML 1.1 vocabulary (element names allowed below each container), written down from the format
# description; cross-checked against odml/format.py *_args at run time (run_vocabulary).
# ---------------------------------------------------------------------------------------------
VOCAB = {
    'odML': {'id', 'version', 'author', 'date', 'section', 'repository'},
    'section': {'id', 'type', 'name', 'definition', 'reference', 'link', 'repository', 'section', 'include',
                'property', 'sec_cardinality', 'prop_cardinality'},
    'property': {'id', 'name', 'value', 'unit', 'definition', 'dependency', 'dependencyvalue', 'uncertainty',
                 'reference', 'type', 'value_origin', 'val_cardinality'},
}
FORMAT_VERSION_11 = '1.1'
CUSTOM_TEMPLATE = '<xsl:template match="odML">x</xsl:template>'
XSL_STYLESHEET_TAG = '{http://www.w3.org/1999/XSL/Transform}stylesheet'

# ---------------------------------------------------------------------------------------------
# feature labels (stable names for "why is this input special")
# ---------------------------------------------------------------------------------------------
CHAR_NAMES = {' ': 'space', ',': 'comma', '"': 'quote', '[': 'lbracket', ']': 'rbracket', '(': 'lparen',
              ')': 'rparen', ';': 'semicolon', '\n': 'newline', '<': 'lt', '>': 'gt', '&': 'amp',
              "'": 'apostrophe', '\t': 'tab', '\r': 'cr'}


def text_marks(s, pos):
    """Set of 'feature@pos' labels for one string."""
    marks = set()
    if s == '':
        marks.add('emptystr@' + pos)
    if s != s.strip():
        marks.add('padded@' + pos)
    for ch in s.strip():
        if ch in CHAR_NAMES:
            marks.add(CHAR_NAMES[ch] + '@' + pos)
        elif ord(ch) > 127:
            marks.add('nonascii@' + pos)
    return marks


def count_label(vals):
    return 'novalue' if len(vals) == 0 else ('single' if len(vals) == 1 else 'several')


def value_feature(vals):
    """'single|several/<sorted marks>' for a list of str values; position is first / later."""
    marks = set()
    for i, v in enumerate(vals):
        if isinstance(v, str):
            marks |= text_marks(v, 'first' if i == 0 else 'later')
    return '%s/%s' % (count_label(vals), '+'.join(sorted(marks)) or 'plain')


def text_feature(s):
    if not isinstance(s, str):
        return type(s).__name__
    return '+'.join(sorted(m.split('@')[0] for m in text_marks(s, 'x'))) or 'plain'


def card_shape(c):
    if c is None:
        return 'none'
    lo, hi = c
    if lo is None:
        return 'max-only'
    if hi is None:
        return 'min-only'
    if lo == hi:
        return 'min==max'
    return 'min<max' if lo > 0 else 'zero-min<max'


def unc_feature(u):
    if u is None:
        return 'none'
    if isinstance(u, tuple) and u and u[0] == 'float':
        return 'zero-float' if float(u[1]) == 0 else 'float'
    if isinstance(u, int):
        return 'zero-int' if u == 0 else 'int'
    return 'other'


# ---------------------------------------------------------------------------------------------
# normalised images of documents and their comparison (own code; never the library's __eq__)
# ---------------------------------------------------------------------------------------------

def strip_text(x):
    if isinstance(x, str):
        return x.strip()
    if isinstance(x, tuple):
        return tuple(strip_text(v) for v in x)
    return x


# Set to True to treat an uncertainty that comes back as numeric TEXT ('0.5' for 0.5) as preserved.
# The statement says "same attributes" and lists only whitespace trimming as a loss of the XML form, so
# the default is to report it (class property.uncertainty:number->text).
UNCERTAINTY_NUMERIC_TEXT_IS_SAME = False


def _num(u):
    """Uncertainty is a number: 2 and 2.0 describe the same attribute (XML has no int/float distinction)."""
    if UNCERTAINTY_NUMERIC_TEXT_IS_SAME and isinstance(u, str):
        try:
            return ('num', float(u))
        except ValueError:
            return u
    if isinstance(u, tuple) and len(u) == 2 and u[0] == 'float':
        return ('num', float(u[1]))
    if isinstance(u, int) and not isinstance(u, bool):
        return ('num', float(u))
    return u


def image(obj, strip):
    """Nested dict image of a Document/Section/Property built from harness snapshots (private fields)."""
    if isinstance(obj, h.BaseDocument):
        raw = h.snap_doc(obj, ids=True, parent=False)
    elif isinstance(obj, h.BaseSection):
        raw = h.snap_sec(obj, ids=True, parent=False)
    else:
        raw = h.snap_prop(obj, ids=True, parent=False)
    return _image(raw, strip)


def _image(raw, strip):
    out = {'kind': raw['kind'], 'fields': {}, 'raw': raw, 'props': [], 'sections': []}
    for k, v in raw.items():
        if k == 'kind':
            continue
        if k in ('props', 'sections'):
            out[k] = [_image(c, strip) for c in v]
        elif k == '_uncertainty':
            out['fields'][k] = _num(v)
        else:
            out['fields'][k] = strip_text(v) if strip else v
    return out


def frozen(img):
    return (img['kind'], tuple(sorted(img['fields'].items(), key=lambda kv: kv[0])),
            tuple(frozen(c) for c in img['props']), tuple(frozen(c) for c in img['sections']))


def _raw_values(raw):
    """values of a property snapshot back as python list of plain items (str stays str)."""
    out = []
    for v in raw.get('values', ()):
        out.append(v)
    return out


def field_class(kind, field, img, other=None):
    """(clause, feature) for a differing field of the ORIGINAL image."""
    raw = img['raw']
    if field == 'values':
        vals = _raw_values(raw)
        dtype = raw.get('_dtype')
        if all(isinstance(v, str) for v in vals):
            # label by the minimal failing form of the XML value codec when that is what breaks
            # (labelling only - the verdict never depends on it)
            vs = tuple(v.strip() for v in vals)
            if vals and codec_fails(vs):
                return 'values-preserved', '%s:%s' % (dtype, value_feature(minimal_failing(vs)))
            return 'values-preserved', '%s:%s' % (dtype, value_feature(vals))
        if vals and all(isinstance(v, tuple) and v and v[0] == 'list' for v in vals):
            marks = set()
            for i, v in enumerate(vals):
                for item in v[1:]:
                    marks |= text_marks(item, 'first' if i == 0 else 'later') if isinstance(item, str) else set()
            return 'values-preserved', '%s:%s/%s' % (dtype, count_label(vals), '+'.join(sorted(marks)) or 'plain')
        return 'values-preserved', '%s:%s' % (dtype, count_label(vals))
    if field.endswith('_cardinality'):
        c = raw.get(field)
        c = None if c is None else (c[1], c[2])
        return 'cardinality-preserved', '%s:%s' % (field.lstrip('_'), card_shape(c))
    if field == '_uncertainty':
        got = None if other is None else other['fields'].get(field)
        want = img['fields'].get(field)
        if isinstance(got, str) and isinstance(want, tuple) and want[0] == 'num':
            try:
                if float(got) == want[1]:
                    return 'attribute-preserved', 'property.uncertainty:number->text'
            except ValueError:
                pass
        return 'attribute-preserved', 'property.uncertainty:%s' % unc_feature(raw.get(field))
    if field == '_id':
        return 'ids-preserved', kind
    if field == '_dtype':
        return 'dtype-preserved', str(raw.get(field))
    return 'attribute-preserved', '%s.%s:%s' % (kind, field.lstrip('_'), text_feature(raw.get(field)))


# ---------------------------------------------------------------------------------------------
# labelling only: is a text difference the trace of bytes read in the wrong encoding?
# ---------------------------------------------------------------------------------------------
def _decode_cp1252(raw):
    """windows-1252 as decoders with a full table read it (the five unassigned bytes as C1 controls)."""
    return ''.join(bytes([c]).decode('cp1252') if c not in (0x81, 0x8d, 0x8f, 0x90, 0x9d) else chr(c) for c in raw)


TRANSCODINGS = []
for _w in ('utf-8', 'utf-16-le', 'utf-16-be', 'iso-8859-1', 'cp1252', 'iso-8859-15'):
    for _r in ('utf-8', 'iso-8859-1', 'cp1252', 'iso-8859-15', 'utf-16-le', 'utf-16-be'):
        if _w != _r:
            TRANSCODINGS.append((_w, _r))


def _transcode(s, written, read):
    try:
        raw = s.encode(written)
        return _decode_cp1252(raw) if read == 'cp1252' else raw.decode(read)
    except (UnicodeError, ValueError):
        return None


def _explained(va, vb, written, read):
    """vb is va with some (at least one) of its non-ASCII characters encoded in `written` and decoded in `read`;
    the others are unchanged (e.g. because they were written as character references). Texts only."""
    j, changed = 0, False
    for i, ch in enumerate(va):
        t = _transcode(ch, written, read) if ord(ch) > 127 else None
        opts = [t] if t is not None and t != ch else []
        # the loaded text is compared after strip(), which also takes C1 controls / no-break spaces at the ends
        if opts and i == len(va) - 1 and t.rstrip():
            opts.append(t.rstrip())
        if opts and i == 0 and t.lstrip():
            opts.append(t.lstrip())
        for o in opts:
            if vb.startswith(o, j) and (o == t or i == 0 or j + len(o) == len(vb)):
                j += len(o)
                changed = True
                break
        else:
            if vb.startswith(ch, j):
                j += 1
            else:
                return False
    return changed and j == len(vb)


def _texts(x):
    if isinstance(x, str):
        return [x]
    if isinstance(x, tuple):
        return [t for v in x for t in _texts(v)]
    return [None]


def transcoding_label(va, vb):
    """'<enc>-bytes-read-as-<enc>' when the texts of vb are the texts of va with non-ASCII characters encoded in
    one and decoded in another encoding, else None. Labelling only: gives one defect one class, whatever
    attribute shows it."""
    ta, tb = _texts(va), _texts(vb)
    if va == vb or len(ta) != len(tb) or not any(isinstance(t, str) for t in ta):
        return None
    for written, read in TRANSCODINGS:
        hit = False
        for x, y in zip(ta, tb):
            if x == y:
                continue
            if not (isinstance(x, str) and isinstance(y, str) and _explained(x, y, written, read)):
                hit = False
                break
            hit = True
        if hit:
            return '%s-bytes-read-as-%s' % (written, read)
    return None


def compare(a, b, path='', lab=None):
    """Differences between ORIGINAL image a and LOADED image b: list of dicts clause/feature/object/detail.
    lab: image (same tree shape as a) whose content is used for the feature labels instead of a's."""
    out = []
    if lab is None or lab['kind'] != a['kind']:
        lab = a
    name = a['fields'].get('_name')
    here = path + '/' + str(name) if a['kind'] != 'document' else ''
    if a['kind'] != b['kind']:
        return [{'clause': 'tree-preserved', 'feature': 'kind', 'object': here,
                 'detail': '%s vs %s' % (a['kind'], b['kind'])}]
    differing = [f for f in sorted(set(a['fields']) | set(b['fields']))
                 if a['fields'].get(f, '<missing>') != b['fields'].get(f, '<missing>')]
    if a['kind'] != 'document' and '_id' in differing and '_name' in differing:
        # neither id nor name survived: the object was replaced by a placeholder, report it once
        out.append({'clause': 'object-preserved', 'feature': object_feature(lab), 'object': here, 'field': None,
                    'detail': 'original %s %r came back as an unrelated object (name %r)'
                              % (a['kind'], name, b['fields'].get('_name'))})
        return out
    for f in differing:
        va, vb = a['fields'].get(f, '<missing>'), b['fields'].get(f, '<missing>')
        clause, feature = field_class(a['kind'], f, lab, b)
        trans = transcoding_label(va, vb)
        if trans:
            feature = 'text-transcoded:' + trans
        out.append({'clause': clause, 'feature': feature, 'object': here or '/', 'field': f,
                    'detail': 'original %r, loaded %r' % (va, vb)})
    for key in ('props', 'sections'):
        ca, cb = a[key], b[key]
        cl = lab[key] if len(lab[key]) == len(ca) else ca
        if len(ca) != len(cb):
            have = set(c['fields'].get('_id') for c in cb)
            missing = [z for x, z in zip(ca, cl) if x['fields'].get('_id') not in have]
            feats = sorted(set(object_feature(z) for z in missing)) or ['%s-count' % key]
            for ft in feats:
                out.append({'clause': 'tree-preserved', 'feature': 'missing-' + ft if missing else ft,
                            'object': here or '/', 'field': None,
                            'detail': 'original has %d %s, loaded %d' % (len(ca), key, len(cb))})
            continue
        for x, y, z in zip(ca, cb, cl):
            out += compare(x, y, here, z)
    return out


def object_feature(img):
    if img['kind'] == 'property':
        return 'property:' + field_class('property', 'values', img)[1]
    return img['kind']


def doc_differences(orig, loaded, strip, label_from=None, orig_image=None):
    """All classified differences; guarded by whole-image equality so nothing is missed.
    orig_image: image(orig, strip) computed earlier (orig unchanged since)."""
    a, b = orig_image if orig_image is not None else image(orig, strip), image(loaded, strip)
    diffs = compare(a, b, lab=None if label_from is None else image(label_from, strip))
    if not diffs and frozen(a) != frozen(b):
        diffs.append({'clause': 'snapshot-equal', 'feature': 'unclassified', 'object': '/',
                      'detail': str(h.diff(frozen(a), frozen(b)))[:300]})
    return diffs


# ---------------------------------------------------------------------------------------------
# documents
# ---------------------------------------------------------------------------------------------
ALL_CARDS = list(h.CARDS) + [(1, 1), (3, 3), (None, 1)]

EDGE_STRING_VALUES = [[''], ['"'], ['"q"'], ['a"'], ['a,b', 'c'], ['a\nb', 'c'], ['c', 'a\nb'], ['x', 'y"'],
                      ['"x', 'y'], ['[]'], ['[a', 'b]'], ['a', ''], ['', 'a'], ['a;b', 'c;d'], ['<a>', '&amp;'],
                      ['é', 'ü,ö'], ['a b', 'c  d'], ["'", "''"], ['a,b,c'], ['[a,b]']]

RETYPABLE = ['yes', 'null', '1e3', '2020-01-01', '~', 'true', '1_000', '0x10', ' padded ', 'no', 'off', '1.0',
             '12:30:01', '0o17', '.inf', '=', '<<', '- a', 'a: b', '#c', '{a}', '!!str', '%', '@', '`', '*x', '&x',
             # characters YAML treats as line breaks / JSON must escape (kept after the first 12 entries, which are
             # also used as names)
             'a\x85b', 'a\x85\x85b', 'trailing\x85', 'a\u2028b', 'a\u2029b', 'tab\there', 'a\rb', 'a\r\nb',
             'multi\nline\n', '\ufeffbom', 'quote"in', "it's", 'back\\slash', 'a\x7fb', 'nul-free \x1f'.replace('\x1f', '')]


def doc_dtypes():
    with h.quiet():
        doc = odml.Document(author='dt', version='1', date=dt.date(2021, 2, 3))
        sec = odml.Section(name='dtypes', type='t', parent=doc)
        for p in h.all_dtype_props():
            sec.append(p)
    return doc


def doc_cards():
    with h.quiet():
        doc = odml.Document()
        for i, c in enumerate(ALL_CARDS):
            sec = odml.Section(name='c%d' % i, type='t', parent=doc)
            sec.sec_cardinality = c
            sec.prop_cardinality = ALL_CARDS[(i + 1) % len(ALL_CARDS)]
            for j, cv in enumerate(ALL_CARDS if i == 0 else [c]):
                p = odml.Property(name='p%d' % j, dtype='string', values=['v1', 'v2'], parent=sec)
                p.val_cardinality = cv
            odml.Section(name='sub', type='t', parent=sec)
    return doc


def doc_edge_strings():
    with h.quiet():
        doc = odml.Document()
        sec = odml.Section(name='edge', type='t', parent=doc)
        for i, vals in enumerate(EDGE_STRING_VALUES):
            odml.Property(name='e%d' % i, dtype='string', values=list(vals), parent=sec)
        odml.Property(name='t0', dtype='2-tuple', values=['(a b;c)', '(1.5;-2)'], parent=sec)
        odml.Property(name='t1', dtype='3-tuple', values=['(x;y;z)'], parent=sec)
    return doc


def doc_tuple_comma(several):
    """n-tuple whose element holds a comma / quote (own documents: the reader may refuse the whole file)."""
    with h.quiet():
        doc = odml.Document()
        sec = odml.Section(name='tup', type='t', parent=doc)
        vals = ['(a,b;c)', '(d;e)'] if several else ['(a,b;c)']
        odml.Property(name='tc', dtype='2-tuple', values=vals, parent=sec)
        odml.Property(name='tq', dtype='2-tuple', values=['(a"b;c)', '(q;"r")'] if several else ['("x";y)'],
                      parent=sec)
    return doc


def doc_attrs():
    """Every optional attribute (that needs no network) set, with awkward text."""
    texts = ['plain', 'Def,with "chars" <&>', 'two\nlines', 'µ-é', '[x]', "it's; (a)"]
    with h.quiet():
        doc = odml.Document(author='A, "B" <c&d>', version='1.0', date=dt.date(1999, 12, 31))
        for i, t in enumerate(texts):
            sec = odml.Section(name='s%d' % i, type='ty/pe.%d' % i, parent=doc, definition=t, reference=t)
            odml.Property(name='q%d' % i, dtype='float', values=[1.5, 2.5], parent=sec, unit=t,
                          uncertainty=[0.5, 2, 0, 0.0, 1e-7, 3][i], reference=t, definition=t, dependency=t,
                          dependency_value=t, value_origin=t, val_cardinality=(1, 5))
            odml.Property(name=t, dtype='string', values=[t], parent=sec)
    return doc


def doc_retypable():
    """C02: strings YAML/JSON could re-type, as values and as attributes; falsy uncertainties."""
    with h.quiet():
        doc = odml.Document(author='null', version='1.0', date=dt.date(2020, 1, 1))
        sec = odml.Section(name='yes', type='no', parent=doc, definition='~', reference='1e3')
        for i, s in enumerate(RETYPABLE):
            odml.Property(name='r%d' % i, dtype='string', values=[s], parent=sec)
            odml.Property(name='rr%d' % i, dtype='string', values=[s, 'x', s], parent=sec)
        sec2 = odml.Section(name='2020-01-01', type='true', parent=doc, definition=' padded ')
        for i, s in enumerate(RETYPABLE[:12]):
            odml.Property(name=s.strip() or 'n%d' % i, dtype='string', values=['v'], parent=sec2, unit=s,
                          definition=s, reference=s, dependency=s, dependency_value=s, value_origin=s)
        sec3 = odml.Section(name='unc', type='t', parent=doc)
        for i, u in enumerate([0, 0.0, 1, 0.25, -0.0]):
            odml.Property(name='u%d' % i, dtype='float', values=[1.0], parent=sec3, uncertainty=u)
        odml.Property(name='zeros', dtype='int', values=[0], parent=sec3)
        odml.Property(name='false', dtype='boolean', values=[False], parent=sec3)
        odml.Property(name='zf', dtype='float', values=[0.0], parent=sec3)
        # dtypes given as DType members (the API accepts both spellings)
        for member in (odml.DType.int, odml.DType.string, odml.DType.boolean, odml.DType.date):
            odml.Property(name='enum_%s' % member.name, dtype=member, values=None, parent=sec3)
        odml.Property(name='enum_float', dtype=odml.DType.float, values=[1.5, 2.5], parent=sec3)
    return doc


# Non-ASCII text by the smallest character set that holds it. 'latin1' fits ISO-8859-1, 'cp1252' needs the
# windows-1252 extension block (0x80-0x9F, where it differs from ISO-8859-1), 'bmp' needs a Unicode encoding,
# 'astral' needs surrogate pairs in UTF-16 / four bytes in UTF-8; 'forms' are strings that only stay what they
# are when nothing normalises them (combining sequences, compatibility characters, no-break space inside).
REPERTOIRES = {
    'latin1': ['Jürgen Müller', 'Größe', 'Körpergröße ×2', 'µm',
               'mäßig, klein', 'été', 'ÿ¡¿'],
    'cp1252': ['€uro', '“quoted”', 'en–dash—em', 'œuvre Šž', '™…',
               '‰ ‹x›'],
    'bmp': ['Ωμέγα', 'Жук', '日本語', 'עברית',
            '√∑ ≠'],
    'astral': ['\U0001F600 smile', '\U0001D518\U0001D52B\U0001D526', '\U00010348', '\U0001F1E9\U0001F1EA flag'],
    'forms': ['a\u0301 e\u0301', '\u212b not \u00c5', '\ufb01 ligature', 'no\u00a0break', 'zero\u200bwidth',
              '\u00c5 precomposed'],
}


def doc_nonascii(rep):
    """Non-ASCII text of one repertoire in every text carrying attribute: author, version, names, types,
    definitions, references, units, dependencies, value origins and the values of every textual dtype.
    Section i puts text (i + j) mod n into slot j, so every text of the repertoire visits every slot."""
    texts = REPERTOIRES[rep]
    n = len(texts)
    with h.quiet():
        doc = odml.Document(author=texts[0], version=texts[1 % n], date=dt.date(2022, 3, 4))
        for i in range(n):
            t = [texts[(i + j) % n] for j in range(14)]
            sec = odml.Section(name=t[0], type='typ ' + t[1], parent=doc, definition=t[2] + ' / ' + t[3],
                               reference=t[3])
            odml.Property(name=t[4], dtype='string', values=[t[5], t[6], 'x, ' + t[7]], parent=sec, unit=t[8],
                          definition=t[9], reference=t[10], dependency=t[11], dependency_value=t[12],
                          value_origin=t[13])
            odml.Property(name='tuple', dtype='2-tuple', values=['(%s;%s)' % (t[0], t[1]), '(%s;x)' % t[2]],
                          parent=sec)
            if i == 0:
                odml.Property(name='single', dtype='string', values=[t[1]], parent=sec)
                odml.Property(name='text', dtype='text', values=[t[0] + '\n' + t[1]], parent=sec)
                odml.Property(name='person', dtype='person', values=[t[1] + ', ' + t[0]], parent=sec)
                odml.Section(name=t[1] + ' sub', type=t[0], parent=sec, definition=t[1])
    return doc


def doc_line_breaks():
    """Carriage returns and CR LF inside values and attributes (XML parsers turn a literal CR into LF, so a
    writer has to write them as character references)."""
    with h.quiet():
        doc = odml.Document(author='a\rb', version='v\r\nw')
        sec = odml.Section(name='cr\rname', type='t', parent=doc, definition='d\r\ne', reference='r\rs')
        for i, vals in enumerate([['a\rb'], ['a\r\nb'], ['a\rb', 'c'], ['c', 'a\r\nb'], ['a\n\rb', 'x\ry', 'z'],
                                  ['tab\there', 'a\tb']]):
            odml.Property(name='lb%d' % i, dtype='string', values=list(vals), parent=sec, unit='u\rv',
                          definition='p\r\nq')
        odml.Property(name='txt', dtype='text', values=['l1\r\nl2\rl3\nl4'], parent=sec)
    return doc


TUPLE_BREAK_DOCS = {
    'tuple_newline_single': ['(a\nb;c)'],
    'tuple_newline_several': ['(d;e)', '(f;g\nh)'],
    'tuple_cr_single': ['(a\rb;c)'],
    'tuple_crlf_several': ['(a\r\nb;c)', '(d;e)'],
    'tuple_tab_single': ['(a\tb;c)'],
}


def doc_tuple_break(key):
    """n-tuple with a line break / tab inside an element (own documents: a reader may refuse the whole file)."""
    with h.quiet():
        doc = odml.Document()
        sec = odml.Section(name='tup', type='t', parent=doc)
        odml.Property(name='tb', dtype='2-tuple', values=list(TUPLE_BREAK_DOCS[key]), parent=sec)
    return doc


def c01_extra_documents():
    """Documents of the XML checks only (b_C02 shares documents() and does not get these unless it asks)."""
    for rep in sorted(REPERTOIRES):
        yield 'nonascii_' + rep, doc_nonascii(rep)
    yield 'line_breaks', doc_line_breaks()
    for key in sorted(TUPLE_BREAK_DOCS):
        yield key, doc_tuple_break(key)


def c01_documents(tier, seed):
    """(label, doc, rich): documents() plus the XML-only ones; rich marks the fixed documents, which get the full
    cross product of input forms and entry points (the generated ones get a rotating selection; in the quick tier
    so do the fixed documents that are about something else than text: dtypes, cardinalities, edge strings)."""
    for label, doc in documents(tier, seed):
        yield label, doc, label == 'attrs' or (tier != 'quick' and not label.startswith('gen_docs'))
    for label, doc in c01_extra_documents():
        yield label, doc, True


def documents(tier, seed, extra=()):
    """(label, doc) for the generated documents plus the fixed ones."""
    for sd in ([seed] if tier == 'quick' else [seed, seed + 1000, seed + 2000]):
        for i, d in enumerate(h.gen_docs(tier, sd)):
            yield 'gen_docs(%s,%d)[%d]' % (tier, sd, i), d
    yield 'dtypes', doc_dtypes()
    yield 'cards', doc_cards()
    yield 'edge_strings', doc_edge_strings()
    yield 'attrs', doc_attrs()
    yield 'tuple_comma_single', doc_tuple_comma(False)
    yield 'tuple_comma_several', doc_tuple_comma(True)
    for label, fn in extra:
        yield label, fn()


def doc_signature(doc):
    """Hashable description of what is in a document (for distinct-case counting)."""
    secs, props = h.walk(doc)
    sig = set()
    for s in secs:
        sig.add(('sec', card_shape(s._sec_cardinality), card_shape(s._prop_cardinality),
                 text_feature(s._definition) if s._definition else None))
    for p in props:
        vals = list(p._values)
        vf = value_feature(vals) if all(isinstance(v, str) for v in vals) else count_label(vals)
        sig.add(('prop', p._dtype, vf, card_shape(p._val_cardinality), unc_feature(h._val(p._uncertainty)),
                 p._unit is not None, p._definition is not None, p._dependency is not None))
    shape = tuple(sum(1 for _ in list.__iter__(s._sections)) for s in secs)
    return (len(secs), len(props), shape, tuple(sorted(map(repr, sig))))


class Agg(object):
    """Aggregate failures by (check, cls): one Collector.fail per class, with a count."""

    def __init__(self, col):
        self.col = col
        self.seen = {}
        self.order = []

    def add(self, check, cls, witness, detail):
        key = (check, tuple(sorted(cls.items())))
        if key not in self.seen:
            self.seen[key] = [check, cls, witness, detail, 0]
            self.order.append(key)
        self.seen[key][4] += 1

    def flush(self):
        for key in self.order:
            check, cls, witness, detail, n = self.seen[key]
            self.col.fail(check=check, cls=cls, witness=witness, detail='%s  [%d failing case(s) in this class]'
                          % (detail, n))


def fresh_workdir(sub):
    path = os.path.join(WORKDIR, sub)
    shutil.rmtree(path, ignore_errors=True)
    os.makedirs(path)
    return path


def drop_workdir(path):
    shutil.rmtree(path, ignore_errors=True)
    try:
        os.rmdir(WORKDIR)
    except OSError:
        pass


def generalise(pairs, all_pairs, mode=lambda pair: xml_reader_mode(pair[1])):
    """Turn a set of failing (writer, reader) pairs into labels, using 'any' where the failure does not
    depend on the entry point, and 'strict' / 'lenient' where it only depends on the reader mode."""
    pairs = set(pairs)
    all_pairs = set(all_pairs)
    if pairs == all_pairs:
        return [('any', 'any')]
    out = []
    rest = set(pairs)
    for m in ('strict', 'lenient'):
        ms = set(p for p in all_pairs if mode(p) == m)
        if ms and ms <= pairs:
            out.append(('any', m))
            rest -= ms
    for w in sorted(set(p[0] for p in all_pairs)):
        rs = set(p for p in all_pairs if p[0] == w)
        if rs and rs <= pairs and rs & rest:
            out.append((w, 'any'))
            rest -= rs
    for r in sorted(set(p[1] for p in all_pairs)):
        ws = set(p for p in all_pairs if p[1] == r)
        if ws and ws <= pairs and ws & rest:
            out.append(('any', r))
            rest -= ws
    out += sorted(rest)
    return out


def input_kind(label):
    """'str' | 'bytes' | 'file' of an input form label ('str:decl=UTF-8', 'bytes:utf-16le/bom+decl', ...)."""
    return label.split(':', 1)[0]


def _chain(dim, value):
    """Labels that describe one coordinate of a case, from specific to general."""
    if dim == 'reader':
        return [value, xml_reader_mode(value), 'any']
    if dim == 'input':
        return [value, 'any-' + input_kind(value), 'any']
    if dim == 'spelling' and value.startswith('entities-'):
        return [value, 'any-entities', 'any']       # the spellings that use a document type declaration
    return [value, 'any']


def generalise_cases(failing, universe, dims):
    """Describe a set of failing cases (tuples over `dims`) with as few labels as possible: a coordinate is
    replaced by a group label ('strict'/'lenient' readers, 'any-str'/'any-bytes' inputs) or by 'any' when every
    evaluated case the more general label covers fails as well. -> list of label tuples, deterministic."""
    failing = set(failing)
    universe = list(universe)
    if failing and failing == set(universe):
        return [tuple('any' for _ in dims)]
    verdict = {}

    def covers(lab, case):
        return all(l in _chain(d, v) for d, l, v in zip(dims, lab, case))

    def valid(lab):
        if lab not in verdict:
            verdict[lab] = all(u in failing for u in universe if covers(lab, u))
        return verdict[lab]

    out = []
    for case in sorted(failing):
        if any(covers(lab, case) for lab in out):
            continue
        chains = [_chain(d, v) for d, v in zip(dims, case)]
        cands = sorted(itertools.product(*[list(enumerate(c)) for c in chains]),
                       key=lambda c: (-sum(i for i, _ in c), [i for i, _ in c]))
        for cand in cands:
            lab = tuple(l for _, l in cand)
            if valid(lab):
                out.append(lab)
                break
    return out


def exc_feature(exc):
    """Stable label of an exception: type and the constant head of its message."""
    import re
    head = re.split(r'[({\[\n]', str(exc))[0]
    head = re.sub(r'[0-9]+', 'N', head).strip()[:70]
    return '%s:%s' % (type(exc).__name__, head)


# ---------------------------------------------------------------------------------------------
# part 1: value codec
# ---------------------------------------------------------------------------------------------
ALPHABET = ['a', ' ', ',', '"', '[', ']', '(', ';', '\n', '<', '&', 'é']


INTERIOR_SPECIALS = ['\u2028', '\u2029', '\x85', '\t', '\u00a0', '\u3000', '\ufeff', "'", '\\', '|', '\u200b']


def stripped_strings(max_len):
    out = []
    for n in range(0, max_len + 1):
        for tup in itertools.product(ALPHABET, repeat=n):
            s = ''.join(tup)
            if s == s.strip():
                out.append(s)
    return out


def codec(vs):
    """What the XML reader hands to the Property constructor for what the XML writer wrote for vs.
    ('raised-writer', e) | ('raised-reader', e) | ('ok', decoded)"""
    k, text = h.call(xp.to_csv, list(vs))
    if k == 'exc':
        return 'raised-writer', text
    if not isinstance(text, str):
        return 'ok', text
    # XMLReader.parse_tag: only a non-blank text node is decoded; otherwise the property has no values
    if not text.strip():
        return 'ok', []
    k, dec = h.call(xp.from_csv, text)
    if k == 'exc':
        return 'raised-reader', dec
    return 'ok', dec


def codec_fails(vs):
    kind, res = codec(vs)
    if kind == 'raised-writer':
        return False
    return kind == 'raised-reader' or res != list(vs)


@functools.lru_cache(maxsize=1 << 18)
def _fails_cached(vs):
    return codec_fails(vs)


def _reductions(vs):
    n = len(vs)
    if n > 1:
        for i in range(n - 1, -1, -1):
            yield vs[:i] + vs[i + 1:]
    for i in range(n):
        s = vs[i]
        for j in range(len(s)):
            t = s[:j] + s[j + 1:]
            if t and t == t.strip():        # never reduce to the empty string: that is a failure class of its own
                yield vs[:i] + (t,) + vs[i + 1:]
        for j in range(len(s)):
            if s[j] != 'a':
                t = s[:j] + 'a' + s[j + 1:]
                if t == t.strip():
                    yield vs[:i] + (t,) + vs[i + 1:]


@functools.lru_cache(maxsize=1 << 18)
def minimal_failing(vs):
    """A locally minimal failing list reachable from vs by dropping values / deleting characters /
    replacing characters by 'a' (deterministic greedy descent)."""
    for cand in _reductions(vs):
        if _fails_cached(cand):
            return minimal_failing(cand)
    return vs


# n-tuple values: elements over an alphabet without the characters of the tuple syntax itself ('(', ';', ')')
TUPLE_ALPHABET = ['a', ' ', ',', '"', '[', ']', '\n', '\r', '\t', '<', '&', 'é']


def tuple_elements(max_len):
    """Non-empty stripped strings with |s| <= max_len, plus every letter between two plain ones (|s| = 3), so
    that white space can sit inside an element."""
    out = []
    for n in range(1, max_len + 1):
        for tup in itertools.product(TUPLE_ALPHABET, repeat=n):
            s = ''.join(tup)
            if s == s.strip():
                out.append(s)
    out += ['a' + ch + 'b' for ch in TUPLE_ALPHABET if ch != 'a']
    return out


@functools.lru_cache(maxsize=1 << 16)
def tuple_codec(tuples):
    """A property holding the given 2-tuples, written by XMLWriter and read back by the strict XMLReader.
    -> ('not-buildable', _) the public API does not store these elements as given (no such document);
       ('raised-writer', e) | ('raised-reader', e) | ('ok', loaded values)"""
    k, built = h.call(lambda: odml.Property(name='t', dtype='2-tuple',
                                            values=['(%s;%s)' % t for t in tuples]))
    if k == 'exc' or [list(v) for v in built._values] != [list(t) for t in tuples]:
        return 'not-buildable', None
    doc = odml.Document()
    sec = h.make_sec('s')
    with h.quiet():
        doc.append(sec)
        sec.append(built)
    k, text = h.call(lambda: str(xp.XMLWriter(doc)))
    if k == 'exc':
        return 'raised-writer', text
    k, loaded = h.call(xp.XMLReader(show_warnings=False).from_string, text)
    if k == 'exc':
        return 'raised-reader', loaded
    _secs, props = h.walk(loaded)
    if len(props) != 1:
        return 'ok', None
    return 'ok', [list(v) if isinstance(v, (list, tuple)) else v for v in props[0]._values]


def tuple_fails(tuples):
    kind, res = tuple_codec(tuples)
    if kind in ('not-buildable', 'raised-writer'):
        return False
    return kind == 'raised-reader' or res != [list(t) for t in tuples]


def _tuple_reductions(tuples):
    if len(tuples) > 1:
        for i in range(len(tuples) - 1, -1, -1):
            yield tuples[:i] + tuples[i + 1:]
    for i, t in enumerate(tuples):
        for j, s in enumerate(t):
            cands = [s[:c] + s[c + 1:] for c in range(len(s))] + \
                    [s[:c] + 'a' + s[c + 1:] for c in range(len(s)) if s[c] != 'a']
            for r in cands:
                if r and r == r.strip():
                    yield tuples[:i] + (t[:j] + (r,) + t[j + 1:],) + tuples[i + 1:]


@functools.lru_cache(maxsize=1 << 16)
def minimal_failing_tuples(tuples):
    for cand in _tuple_reductions(tuples):
        if tuple_fails(cand):
            return minimal_failing_tuples(cand)
    return tuples


def tuple_feature(tuples):
    marks = set()
    for i, t in enumerate(tuples):
        for s in t:
            marks |= text_marks(s, 'first' if i == 0 else 'later')
    return '2-tuple:%s/%s' % (count_label(tuples), '+'.join(sorted(marks)) or 'plain')


def run_value_codec(tier, seed):
    quick = tier == 'quick'
    len12, len3 = (2, 1) if quick else (3, 2)
    col = h.Collector(
        'C01.value_codec',
        rule='every list of 1..2 stripped strings over the 12-letter alphabet %r with |s| <= %d, and every list of 3 '
             'such strings with |s| <= %d (3 values x |s| <= 3 would be 2.2e9 cases; covered by a seeded random '
             'sample instead); distinct = (number of values, per-position set of special characters)'
             % (''.join(ALPHABET), len12, len3), exhaustive=True)
    agg = Agg(col)
    raised = [0]

    def evaluate(vs):
        col.case(cls_key=value_feature(vs), sample=repr(list(vs)))
        kind, res = codec(vs)
        if kind == 'raised-writer':
            raised[0] += 1
            return
        if kind == 'ok' and res == list(vs):
            return
        mini = minimal_failing(vs)
        mkind, mres = codec(mini)
        clause = 'reader-accepts-written-value' if mkind == 'raised-reader' else 'value-list-preserved'
        agg.add(check='C01.value_codec/' + clause,
                cls={'clause': clause, 'feature': value_feature(mini)},
                witness={'values': list(mini), 'first_seen_for': list(vs)},
                detail='to_csv(%r) = %r, read back as %r; contract requires the same list or the writer to raise'
                       % (list(mini), h.call(xp.to_csv, list(mini))[1], mres))

    s12 = stripped_strings(len12)
    s3 = stripped_strings(len3)
    for a in s12:
        evaluate((a,))
    for a in s12:
        for b in s12:
            evaluate((a, b))
    for a in s3:
        for b in s3:
            for c in s3:
                evaluate((a, b, c))
    # characters that are not in the small alphabet but are special to line-oriented text handling
    # (str.splitlines / csv / XML whitespace): placed in the interior of a value, alone and with neighbours
    for ch in INTERIOR_SPECIALS:
        mid = 'a' + ch + 'b'
        for vs in ((mid,), (mid, 'c'), ('c', mid), ('[' + mid + ']',), (mid, mid), ('c', mid, 'd')):
            evaluate(vs)
    # random extension: 3..4 values of length <= 3
    rnd = random.Random(seed)
    pool = stripped_strings(3)
    for _ in range(2000 if quick else 200000):
        n = rnd.choice([3, 3, 4])
        evaluate(tuple(rnd.choice(pool) for _ in range(n)))
    # n-tuples: one and two 2-tuples through the XML writer and the strict reader
    not_buildable = [0]

    def evaluate_tuples(tuples):
        col.case(cls_key=tuple_feature(tuples), sample=repr([list(t) for t in tuples]))
        kind, res = tuple_codec(tuples)
        if kind == 'not-buildable':
            not_buildable[0] += 1
            return
        if kind == 'raised-writer':
            raised[0] += 1
            return
        if kind == 'ok' and res == [list(t) for t in tuples]:
            return
        mini = minimal_failing_tuples(tuples)
        mkind, mres = tuple_codec(mini)
        clause = 'reader-accepts-written-value' if mkind == 'raised-reader' else 'value-list-preserved'
        agg.add(check='C01.value_codec/' + clause,
                cls={'clause': clause, 'feature': tuple_feature(mini)},
                witness={'dtype': '2-tuple', 'values': [list(t) for t in mini],
                         'first_seen_for': [list(t) for t in tuples]},
                detail='2-tuple values %r written by XMLWriter are read back as %r; contract requires the same '
                       'list or the writer to raise' % ([list(t) for t in mini], mres))

    big = tuple_elements(1 if quick else 2)
    small = tuple_elements(1) if quick else big
    for e1 in big:
        for e2 in small:
            evaluate_tuples(((e1, e2),))
            if e1 != e2 and (quick or e2 not in big):
                evaluate_tuples(((e2, e1),))
    for e1 in big:
        for e2 in tuple_elements(1):
            evaluate_tuples(((e1, 'b'), ('c', e2)))
            evaluate_tuples(((e2, 'b'), ('c', e1)))
    agg.flush()
    res = col.result()
    res['writer_raised'] = raised[0]
    res['not_buildable'] = not_buildable[0]
    return res


# ---------------------------------------------------------------------------------------------
# part 2: round trip through the entry points
# ---------------------------------------------------------------------------------------------
XML_DECL = '<?xml version="1.0" encoding="UTF-8"?>\n'

WRITERS = [
    # name, produces, styled
    ('odml.save', 'file', False),
    ('ODMLWriter.to_string', 'str', False),
    ('XMLWriter.__str__', 'str', False),
    ('XMLWriter.write_file', 'file', False),
    ('XMLWriter.write_file[local_style]', 'file', True),
    ('XMLWriter.write_file[custom_template]', 'file', True),
]


def write_xml(name, doc, path):
    """-> ('exc', e) | ('ret', None); output ends up in the file `path` and is returned as
    (string-reader input, path)."""
    if os.path.exists(path):
        os.remove(path)
    if name == 'odml.save':
        r = h.call(odml.save, doc, path)
    elif name == 'ODMLWriter.to_string':
        r = h.call(ODMLWriter('XML').to_string, doc)
    elif name == 'XMLWriter.__str__':
        r = h.call(lambda: str(xp.XMLWriter(doc)))
    elif name == 'XMLWriter.write_file':
        r = h.call(xp.XMLWriter(doc).write_file, path)
    elif name == 'XMLWriter.write_file[local_style]':
        r = h.call(xp.XMLWriter(doc).write_file, path, local_style=True)
    elif name == 'XMLWriter.write_file[custom_template]':
        r = h.call(xp.XMLWriter(doc).write_file, path, custom_template=CUSTOM_TEMPLATE)
    else:
        raise KeyError(name)
    if r[0] == 'exc':
        return r
    if isinstance(r[1], str):
        with open(path, 'w', encoding='utf-8') as f:
            f.write(XML_DECL + r[1])
        return 'ret', (r[1], path)
    if not os.path.exists(path):
        return 'exc', IOError('writer returned without writing %s' % path)
    with open(path, 'rb') as f:
        data = f.read()
    return 'ret', (data, path)


# ---------------------------------------------------------------------------------------------
# input forms: how one XML text reaches the reader (encoding, byte order mark, declaration, bytes or
# decoded str) and through which entry point. Written from the XML recommendation (4.3.3, appendix F):
# a byte stream is read in the encoding its BOM / declaration names (UTF-8 without either); a text that
# is already decoded (str) consists of characters, its declaration has nothing left to say.
# ---------------------------------------------------------------------------------------------
DECL_RE = re.compile('^\ufeff?' + r'\s*<\?xml\s[^>]*\?>[ \t\r\n]*')


def xml_decl(name, quote='"', standalone=False):
    return '<?xml version=%s1.0%s encoding=%s%s%s%s?>\n' % (quote, quote, quote, name, quote,
                                                         ' standalone=%syes%s' % (quote, quote) if standalone else '')


def strip_decl(text):
    """The text without byte order mark and XML declaration."""
    return DECL_RE.sub('', text, count=1)


def sniff_decode(data):
    """Decode the bytes of an XML file the way an XML processor has to: BOM, else declaration, else UTF-8.
    -> str, or None when the bytes are not text in that encoding (then only the file itself is handed on)."""
    try:
        for bom, codec in ((codecs.BOM_UTF8, 'utf-8'), (codecs.BOM_UTF16_LE, 'utf-16-le'),
                           (codecs.BOM_UTF16_BE, 'utf-16-be')):
            if data.startswith(bom):
                return data[len(bom):].decode(codec)
        m = re.match(br'\s*<\?xml[^>]*encoding\s*=\s*["\']([A-Za-z0-9._-]+)["\']', data[:200])
        return data.decode(m.group(1).decode('ascii') if m else 'utf-8')
    except (UnicodeError, LookupError):
        return None


class Form(object):
    """label, kind ('bytes' | 'str'), codec (python name; None: holds every character), build(body) -> input"""

    def __init__(self, label, codec, name, bom=b'', decl=True, quote='"', as_str=False, str_bom=False):
        self.label, self.codec, self.name, self.bom = label, codec, name, bom
        self.decl, self.quote, self.as_str, self.str_bom = decl, quote, as_str, str_bom
        self.kind = 'str' if as_str else 'bytes'
        self.limited = codec in ('iso-8859-1', 'iso-8859-15', 'cp1252', 'ascii')

    def fits(self, body):
        """The characters of body exist in this form's character set (no character reference needed)."""
        if not self.limited:
            return True
        try:
            body.encode(self.codec)
            return True
        except UnicodeEncodeError:
            return False

    def build(self, body):
        text = (xml_decl(self.name, self.quote, standalone=self.quote == "'") if self.decl else '') + body
        if self.codec is None:
            return ('\ufeff' if self.str_bom else '') + text
        # a character the encoding does not have is written as a character reference, as any XML writer does
        raw = text.encode(self.codec, 'xmlcharrefreplace')
        if self.as_str:
            # what open(path, encoding=...).read() hands out for such a file
            return ('\ufeff' if self.str_bom else '') + raw.decode(self.codec)
        return self.bom + raw


FORMS = [
    Form('bytes:utf-8/decl', 'utf-8', 'UTF-8'),
    Form('bytes:utf-8/nodecl', 'utf-8', None, decl=False),
    Form('bytes:utf-8/bom+decl', 'utf-8', 'UTF-8', bom=codecs.BOM_UTF8),
    Form('bytes:utf-8/bom+nodecl', 'utf-8', None, bom=codecs.BOM_UTF8, decl=False),
    Form("bytes:utf-8/decl-lowercase-single-quoted-standalone", 'utf-8', 'utf-8', quote="'"),
    Form('bytes:iso-8859-1/decl', 'iso-8859-1', 'ISO-8859-1'),
    Form('bytes:iso-8859-15/decl', 'iso-8859-15', 'ISO-8859-15'),
    Form('bytes:windows-1252/decl', 'cp1252', 'windows-1252'),
    Form('bytes:us-ascii/decl', 'ascii', 'US-ASCII'),
    Form('bytes:ascii-charrefs/nodecl', 'ascii', None, decl=False),
    Form('bytes:utf-16le/bom+decl', 'utf-16-le', 'UTF-16', bom=codecs.BOM_UTF16_LE),
    Form('bytes:utf-16le/bom+nodecl', 'utf-16-le', None, bom=codecs.BOM_UTF16_LE, decl=False),
    Form('bytes:utf-16be/bom+decl', 'utf-16-be', 'UTF-16', bom=codecs.BOM_UTF16_BE),
    Form('bytes:utf-16be/bom+nodecl', 'utf-16-be', None, bom=codecs.BOM_UTF16_BE, decl=False),
    Form('bytes:utf-16le/nobom+decl=UTF-16LE', 'utf-16-le', 'UTF-16LE'),
    Form('bytes:utf-16be/nobom+decl=UTF-16BE', 'utf-16-be', 'UTF-16BE'),
    Form('str:nodecl', None, None, decl=False, as_str=True),
    Form('str:decl=UTF-8', None, 'UTF-8', as_str=True),
    Form('str:decl=utf-8-single-quoted', None, 'utf-8', quote="'", as_str=True),
    Form('str:bom+decl=UTF-8', None, 'UTF-8', as_str=True, str_bom=True),
    Form('str:decl=ISO-8859-1', 'iso-8859-1', 'ISO-8859-1', as_str=True),
    Form('str:decl=ISO-8859-15', 'iso-8859-15', 'ISO-8859-15', as_str=True),
    Form('str:decl=windows-1252', 'cp1252', 'windows-1252', as_str=True),
    Form('str:decl=US-ASCII', 'ascii', 'US-ASCII', as_str=True),
    Form('str:decl=UTF-16', 'utf-16', 'UTF-16', as_str=True),
]
FORM_BY_LABEL = dict((f.label, f) for f in FORMS)

# entry points by the kind of input they take
BYTES_READERS = ['XMLReader(strict).from_string[bytes]', 'XMLReader(lenient).from_string[bytes]',
                 'ODMLReader.from_string[bytes]', 'XMLReader(strict).from_file[path]',
                 'XMLReader(lenient).from_file[path]', 'XMLReader(strict).from_file[binary-handle]',
                 'XMLReader(lenient).from_file[BytesIO]', 'ODMLReader.from_file[path]', 'odml.load']
STR_READERS = ['XMLReader(strict).from_string[str]', 'XMLReader(lenient).from_string[str]',
               'ODMLReader.from_string[str]']
# A text-mode handle hands the parser decoded text as well. Only used where the declaration (if any) names the
# encoding the handle decodes with: what a parser library does with a text stream whose declaration disagrees
# is not covered by the statement (not flagged; see report).
TEXT_HANDLE_READERS = ['XMLReader(strict).from_file[text-handle utf-8]']
TEXT_HANDLE_FORMS = ('str:nodecl', 'str:decl=UTF-8', 'str:decl=utf-8-single-quoted', 'str:as-returned',
                     'str:own-decl+returned', 'str:library-header+returned', 'str:file-decoded')
STRINGIO_READERS = ['XMLReader(lenient).from_file[StringIO]']
STRINGIO_FORMS = ('str:nodecl', 'str:as-returned')
# the statement promises for styled output: odml.load, to the same document
STYLED_READERS = ['odml.load', 'ODMLReader.from_file[path]', 'XMLReader(lenient).from_file[path]']


def readers_for(input_label, styled=False):
    kind = input_kind(input_label)
    if styled:
        return list(STYLED_READERS) if kind in ('bytes', 'file') else []
    if kind == 'file':          # the file as the writer left it: entry points that take a path / open it
        return [r for r in BYTES_READERS if '[path]' in r or r == 'odml.load' or 'binary-handle' in r]
    if kind == 'bytes':
        return list(BYTES_READERS)
    out = list(STR_READERS)
    if input_label in TEXT_HANDLE_FORMS:
        out += TEXT_HANDLE_READERS
    if input_label in STRINGIO_FORMS:
        out += STRINGIO_READERS
    return out


def xml_reader_mode(reader):
    """strict readers raise on a problem, lenient ones (ignore_errors=True) go on with a warning."""
    if reader == 'odml.load' or reader.startswith('ODMLReader.from_file') or '(lenient)' in reader:
        return 'lenient'
    return 'strict'


def read_input(reader, data, path):
    """Hand `data` (bytes | str) to one entry point; file entry points read `path`, which this function
    fills with the bytes (str: UTF-8 encoded, for the text handle) unless data is None (file as written).
    -> (('ret', doc) | ('exc', e), warnings or None)"""
    needs_file = '[path]' in reader or reader == 'odml.load' or 'handle' in reader
    if needs_file and data is not None:
        with open(path, 'wb') as f:
            f.write(data.encode('utf-8') if isinstance(data, str) else data)
    if reader == 'odml.load':
        return h.call(odml.load, path, show_warnings=False), None
    if reader.startswith('ODMLReader.from_string'):
        return h.call(ODMLReader('XML', show_warnings=False).from_string, data), None
    if reader == 'ODMLReader.from_file[path]':
        return h.call(ODMLReader('XML', show_warnings=False).from_file, path), None
    rd = xp.XMLReader(ignore_errors='(strict)' not in reader, show_warnings=False)
    how = reader[reader.index(').') + 2:]
    handle = None
    try:
        if how.startswith('from_string'):
            r = h.call(rd.from_string, data)
        elif how == 'from_file[path]':
            r = h.call(rd.from_file, path)
        elif how == 'from_file[binary-handle]':
            handle = open(path, 'rb')
            r = h.call(rd.from_file, handle)
        elif how == 'from_file[text-handle utf-8]':
            handle = open(path, 'r', encoding='utf-8')
            r = h.call(rd.from_file, handle)
        elif how == 'from_file[BytesIO]':
            r = h.call(rd.from_file, io.BytesIO(data))
        elif how == 'from_file[StringIO]':
            r = h.call(rd.from_file, io.StringIO(data))
        else:
            raise KeyError(reader)
    finally:
        if handle is not None and not handle.closed:
            handle.close()
    return r, list(rd.warnings)


BASE_FORMS = ('bytes:utf-8/decl', 'str:nodecl', 'str:decl=UTF-8')
# XML declaration with standalone="yes": says that no declaration outside the document entity affects what the
# document means - true for every input here, and worth saying where there is a document type declaration
STANDALONE_FORMS = ('bytes:utf-8/decl-lowercase-single-quoted-standalone', 'str:decl=utf-8-single-quoted')


def select_forms(full, k, base=BASE_FORMS):
    """All input forms, or the plain ones (base) plus a window of four that moves with the case number k."""
    if full:
        return list(FORMS)
    rest = [f for f in FORMS if f.label not in base]
    pick = [rest[(4 * k + j) % len(rest)] for j in range(4)]
    return [FORM_BY_LABEL[b] for b in base] + pick


def wants_all_forms(tier, rich, body, n_doc, n_source, n_sources):
    """Fixed documents: every form for every source (quick tier: for one source that moves with the document
    number). Generated documents: the moving window (thorough tier: every form for one moving source when the
    text is not pure ASCII)."""
    turn = n_source == n_doc % n_sources
    if rich:
        return tier != 'quick' or turn
    return tier != 'quick' and turn and not body.isascii()


class Cases(object):
    """Evaluates (source, input form, reader) cases of one document and files the differences by class."""

    def __init__(self, col, agg, part, doc, label, sig, path, source_dim, contract):
        self.col, self.agg, self.part, self.doc, self.label, self.sig = col, agg, part, doc, label, sig
        self.path, self.source_dim, self.contract = path, source_dim, contract
        self.found = {}
        self.universe = []
        self.unreadable = set()
        self.orig_image = image(doc, True)
        self.orig_frozen = frozen(self.orig_image)
        self.groups = {}            # (source, content key) -> [(case, frozen image of the loaded document)]
        self._last_key = (None, None)

    def note(self, case, check, feature, obj, field, detail):
        self.found.setdefault((check, feature, obj, field), {'cases': set(), 'detail': detail})['cases'].add(case)

    def evaluate(self, source, input_label, data, reader, styled=False, expect_no_warnings=True):
        case = (source, input_label, reader)
        self.col.case(cls_key=(self.sig, source, input_label, reader),
                      sample='%s | %s | %s -> %s' % (self.label, source, input_label, reader))
        self.universe.append(case)
        (k, loaded), warns = read_input(reader, data, self.path)
        if k == 'exc':
            self.unreadable.add(case)
            self.note(case, 'reader-accepts', exc_feature(loaded), '/', None,
                      'reader raised %s: %s' % (type(loaded).__name__, str(loaded)[:200]))
            return
        if not isinstance(loaded, h.BaseDocument):
            self.unreadable.add(case)
            self.note(case, 'reader-accepts', 'no-document-returned', '/', None, 'reader returned %r' % (loaded,))
            return
        got = image(loaded, True)
        got_frozen = frozen(got)
        diffs = []
        if got_frozen != self.orig_frozen:
            diffs = compare(self.orig_image, got)
            if not diffs:       # guarded by whole-image equality so nothing is missed
                diffs.append({'clause': 'snapshot-equal', 'feature': 'unclassified', 'object': '/',
                              'detail': str(h.diff(self.orig_frozen, got_frozen))[:300]})
            for d in diffs:
                self.note(case, d['clause'], d['feature'], d['object'], d.get('field'), d['detail'])
        self.groups.setdefault((source, self.content_key(data, input_label)), []).append(
            (case, got_frozen, len(diffs)))
        if not styled and expect_no_warnings and '(strict)' in reader and warns:
            self.note(case, 'strict-no-warnings', 'warnings-on-1.1-xml', '/', None,
                      'strict reader warnings: %r' % (warns[:2],))

    def content_key(self, data, input_label):
        """Identifies the XML text an input holds: its characters after the byte order mark / XML declaration
        (whose only job is to say how the bytes are to be decoded). Inputs with the same key are the same
        bytes / the same text and what they are decoded to."""
        if self._last_key[0] is data and data is not None:
            return self._last_key[1]
        raw = data
        if raw is None:
            try:
                with open(self.path, 'rb') as f:
                    raw = f.read()
            except (IOError, OSError):
                return ('input', input_label)
        text = sniff_decode(raw) if isinstance(raw, bytes) else raw
        key = ('input', input_label) if text is None else ('text', strip_decl(text.lstrip('\ufeff')))
        self._last_key = (data, key)
        return key

    def check_agreement(self):
        """Entry points that are handed the same bytes / the same text return the same document. (Every one of
        them has to return the described document, so this follows from the other clauses; it is reported under
        its own name because 'which entry point' is then the whole story.)"""
        for (source, _key), members in self.groups.items():
            if len(set(fz for _case, fz, _n in members)) < 2:
                continue
            # reference: the described document if some entry point returned it, else the returned document
            # with the fewest differences to it (the first of those)
            ref_case, ref, _n = min(members, key=lambda m: m[2])
            off = [(case, fz) for case, fz, _n in members if fz != ref]
            # one class per kind of deviating entry point (not per input form / reader: the same text was read)
            kinds = set(input_kind(case[1]) for case, _fz in off)
            modes = set(xml_reader_mode(case[2]) for case, _fz in off)
            chain = _chain(self.source_dim, source)
            cls = {'clause': 'entry-points-agree', 'feature': 'same-input-different-document',
                   self.source_dim: chain[-2] if len(chain) > 2 else source,
                   'input': 'any-' + kinds.pop() if len(kinds) == 1 else 'any',
                   'reader': modes.pop() if len(modes) == 1 else 'any'}
            case, fz = off[0]
            self.agg.add(check='%s/entry-points-agree' % self.part, cls=cls,
                         witness={'doc': self.label, 'cases': [list(case), list(ref_case)],
                                  'deviating': len(off), 'same_text': len(members)},
                         detail='%s (%s) and %s (%s) were handed the same XML text and returned different '
                                'documents: %s; contract: %s' % (case[2], case[1], ref_case[2], ref_case[1],
                                                                 str(h.diff(ref, fz))[:200], self.contract))

    def flush(self):
        dims = (self.source_dim, 'input', 'reader')
        readable = [c for c in self.universe if c not in self.unreadable]
        self.check_agreement()
        for (check, feature, obj, field), info in self.found.items():
            # a case in which no document came back says nothing about the clauses on its content
            for lab in generalise_cases(info['cases'], self.universe if check == 'reader-accepts' else readable, dims):
                cls = {'clause': check, 'feature': feature}
                cls.update(zip(dims, lab))
                self.agg.add(check='%s/%s' % (self.part, check), cls=cls,
                             witness={'doc': self.label, 'object': obj, 'field': field,
                                      'cases': sorted(info['cases'])[:3]},
                             detail=info['detail'] + '; contract: ' + self.contract)


def native_inputs(produced, path):
    """What the writer handed out, in the forms a caller can pass on without touching it.
    -> list of (input label, data | None (= the file as written)), body text for re-encoding"""
    if isinstance(produced, str):
        body = strip_decl(produced)
        out = [('str:as-returned', produced),
               ('str:own-decl+returned', XML_DECL + body),
               ('bytes:own-decl+returned/utf-8', (XML_DECL + body).encode('utf-8'))]
        header = getattr(xp.XMLWriter, 'header', None)      # the library's own declaration + stylesheet reference
        if isinstance(header, str):
            out.append(('str:library-header+returned', header + body))
        return out, body
    text = sniff_decode(produced)
    if text is None:
        return [('file:as-written', None), ('bytes:file-content', produced)], None
    return [('file:as-written', None), ('bytes:file-content', produced), ('str:file-decoded', text)], \
        strip_decl(text)


FILE_NAMES = ['doc.xml', 'mit leer.odml', 'dätei 日本.xml', 'a%20b#c&d.xml', "q'[x]+.xml"]


def run_roundtrip(tier, seed):
    col = h.Collector(
        'C01.xml_roundtrip',
        rule='documents = harness.gen_docs (all forest shapes up to %d sections x random fillings) + fixed documents '
             '(all dtypes/value pool, every cardinality shape on section/property/value level, edge strings, every '
             'optional attribute, non-ASCII text of 5 repertoires in every text attribute, CR / CR LF in text, line '
             'breaks inside n-tuple elements) x 6 writer entry points x input forms (the output as handed out: file, '
             'file content as bytes, decoded text, returned str with/without declaration; and the same text '
             're-encoded in %d forms: utf-8 / iso-8859-1 / iso-8859-15 / windows-1252 / us-ascii / utf-16 le+be, '
             'with/without BOM and declaration, as bytes and as decoded str - all forms for the fixed documents, '
             'a moving window for the generated ones) x the reader entry points of that kind (9 for bytes: '
             'from_string, from_file path / binary handle / BytesIO, ODMLReader, odml.load, strict and lenient; '
             '3-5 for str; 3 for styled output) + 5 file names; distinct = (document content signature, writer, '
             'input form, reader)' % (3 if tier == 'quick' else 4, len(FORMS)), exhaustive=False)
    agg = Agg(col)
    work = fresh_workdir('c01_roundtrip')
    path = os.path.join(work, 'doc.xml')
    path2 = os.path.join(work, 'reencoded.xml')
    writer_raised = 0
    contract = 'loaded document equals the saved one (text after strip) or the writer raises'
    try:
        for n_doc, (label, doc, rich) in enumerate(c01_documents(tier, seed)):
            sig = doc_signature(doc)
            before = h.snap(doc, parent=False)
            cases = Cases(col, agg, 'C01.xml_roundtrip', doc, label, sig, path2, 'writer', contract)
            for n_w, (wname, _produces, styled) in enumerate(WRITERS):
                w = write_xml(wname, doc, path)
                if w[0] == 'exc':
                    # allowed by the contract ("or the writer raises"); counted, not flagged
                    writer_raised += 1
                    col.case(cls_key=(sig, wname, 'writer-raised'), sample=None)
                    continue
                produced, fpath = w[1]
                natives, body = native_inputs(produced, fpath)
                for input_label, data in natives:
                    for rname in readers_for(input_label, styled):
                        cases.path = fpath if data is None else path2
                        cases.evaluate(wname, input_label, data, rname, styled)
                if body is None:
                    continue            # nothing to re-encode; the reads of the file itself have reported it
                full = wants_all_forms(tier, rich, body, n_doc, n_w, len(WRITERS))
                if not rich and not full and (n_doc + n_w) % 2:
                    continue            # generated documents: re-encoded forms for every other writer
                for form in select_forms(full, n_doc * len(WRITERS) + n_w, base=()):   # plain ones: the natives
                    if styled and not form.fits(body):
                        continue        # character references inside the stylesheet element are not ours to write
                    data = form.build(body)
                    for rname in readers_for(form.label, styled):
                        cases.path = path2
                        cases.evaluate(wname, form.label, data, rname, styled)
            # file names: the path is no part of the document
            if rich:
                for fname in FILE_NAMES:
                    for wname, rname in (('odml.save', 'odml.load'),
                                         ('XMLWriter.write_file', 'XMLReader(strict).from_file[path]')):
                        fpath = os.path.join(work, fname)
                        w = write_xml(wname, doc, fpath)
                        if w[0] == 'exc':
                            writer_raised += 1
                            continue
                        cases.path = fpath
                        cases.evaluate(wname, 'file:as-written/name=' + ascii(fname), None, rname)
            cases.flush()
            if h.snap(doc, parent=False) != before:
                agg.add(check='C01.xml_roundtrip/writer-leaves-document-unchanged',
                        cls={'clause': 'writer-leaves-document-unchanged', 'feature': 'any'},
                        witness={'doc': label}, detail='saving/loading changed the original document: %s'
                        % h.diff(before, h.snap(doc, parent=False)))
    finally:
        drop_workdir(work)
    agg.flush()
    res = col.result()
    res['writer_raised'] = writer_raised
    return res


# ---------------------------------------------------------------------------------------------
# part 2b: round trip of documents whose values were given as native Python objects
# "Every document buildable through the public API": a value can be handed over as a time zone aware datetime, an
# instance of a subclass, a Decimal, an int beyond 64 bit, -0.0, inf ... (pool and value entry points: rcc.b_C02,
# shared with the JSON / YAML check). Whatever the document holds after such an object was accepted either comes back
# from the XML form as the same typed values, or the writer raises; it is never written in a form the reader cannot
# read back or reads back as something else. Objects the library refuses at an entry point did not happen.
# ---------------------------------------------------------------------------------------------

class _ListAgg(object):
    """Stands in for Agg where the classes get further coordinates before they are filed."""

    def __init__(self):
        self.items = []

    def add(self, check, cls, witness, detail):
        self.items.append({'check': check, 'cls': cls, 'witness': witness, 'detail': detail})


def _rotating_readers(readers, index, full):
    """All reader entry points, or one strict and one lenient one that move with the case number."""
    if full or len(readers) <= 2:
        return list(readers)
    out = []
    for mode in ('strict', 'lenient'):
        rs = [r for r in readers if xml_reader_mode(r) == mode]
        if rs:
            out.append(rs[index % len(rs)])
    return out


def _via_entry_points(objs, accepted):
    """Value entry point part of a failure class: the Properties (named after the entry point their value came
    through) a difference shows at; 'document' when it shows at no single Property."""
    eps = set()
    for o in objs:
        last = str(o).rsplit('/', 1)[-1]
        for cand in (last, last.split(':', 1)[-1]):
            if cand in accepted:
                eps.add(cand)
    if not eps:
        return 'document'
    if eps >= set(accepted):
        return 'any'
    return '+'.join(sorted(eps))


NATIVE_PART = 'C01.xml_native_values'
NATIVE_CONTRACT = 'loaded document holds the same typed values as the saved one (text after strip), or the writer ' \
                  'raises; a document is never written in a form that is not read back to it'


def _native_xml_case(col, work, label, feat, structure, doc, accepted, plain, counters, index, full, forms):
    """One document x 6 writers x the forms the output is handed out in (+ re-encoded forms) x readers.
    -> failures as keyword dicts (check, cls, witness, detail); cls carries the native object and the entry points."""
    out = []
    single = structure if structure in accepted else None       # document with one value entry point only
    path = os.path.join(work, 'native.xml')
    path2 = os.path.join(work, 'native-input.xml')
    sig = (feat, structure)
    before = h.snap(doc, parent=False)
    lst = _ListAgg()
    cases = Cases(col, lst, NATIVE_PART, doc, label, sig, path2, 'writer', NATIVE_CONTRACT)
    counters['documents'] += 1
    counters['documents_holding_only_format_types'] += 1 if plain else 0
    for n_w, (wname, _produces, styled) in enumerate(WRITERS):
        w = write_xml(wname, doc, path)
        if w[0] == 'exc':
            col.case(cls_key=(sig, wname, 'writer-raised'), sample=None)
            if plain:
                # every value is of a type the format has a form for: nothing that "cannot be represented"
                out.append({'check': NATIVE_PART + '/writer-accepts',
                            'cls': {'clause': 'writer-accepts', 'native': feat, 'feature': exc_feature(w[1]),
                                    'via': single or 'document', 'writer': wname},
                            'witness': {'doc': label, 'entry_points': accepted},
                            'detail': 'writer raised %s: %s; contract: a valid document whose values all have a form '
                                      'in odML-XML is saved' % (type(w[1]).__name__, str(w[1])[:200])})
            else:
                counters['writer_raised_for_unrepresentable_content'] += 1
            continue
        produced, fpath = w[1]
        natives, body = native_inputs(produced, fpath)
        if not full and len(natives) > 2:
            # the output as it is handed out, and one of the forms a caller can pass it on in (moving)
            natives = [natives[0], natives[1 + (index + n_w) % (len(natives) - 1)]]
        for n_i, (input_label, data) in enumerate(natives):
            for rname in _rotating_readers(readers_for(input_label, styled), index + n_w + n_i, full):
                cases.path = fpath if data is None else path2
                cases.evaluate(wname, input_label, data, rname, styled)
        if body is None or not forms:
            continue
        for form in select_forms(False, index * len(WRITERS) + n_w, base=()):
            if styled and not form.fits(body):
                continue
            data = form.build(body)
            for rname in _rotating_readers(readers_for(form.label, styled), index + n_w, full):
                cases.path = path2
                cases.evaluate(wname, form.label, data, rname, styled)
    cases.flush()
    # one class per (clause, what differs, writer / input / reader labels); the value entry points the Properties
    # concerned came through are part of the class
    grouped = {}
    # 'entry-points-agree' follows from the other clauses (see Cases.check_agreement): its own class only where it is
    # the whole story (a lenient reader gives an unreadable Property a new random id on every call)
    only_agreement = all(f['cls']['clause'] == 'entry-points-agree' for f in lst.items)
    for f in lst.items:
        if f['cls']['clause'] == 'entry-points-agree' and not only_agreement:
            continue
        key = (f['check'], tuple(sorted(f['cls'].items())))
        g = grouped.setdefault(key, {'f': f, 'objs': []})
        g['objs'].append(f['witness'].get('object'))
    for key, g in grouped.items():
        f = g['f']
        cls = dict(f['cls'])
        cls['native'] = feat
        via = _via_entry_points([o for o in g['objs'] if o], accepted)
        cls['via'] = single if (via == 'document' and single) else via
        witness = dict(f['witness'])
        witness['objects'] = sorted(set(str(o) for o in g['objs']))[:4]
        witness['entry_points'] = accepted
        out.append({'check': f['check'], 'cls': cls, 'witness': witness, 'detail': f['detail']})
    if h.snap(doc, parent=False) != before:
        out.append({'check': NATIVE_PART + '/writer-leaves-document-unchanged',
                    'cls': {'clause': 'writer-leaves-document-unchanged', 'native': feat, 'feature': 'any'},
                    'witness': {'doc': label}, 'detail': 'saving/loading changed the original document: %s'
                    % h.diff(before, h.snap(doc, parent=False))})
    return out


def run_native_roundtrip(tier, seed):
    from rcc import b_C02 as c2          # b_C02 imports this module: import when called
    n_objects = sum(len(v) for v in c2.NATIVE_POOL.values())
    col = h.Collector(
        NATIVE_PART,
        rule='documents whose values were given as native Python objects that are legitimate but unusual (pool of '
             'rcc.b_C02: per dtype and for the inferred dtype time zone aware datetimes / times, subclass instances, '
             'microseconds, fold, years 1 / 999 / 9999, date for datetime and vice versa, bool / float / Decimal / '
             'Fraction for int and float, ints beyond 64 bit, -0.0, inf, nan, native tuples / lists for n-tuples: %d '
             'objects) x %d value entry points (constructor list / scalar / among plain values, values=, value=, append, '
             'extend, insert strict / lenient / into an empty Property, [i]=, extend by a Property, merge, clone, '
             'create_property): one document per object with a Property per accepting entry point%s, and generated '
             'documents with such Properties at random places; each x 6 XML writer entry points (plain, local_style, '
             'custom_template; string and file) x the forms the output is handed out in (file, file content as bytes, '
             'decoded text, returned str with / without declaration%s) x reader entry points (strict and lenient; %s); '
             'a writer may raise only for a document holding something the format has no form for; distinct = (native '
             'object, structure, writer, input form, reader)'
             % (n_objects, len(c2.VALUE_ENTRY_POINTS),
                '' if tier == 'quick' else ', one per ordered pair of objects of a dtype in one list',
                '' if tier == 'quick' else '; for the per-object documents also a moving window of re-encoded forms',
                'the output as handed out + one moving further form per writer, one strict and one lenient reader per '
                'input, moving with the case number' if tier == 'quick' else
                'all forms and readers for the per-object documents; for the others the output as handed out + one '
                'moving further form, one strict and one lenient reader per input'),
        exhaustive=False)
    agg = Agg(col)
    work = fresh_workdir('c01_native')
    counters = {'inputs_refused_at_every_entry_point': [], 'writer_raised_for_unrepresentable_content': 0,
                'documents': 0, 'documents_holding_only_format_types': 0, 'documents_split_by_entry_point': 0}

    def unclassed(f):
        cls = dict(f['cls'])
        cls.pop('via', None)
        return (f['check'], tuple(sorted(cls.items()))), cls

    try:
        for n, (label, feat, structure, doc, accepted, dtype, objs) in enumerate(c2.native_documents(tier, seed)):
            if doc is None:
                counters['inputs_refused_at_every_entry_point'].append(feat)
                continue
            if not c2.valid_document(doc):
                continue
            per_object = structure == 'all-entry-points'
            full = tier != 'quick' and per_object
            fails = _native_xml_case(col, work, label, feat, structure, doc, accepted,
                                     c2.holds_only_format_types(doc), counters, n, full, forms=full)
            split = per_object and len(accepted) > 1 and any(f['cls'].get('via') == 'document' for f in fails)
            for f in fails:
                if not (split and f['cls'].get('via') == 'document'):
                    agg.add(**f)
            if not split:
                continue
            # the file as a whole failed (not read at all, a Property missing): one document per value entry point
            # tells which entry points are concerned, and uncovers what the failure of the whole file hides
            counters['documents_split_by_entry_point'] += 1
            per_class = {}
            for ep in accepted:
                doc1, acc1 = c2.native_doc(dtype, objs, [ep])
                if not acc1 or not c2.valid_document(doc1):
                    continue
                for f in _native_xml_case(col, work, 'native[%s]%s' % (feat, ep), feat, ep, doc1, acc1,
                                          c2.holds_only_format_types(doc1), counters, n, False, forms=False):
                    key, cls = unclassed(f)
                    per_class.setdefault(key, {'f': f, 'cls': cls, 'eps': []})['eps'].append(ep)
            for key, g in per_class.items():
                cls = dict(g['cls'])
                cls['via'] = 'any' if set(g['eps']) >= set(accepted) else '+'.join(sorted(set(g['eps'])))
                agg.add(check=g['f']['check'], cls=cls, witness=g['f']['witness'], detail=g['f']['detail'])
            for f in fails:
                # a failure of the whole file that no single entry point reproduces stays as it is
                if f['cls'].get('via') == 'document' and unclassed(f)[0] not in per_class:
                    agg.add(**f)
    finally:
        drop_workdir(work)
    agg.flush()
    res = col.result()
    res.update(counters)
    return res


# ---------------------------------------------------------------------------------------------
# part 3: vocabulary
# ---------------------------------------------------------------------------------------------

def vocabulary_problems(root, styled):
    """Problems of a stdlib-ElementTree tree against the 1.1 vocabulary: list of (feature, detail)."""
    out = []
    if root.tag != 'odML':
        return [('root-tag', 'root element is <%s>' % root.tag)]
    if dict(root.attrib) != {'version': FORMAT_VERSION_11}:
        out.append(('root-version-attribute', 'root attributes are %r' % dict(root.attrib)))
    foreign = 0
    stack = [root]
    while stack:
        node = stack.pop()
        allowed = VOCAB[node.tag]
        for child in list(node):
            if node is root and styled and child.tag == XSL_STYLESHEET_TAG:
                foreign += 1
                continue
            if child.tag not in allowed:
                out.append(('foreign-element:%s-in-%s' % (child.tag, node.tag),
                            '<%s> inside <%s>' % (child.tag, node.tag)))
                continue
            if child.attrib:
                out.append(('attribute-on-element:%s' % child.tag, repr(dict(child.attrib))))
            if child.tag in ('section', 'property'):
                stack.append(child)
            elif len(child):
                out.append(('children-in-leaf:%s' % child.tag, [c.tag for c in child][:3]))
    if styled and foreign != 1:
        out.append(('stylesheet-elements', 'styled output holds %d stylesheet elements, expected 1' % foreign))
    return out


def format_table_problems():
    """The library's own format tables must describe the same vocabulary (they drive writer and reader)."""
    from odml import format as ofmt
    out = []
    for fmt, tag in ((ofmt.Document, 'odML'), (ofmt.Section, 'section'), (ofmt.Property, 'property')):
        keys = set(fmt._args.keys())
        if fmt._name != tag:
            out.append(('format-name:%s' % tag, 'format name is %r' % fmt._name))
        if keys != VOCAB[tag]:
            out.append(('format-keys:%s' % tag, 'format.py has %r, odML 1.1 has %r'
                        % (sorted(keys ^ VOCAB[tag]), sorted(VOCAB[tag]))))
    return out


def run_vocabulary(tier, seed):
    col = h.Collector(
        'C01.xml_vocabulary',
        rule='every document of the round-trip generator x 6 writer entry points; the written bytes are parsed with '
             'xml.etree.ElementTree and every element checked against the 1.1 vocabulary of its parent; distinct = '
             '(document content signature, writer)', exhaustive=False)
    agg = Agg(col)
    work = fresh_workdir('c01_vocab')
    path = os.path.join(work, 'doc.xml')
    try:
        col.case(cls_key='format-tables', sample='odml/format.py _args vs 1.1 vocabulary')
        for feature, detail in format_table_problems():
            agg.add(check='C01.xml_vocabulary/format-tables', cls={'clause': 'format-tables', 'feature': feature},
                    witness={'table': feature}, detail=str(detail))
        for label, doc, _rich in c01_documents(tier, seed):
            sig = doc_signature(doc)
            n_secs, n_props = map(len, h.walk(doc))
            for wname, _produces, styled in WRITERS:
                col.case(cls_key=(sig, wname), sample='%s | %s' % (label, wname))
                w = write_xml(wname, doc, path)
                if w[0] == 'exc':
                    continue
                try:
                    root = StdET.parse(path).getroot()
                except StdET.ParseError as exc:
                    agg.add(check='C01.xml_vocabulary/well-formed-xml',
                            cls={'clause': 'well-formed-xml', 'feature': 'stdlib-parse-error', 'writer': wname},
                            witness={'doc': label, 'writer': wname}, detail=str(exc))
                    continue
                for feature, detail in vocabulary_problems(root, styled):
                    agg.add(check='C01.xml_vocabulary/only-1.1-elements',
                            cls={'clause': 'only-1.1-elements', 'feature': feature,
                                 'writer': 'styled' if styled else 'plain'},
                            witness={'doc': label, 'writer': wname}, detail=str(detail))
                # the output describes every object of the document (nothing silently left out)
                got_s = sum(1 for _ in root.iter('section'))
                got_p = sum(1 for _ in root.iter('property'))
                if (got_s, got_p) != (n_secs, n_props):
                    agg.add(check='C01.xml_vocabulary/all-objects-written',
                            cls={'clause': 'all-objects-written', 'feature': 'element-count'},
                            witness={'doc': label, 'writer': wname},
                            detail='document has %d sections / %d properties, XML has %d / %d'
                                   % (n_secs, n_props, got_s, got_p))
    finally:
        drop_workdir(work)
    agg.flush()
    return col.result()


# ---------------------------------------------------------------------------------------------
# part 4: foreign writer
# ---------------------------------------------------------------------------------------------

def csv_field(s, force=False):
    if force or any(c in s for c in ',"\n\r') or s != s.strip():
        return '"' + s.replace('"', '""') + '"'
    return s


def value_text(p):
    """Text of the <value> element in the reader's documented syntax, or None for no value."""
    vals = list(p._values)
    if not vals:
        return None
    dtype = p._dtype or 'string'
    if dtype.endswith('-tuple'):
        return '[' + ','.join(csv_field('(' + ';'.join(t) + ')') for t in vals) + ']'
    items = []
    for v in vals:
        if isinstance(v, dt.datetime):
            items.append(v.strftime('%Y-%m-%d %H:%M:%S'))
        elif isinstance(v, dt.date):
            items.append(v.strftime('%Y-%m-%d'))
        elif isinstance(v, dt.time):
            items.append(v.strftime('%H:%M:%S'))
        elif isinstance(v, float):
            items.append(repr(v))
        else:
            items.append(str(v))
    if len(items) == 1:
        s = items[0]
        if s == '' or s != s.strip() or (s[0] == '[' and s[-1] == ']'):
            return '[' + csv_field(s, force=True) + ']'      # one-element list, so it cannot be mistaken
        return s
    return '[' + ','.join(csv_field(s) for s in items) + ']'


def card_text(c):
    return '(%s, %s)' % (c[0], c[1])


def foreign_tree(doc, reordered=False):
    """The document as a tree of odML 1.1 elements: (tag, text | None, children) read from private fields.
    reordered: another legal arrangement (sub sections before properties, leaf elements in reverse order);
    the order among sections and among properties is part of the document and stays."""
    def leaves(pairs):
        out = [(tag, text, ()) for tag, text in pairs if text is not None]
        return out[::-1] if reordered else out

    def prop_el(p):
        return ('property', None, leaves([
            ('name', p._name), ('id', p._id), ('type', p._dtype), ('value', value_text(p)), ('unit', p._unit),
            ('uncertainty', None if p._uncertainty is None else repr(p._uncertainty)),
            ('definition', p._definition), ('reference', p._reference), ('dependency', p._dependency),
            ('dependencyvalue', p._dependency_value), ('value_origin', p._value_origin),
            ('val_cardinality', None if p._val_cardinality is None else card_text(p._val_cardinality))]))

    def sec_el(s):
        head = leaves([
            ('name', s._name), ('type', s.type), ('id', s._id), ('definition', s._definition),
            ('reference', s._reference),
            ('sec_cardinality', None if s._sec_cardinality is None else card_text(s._sec_cardinality)),
            ('prop_cardinality', None if s._prop_cardinality is None else card_text(s._prop_cardinality))])
        props = [prop_el(p) for p in list.__iter__(s._props)]
        secs = [sec_el(c) for c in list.__iter__(s._sections)]
        return ('section', None, head + (secs + props if reordered else props + secs))

    head = leaves([('author', doc._author), ('version', doc._version),
                   ('date', None if doc._date is None else doc._date.strftime('%Y-%m-%d')), ('id', doc._id)])
    return ('odML', None, head + [sec_el(s) for s in list.__iter__(doc._sections)])


def xml_text(text, style):
    """Character data for `text` in one of the spellings XML offers."""
    if style == 'cdata' and '\r' not in text:
        return '<![CDATA[' + text.replace(']]>', ']]]]><![CDATA[>') + ']]>'
    if style == 'charref':
        return ''.join('&#x%X;' % ord(ch) if (ch in '&<>"\'\r\n\t' or ord(ch) > 126) else ch for ch in text)
    # a literal CR would be read as LF (XML 2.11): it has to be a character reference
    return text.replace('&', '&amp;').replace('<', '&lt;').replace('>', '&gt;').replace('\r', '&#13;')


# ---------------------------------------------------------------------------------------------
# internal general entities: a document type declaration with an internal subset may declare entities,
# and a reference &name; in content stands for the replacement text (XML 1.0, 4.1 / 4.4 / 4.5). Written from
# the recommendation; what the text means is cross-checked with expat for every input (run_foreign_writer).
# Only internal entities: nothing here makes a processor fetch anything (no external subset, no external or
# parameter entities), so standalone="yes" is a true statement about these files.
# ---------------------------------------------------------------------------------------------
def entity_literal(text, alt=False):
    """EntityValue (to go between double quotes) of an entity whose reference in content yields exactly the
    character data `text`. Character references in a literal are expanded when the declaration is read, entity
    references are kept and expanded when the replacement text is included (4.4.5, 4.4.7, appendix D), hence
    the two spellings of the markup characters: &lt; (kept) and &#38;#60; (-> &#60; -> <)."""
    out = []
    for ch in text:
        if ch == '&':
            out.append('&#38;#38;' if alt else '&amp;')
        elif ch == '<':
            out.append('&#38;#60;' if alt else '&lt;')
        elif ch == '>':
            out.append('&#38;#62;' if alt else '&gt;')
        elif ch == '%':
            out.append('&#37;')                 # would start a parameter entity reference
        elif ch == '"':
            out.append('&#34;')                 # the delimiter
        elif ch == '\r':
            out.append('&#38;#13;')             # as a character reference when included: no line end handling
        else:
            out.append(ch)
    return ''.join(out)


class EntitySpelling(object):
    """Spells character data with references to internal general entities and collects the declarations.
    plan: 'whole'  the whole text of every element is one reference (equal texts share one entity)
          'parts'  leading / trailing / inner part, several references side by side, a reference to an entity
                   with empty replacement text - moving with the number of the text
          'nested' the replacement text of the referenced entity refers to further entities (2 or 3 levels),
                   declared before or after the entity that refers to them"""

    def __init__(self, plan):
        self.plan = plan
        self.names = {}
        self.decls = []         # (name, literal) in the order of declaration
        self.count = 0

    def ref(self, text, literal=None, key=None, at=None):
        if text == '':
            return ''
        key = ('text', text) if key is None else key
        if key not in self.names:
            name = 'e%d' % len(self.names)
            self.names[key] = name
            lit = entity_literal(text, alt=len(self.names) % 2 == 0) if literal is None else literal
            self.decls.insert(len(self.decls) if at is None else at, (name, lit))
        return '&%s;' % self.names[key]

    def nested(self, parts, level):
        """Reference to an entity for ''.join(parts) whose replacement text holds the middle part as a reference
        (itself nested while level > 1); the outer entity is declared before the inner one for every other text."""
        head, mid, tail = parts
        text = head + mid + tail
        key = ('nested', level, text)
        if text == '' or key in self.names:
            return self.ref(text, key=key)
        at = len(self.decls) if self.count % 2 else None
        if level > 1 and len(mid) > 1:
            inner = self.nested((mid[:len(mid) // 2], mid[len(mid) // 2:], ''), level - 1)
        else:
            inner = self.ref(mid)
        return self.ref(text, literal=entity_literal(head) + inner + entity_literal(tail, alt=True), key=key, at=at)

    def spell(self, text):
        k = self.count
        self.count += 1
        if text == '':
            return ''
        if self.plan == 'whole':
            return self.ref(text)
        a, b = len(text) // 3, (2 * len(text) + 2) // 3
        head, mid, tail = text[:a], text[a:b], text[b:]
        esc = lambda t: xml_text(t, 'escaped')                              # noqa: E731
        if self.plan == 'nested':
            return self.nested((head, mid, tail), 1 + (k // 2) % 2)
        pattern = k % 5
        if pattern == 0:
            return self.ref(head + mid) + esc(tail)
        if pattern == 1:
            return esc(head) + self.ref(mid + tail)
        if pattern == 2:
            return esc(head) + self.ref(mid) + esc(tail)
        if pattern == 3:
            return self.ref(head) + self.ref(mid) + self.ref(tail)
        return esc(head) + '&nil;' + self.ref(mid) + '&nil;' + esc(tail)     # nil: declared in every subset

    def doctype(self, extras, attribute_entity):
        lines = ['<!DOCTYPE odML [']
        if extras:
            # what else an internal subset may hold without changing the document a non-validating processor
            # reports: comment, processing instruction, element / attribute-list / notation declarations
            # (no default values), an entity nobody refers to
            lines += ['  <!-- internal subset written by another tool: < & > -->',
                      '  <?tool keep="entities"?>',
                      '  <!ELEMENT value (#PCDATA)>',
                      '  <!ATTLIST odML version CDATA #REQUIRED>',
                      '  <!NOTATION plain PUBLIC "text/plain">',
                      '  <!ENTITY unused "never referenced &amp; harmless">']
        lines.append('  <!ENTITY nil "">')
        if attribute_entity:
            lines.append('  <!ENTITY fv "%s">' % FORMAT_VERSION_11)
        for name, lit in self.decls:
            lines.append('  <!ENTITY %s "%s">' % (name, lit))
        lines.append(']>')
        return '\n'.join(lines) + '\n'


# name -> (text style, indented, comments and processing instruction, reordered, CR LF line ends)
VARIANTS = {
    'escaped/compact': ('escaped', False, False, False, False),
    'escaped/indented+comments+pi+reordered': ('escaped', True, True, True, False),
    'cdata/indented': ('cdata', True, False, False, False),
    'charref/compact+reordered': ('charref', False, False, True, False),
    'escaped/indented+crlf': ('escaped', True, False, False, True),
    # document type declaration with internal general entities (style 'entity-<plan>', see EntitySpelling);
    # 'comments' here also fills the internal subset with the other declarations it may hold
    'entities-whole/compact': ('entity-whole', False, False, False, False),
    'entities-parts/indented+comments+pi+subset-declarations': ('entity-parts', True, True, False, False),
    'entities-nested/compact+reordered+version-attribute': ('entity-nested', False, False, True, False),
}
ENTITY_VARIANTS = [v for v in VARIANTS if v.startswith('entities-')]
PLAIN_VARIANTS = [v for v in VARIANTS if not v.startswith('entities-')]


def foreign_body(doc, variant):
    """Independent odML 1.1 XML serializer (own code, private fields only): root element without declaration
    (entity spellings: preceded by the document type declaration)."""
    style, indented, comments, reordered, crlf = VARIANTS[variant]
    entities = EntitySpelling(style[len('entity-'):]) if style.startswith('entity-') else None
    version_by_entity = entities is not None and entities.plan == 'nested'
    out = []

    def emit(node, depth):
        tag, text, children = node
        pad = '\n' + '  ' * depth if indented else ''
        if tag == 'odML':
            out.append('<odML version="%s">' % ('&fv;' if version_by_entity else FORMAT_VERSION_11))
        else:
            out.append('%s<%s>' % (pad, tag))
        if text is not None:
            out.append(entities.spell(text) if entities else xml_text(text, style))
        for i, child in enumerate(children):
            if comments and child[0] in ('section', 'property', 'value') and i % 2 == 0:
                out.append('%s  <!-- a comment: é < & > -->' % pad)
            emit(child, depth + 1)
        if children:
            out.append(pad)
        out.append('</%s>' % tag)

    if comments:
        out.append('<?xml-stylesheet type="text/xsl" href="other.xsl"?>\n<!-- written by another tool -->\n')
    prolog = len(out)
    emit(foreign_tree(doc, reordered), 0)
    if entities:
        out.insert(prolog, entities.doctype(extras=comments, attribute_entity=version_by_entity))
    if comments:
        out.append('\n<!-- end -->')
    body = ''.join(out) + '\n'
    return body.replace('\n', '\r\n') if crlf else body


def foreign_xml(doc):
    return foreign_body(doc, 'escaped/compact')


def std_image(root):
    """Tag / text structure of a stdlib ElementTree element (leaf text only)."""
    kids = list(root)
    return (root.tag, tuple(sorted(root.attrib.items())), None if kids else (root.text or ''),
            tuple(std_image(k) for k in kids))


def tree_image(node):
    tag, text, children = node
    return (tag, (('version', FORMAT_VERSION_11),) if tag == 'odML' else (), None if children else (text or ''),
            tuple(tree_image(c) for c in children))


def select_variants(rich, k, tier):
    """Fixed documents: all spellings (quick tier: all spellings without a document type declaration and one of
    those with entities); a generated document: the plain spelling, one (thorough tier: two) of the others without
    and, every other document, one with entities. The choice moves with the document number."""
    if rich:
        ents = [ENTITY_VARIANTS[(k + j) % len(ENTITY_VARIANTS)] for j in range(len(ENTITY_VARIANTS))]
        return PLAIN_VARIANTS + (ents[:1] if tier == 'quick' else ents)
    others = PLAIN_VARIANTS[1:]
    ents = [ENTITY_VARIANTS[(k // 2) % len(ENTITY_VARIANTS)]] if k % 2 == 0 else []
    return [PLAIN_VARIANTS[0]] + [others[(k + j) % len(others)] for j in range(1 if tier == 'quick' else 2)] + ents


def run_foreign_writer(tier, seed):
    col = h.Collector(
        'C01.xml_foreign_writer',
        rule='every document of the round-trip generator serialised by an independent writer (1.1 vocabulary, values '
             'in the documented syntax) in %d spellings (text escaped / CDATA / character references; compact / '
             'indented / CR LF line ends; comments and a processing instruction; other element order; document type '
             'declaration with internal general entities: whole element texts, leading / inner / trailing parts, '
             'adjacent references, empty replacement text, markup characters in replacement text as &lt; and as '
             '&#38;#60;, entities nested 2-3 levels declared before / after use, other declarations in the internal '
             'subset, the version attribute through an entity; all of them also with standalone="yes") x %d input '
             'forms (utf-8 / iso-8859-1 / iso-8859-15 / windows-1252 / us-ascii / utf-16 le+be, with/without BOM '
             'and declaration, as bytes and as decoded str whatever its declaration says; characters outside the '
             'encoding as character references) x the reader entry points of that kind (9 for bytes, 3-5 for str); '
             'all combinations for the fixed documents, a moving window for the generated ones; every input is first '
             'parsed with xml.etree (expat) and must describe the tree that was serialised; the documents returned '
             'for inputs that hold the same text are compared with each other; distinct = (document content '
             'signature, spelling, input form, reader)' % (len(VARIANTS), len(FORMS)), exhaustive=False)
    agg = Agg(col)
    work = fresh_workdir('c01_foreign')
    path = os.path.join(work, 'doc.xml')
    contract = '1.1 XML from another tool loads to the document it describes'
    try:
        for n_doc, (label, doc, rich) in enumerate(c01_documents(tier, seed)):
            sig = doc_signature(doc)
            cases = Cases(col, agg, 'C01.xml_foreign_writer', doc, label, sig, path, 'spelling', contract)
            variants = select_variants(rich, n_doc, tier)
            for n_v, variant in enumerate(variants):
                body = foreign_body(doc, variant)
                described = tree_image(foreign_tree(doc, VARIANTS[variant][3]))
                # sanity of my own writer: vocabulary-conformant
                own = vocabulary_problems(StdET.fromstring(body), styled=False)
                if own:
                    raise AssertionError('foreign writer is not 1.1 conformant: %r' % (own[:3],))
                full = wants_all_forms(tier, rich, body, n_doc, n_v, len(variants))
                base = BASE_FORMS + (STANDALONE_FORMS if rich and variant in ENTITY_VARIANTS else ())
                for form in select_forms(full, n_doc * len(VARIANTS) + n_v, base=base):
                    if VARIANTS[variant][0] == 'cdata' and not form.fits(body):
                        continue        # no character references inside CDATA
                    data = form.build(body)
                    # sanity of the input: an independent XML processor reads the serialised tree from it
                    if std_image(StdET.fromstring(data)) != described:
                        raise AssertionError('input %s / %s does not describe the document' % (variant, form.label))
                    for rname in readers_for(form.label):
                        cases.evaluate(variant, form.label, data, rname)
            cases.flush()
    finally:
        drop_workdir(work)
    agg.flush()
    return col.result()
