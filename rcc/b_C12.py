"""
Bounded stand-in for C12 - resolving links and includes only adds copies; cleaning restores the document.

Documents: every forest shape up to N Sections (all Section names distinct and prefixes of one another, every
Section with own Properties, some with definition/reference), every admissible (linking Section L, target T)
pair [T is not L, not an ancestor and not a descendant of L] x path form (absolute | relative) x own children
of L (none | other names | same names ...); combinations of two and three links [no target is, contains or
lies inside a linking Section]; includes through file: URLs of documents saved under /verif/.work/c12.

Naming dimension (NAMINGS): the same scenarios over documents whose Sections and Properties - targets, linking
Sections, their children and ancestors, at every depth - are unnamed (name == id, reached in several ways), carry
the id of another object as name, have siblings whose names differ only in letter case / surrounding blanks /
Unicode normalisation, have a Property named like a sibling Section, have non-ASCII names or names with characters
that mean something in paths, URLs or file formats; and over documents that were not built by hand but cloned or
loaded from a file (ORIGINS). Own children of the linking Section there also: names that differ from names of the
target's children only in case / blanks / normalisation (different names: restoration law applies), a child named like
a child of the other kind of the target (nothing demanded or forbidden for that child), a Property of the target's
name with values of another data type (first sentence only).

Tree-position dimension (position_scenarios): pairs of name paths (linking Section, target) in which names are NOT distinct -
the same name at the same depth in the other branch (/x/k/l -> /y/k/t, /s1/stim -> /s2/stim), at another depth, repeated
along one path (a/b/a), names that are character prefixes of one another (also as siblings at the branch point); 0..2 common
ancestors, linking Section and target 1..4 levels below the branch point (target above / beside / below, either at top level),
absolute and relative link text, either branch first. After every clean the stored link is resolved with the own exact-name
resolver and must designate the target object; the next finalize must give the same copies (reference-kept, refinalize-same).

Clauses: copies-present (one copy per unused name, equal content, same name, not the target's own object),
only-copies-added (exact multiset of (kind, name) of the children; every new child is one copy of a child of the target),
target-unchanged, rest-unchanged, finalize-idempotent, finalize-returns / clean-returns, clean-restores (exact, incl. ids
and identities), reference-kept, refinalize-same, file-has-reference-only (after the first and after the last clean,
read without the library), load-saved / loaded-equals-cleaned and the same cycle on the loaded document.

The oracle keeps snapshots (rcc.harness) and resolves stored paths with its own resolver on private fields.
Nothing is written outside /verif/.work/c12 (the library's download cache is redirected there as well).
"""
from __future__ import annotations

import itertools
import json
import os
import random
import shutil
import tempfile
import unicodedata
import uuid

from rcc import harness as h

odml = h.odml
BaseSection, BaseDocument = h.BaseSection, h.BaseDocument

WORK = os.path.join(h.WORK, 'c12-%d' % os.getpid())     # per process: concurrent runs do not share files
SEC_NAMES = ['a', 'ab', 'b', 'a b', 'abc', 'ba', 'bab']


class Col(h.Collector):
    """Keeps at most 3 failures per (check, cls) so that a frequent class cannot hide the others."""
    def __init__(self, *a, **kw):
        super(Col, self).__init__(*a, **kw)
        self.max_failures = 400
        self.per_class = {}

    def fail(self, check, cls, witness, detail):
        key = (check, tuple(sorted(cls.items())))
        self.per_class[key] = self.per_class.get(key, 0) + 1
        if self.per_class[key] <= 3:
            super(Col, self).fail(check, cls, witness, detail)


# ---------------------------------------------------------------------------------------------
# environment: scratch directory, cache redirection, no background threads
# ---------------------------------------------------------------------------------------------

class Env(object):
    def __enter__(self):
        import odml.terminology as terminology
        self.terminology = terminology
        shutil.rmtree(WORK, ignore_errors=True)
        os.makedirs(os.path.join(WORK, 'tmp'))
        self.old_tmp = tempfile.tempdir
        tempfile.tempdir = os.path.join(WORK, 'tmp')
        terminology.terminologies.clear()
        terminology.terminologies.loading.clear()
        return self

    def __exit__(self, *exc):
        self.terminology.terminologies.clear()
        tempfile.tempdir = self.old_tmp
        shutil.rmtree(WORK, ignore_errors=True)
        return False

    def publish(self, doc, fname):
        """Save `doc` under WORK and load it through the library's terminology loader *now*, so that no
        deferred loading thread is ever started for this URL.  Returns (url, loaded document)."""
        path = os.path.join(WORK, fname)
        with h.quiet():
            odml.save(doc, path, 'XML')
        url = 'file://' + path
        kind, term = h.call(self.terminology.load, url)
        if kind == 'exc' or term is None:
            raise RuntimeError('cannot publish %s: %r' % (url, term))
        return url, term


# ---------------------------------------------------------------------------------------------
# specs
# ---------------------------------------------------------------------------------------------

def count_nodes(forest):
    return sum(1 + count_nodes(sub) for sub in forest)


def shape_index(shape):
    """[(index, parent index or None)] in pre-order."""
    out = []
    counter = itertools.count()

    def rec(forest, par):
        for sub in forest:
            k = next(counter)
            out.append((k, par))
            rec(sub, k)
    rec(shape, None)
    return out


def relatives(parents):
    anc = {}
    for k, par in parents:
        anc[k] = []
        p = par
        while p is not None:
            anc[k].append(p)
            p = dict(parents)[p]
    return anc


def admissible_single(shape):
    parents = shape_index(shape)
    anc = relatives(parents)
    n = len(parents)
    return [(l, t) for l in range(n) for t in range(n) if l != t and t not in anc[l] and l not in anc[t]]


def admissible_sets(shape, k):
    """All sets of k links [(L, T)] obeying the quantifier's exclusions."""
    parents = shape_index(shape)
    anc = relatives(parents)
    single = admissible_single(shape)

    def related(x, y):
        return x == y or x in anc[y] or y in anc[x]
    out = []
    for combo in itertools.combinations(single, k):
        ls = [l for l, _ in combo]
        if len(set(ls)) != len(ls):
            continue
        if any(related(t, l) for _, t in combo for l in ls):
            continue
        out.append(list(combo))
    return out


def sec_attrs(k, rich):
    """Deterministic attributes of Section k."""
    definition = [None, 'definition of %d' % k, None, 'Def %d' % k][k % 4] if rich else None
    reference = ['ref %d' % k, None, None][k % 3] if rich else None
    return definition, reference


# plain values only: the fidelity of save/load for difficult values belongs to C01/C02
PROP_SETS = [
    [('p%d', 'int', [1, 2])],
    [('p%d', 'string', ['x', 'y z']), ('q%d', 'float', [1.5])],
    [('p%d', 'date', ['2020-01-02'])],
    [('p%d', 'boolean', [True]), ('q%d', 'string', ['single']), ('r%d', 'int', [3])],
]

OWN = ['none', 'other-names', 'same-name-property', 'same-name-section', 'same-name-section-other-type',
       'same-name-property-other-dtype']
RESTORING = ('none', 'other-names')
# further variants used with the naming modes: own children whose names nearly are names of the target's children
# (restoration law applies: the names are different), own children named like a child of the *other* kind of the target
# (the statement does not say whether such a name counts as used: nothing is demanded or forbidden for that child)
NAMED_RESTORING = ('none', 'other-names', 'near-miss-names')
NAMED_OWN = list(NAMED_RESTORING) + ['same-name-property', 'same-name-section', 'same-name-section-other-type', 'cross-kind-same-name']


def spec_abs_path(shape, k):
    parents = dict(shape_index(shape))
    names = []
    while k is not None:
        names.insert(0, SEC_NAMES[k])
        k = parents[k]
    return '/' + '/'.join(names)


def spec_rel_path(shape, a, b):
    """Own computation of the relative path from Section a to Section b: up to the closest common container, then down."""
    pa, pb = spec_abs_path(shape, a).split('/')[1:], spec_abs_path(shape, b).split('/')[1:]
    i = 0
    while i < len(pa) and i < len(pb) and pa[i] == pb[i]:
        i += 1
    return '../' * (len(pa) - i) + '/'.join(pb[i:])


def build_doc(shape, rich=True, tuple_props=False, link=None, include=None, prefix=''):
    """Document over the shape; returns (doc, [Section per pre-order index]).
    link / include: {index: text} stored (unresolved) through the Section constructor, as the parsers do."""
    secs = []
    link, include = link or {}, include or {}
    with h.quiet():
        doc = odml.Document(author='me', version='1')
        counter = itertools.count()

        def add(parent, forest):
            for sub in forest:
                k = next(counter)
                definition, reference = sec_attrs(k, rich)
                s = odml.Section(name=prefix + SEC_NAMES[k], type=['t', 'setup/daq'][k % 2], parent=parent,
                                 definition=definition, reference=reference, link=link.get(k), include=include.get(k))
                secs.append(s)
                for pn, dtype, vals in PROP_SETS[k % len(PROP_SETS)]:
                    odml.Property(name=prefix + pn % k, dtype=dtype, values=list(vals), parent=s,
                                  unit='mV' if k % 2 else None, definition='pdef' if k % 3 == 0 else None)
                if tuple_props:
                    odml.Property(name='tup%d' % k, dtype='2-tuple', values=['(1;2)'], parent=s)
                add(s, sub)
        add(doc, shape)
    return doc, secs


def children_of(sec):
    return list(list.__iter__(sec._sections)), list(list.__iter__(sec._props))


def add_own_children(link_sec, target, own, namer=None, salt=0):
    """Give the linking Section own children according to the variant. Returns False if not applicable."""
    tsecs, tprops = children_of(target)
    with h.quiet():
        if own == 'none':
            return True
        if own == 'other-names' and namer is not None:
            namer.own_children(link_sec, target)
            return True
        if own == 'near-miss-names':
            if not tsecs and not tprops:
                return False
            taken = {c._name for c in tsecs + tprops} | {c._name for c in sum(children_of(link_sec), [])}
            for i, c in enumerate([tsecs[salt % len(tsecs)]] if tsecs else []):
                free = [n for n in near_misses(c._name) if n not in taken]
                nm = free[(salt + i) % len(free)]
                taken.add(nm)
                s = odml.Section(name=nm, type=c.type, parent=link_sec, definition='own, nearly named like a child of the target')
                odml.Property(name='inner own', values=[1], parent=s)
            for i, c in enumerate([tprops[salt % len(tprops)]] if tprops else []):
                free = [n for n in near_misses(c._name) if n not in taken]
                nm = free[(salt + i + 1) % len(free)]
                taken.add(nm)
                odml.Property(name=nm, dtype=c._dtype, values=list(c._values)[:1] or None, parent=link_sec)
            return True
        if own == 'cross-kind-same-name':
            mine_s, mine_p = children_of(link_sec)
            done = False
            both = {m._name for m in tsecs} & {m._name for m in tprops}
            for c in [c for c in tsecs if c._name not in both and c._name not in {m._name for m in mine_s + mine_p}][:1]:
                odml.Property(name=c._name, values=['own Property named like a child Section of the target'], parent=link_sec)
                done = True
            for c in [c for c in tprops if c._name not in both and c._name not in {m._name for m in mine_s + mine_p}][:1]:
                odml.Section(name=c._name, type='t', parent=link_sec)
                done = True
            return done
        if own == 'other-names':
            s = odml.Section(name='own sec', type='t', parent=link_sec, definition='own')
            odml.Property(name='ownp', values=['o'], parent=s)
            odml.Property(name='own prop', values=[7], parent=link_sec)
            return True
        mine_s, mine_p = children_of(link_sec)
        if own == 'same-name-property':
            tprops = [c for c in tprops if c._name not in {m._name for m in mine_p}]
            if not tprops:
                return False
            tp = tprops[0]
            odml.Property(name=tp._name, dtype=tp._dtype, values=list(tp._values)[:1] or None, parent=link_sec)
            return True
        if own == 'same-name-property-other-dtype':
            # an own Property whose values have nothing in common with those of the target's Property of that name
            tprops = [c for c in tprops if c._name not in {m._name for m in mine_p}]
            if not tprops:
                return False
            tp = tprops[0]
            if tp._dtype in ('int', 'float', 'boolean'):
                odml.Property(name=tp._name, dtype='date', values=['2020-01-02'], parent=link_sec)
            else:
                odml.Property(name=tp._name, dtype='int', values=[5], parent=link_sec)
            return True
        tsecs = [c for c in tsecs if c._name not in {m._name for m in mine_s}]
        if not tsecs:
            return False
        ts = tsecs[0]
        typ = ts.type if own == 'same-name-section' else 'different/type'
        s = odml.Section(name=ts._name, type=typ, parent=link_sec)
        odml.Property(name='inner own', values=[1], parent=s)
        return True


# ---------------------------------------------------------------------------------------------
# naming modes: how the Sections and Properties of a document got their names
# ---------------------------------------------------------------------------------------------

NAMINGS = ['unnamed', 'unnamed-children', 'foreign-id', 'case-blank', 'prop-like-section', 'non-ascii', 'special-chars']
ORIGINS = ['built', 'cloned', 'loaded-JSON', 'loaded-XML', 'loaded-YAML']

def _nfd(text):
    return unicodedata.normalize('NFD', text)


# (name, siblings that differ from it only in case / Unicode normalisation / compatibility form)
NONASCII_SECS = [('Gr\u00f6\u00dfe', ['GR\u00d6SSE', _nfd('Gr\u00f6\u00dfe')]),
                 ('\u00e9t\u00e9 \u20ac', [_nfd('\u00e9t\u00e9 \u20ac')]),
                 ('\u65e5\u672c', ['\u2f47\u672c']),
                 ('a\u0308', ['\u00e4', '\u00c4']),
                 ('\U0001d707V', ['\u03bcV', '\u00b5V']),
                 ('\u00df', ['ss', 'SS', '\u1e9e']),
                 ('\u0130', ['i', 'I', 'i\u0307'])]
NONASCII_EXTRA = [('\u212a%d', ['K%d', 'k%d']),
                  ('\u00c5ngstr\u00f6m%d', ['\u212bngstr\u00f6m%d', _nfd('\u00c5ngstr\u00f6m') + '%d'])]
NONASCII_PROPS = [('\u2126%d', ['\u03a9%d']), ('\u00e9%d', ['e\u0301%d', '\u00c9%d']),
                  ('\u0434\u043b\u0438\u043d\u0430%d', [])]
SPECIAL_SECS = ['a.b', '.a', 'a.', '..a', 'a:b', 'a#b', 'a?b=c&d']
SPECIAL_EXTRA = ['%41', 'a\\b', '~', '*', 'a[0]', '<a>', '"a"', "it's", 'null', '1', 'True', '1e3', '-', '&amp;', 'a=b',
                 '@a', '$a', 'a,b', 'a;b', '(a)', '{a}', '...']
SPECIAL_PROPS = ['p:%d', '.p%d', '#p%d']


def det_id(*key):
    """Deterministic uuid for objects that must be created with a given id."""
    return str(uuid.uuid5(uuid.NAMESPACE_URL, 'c12/' + '/'.join(str(x) for x in key)))


def unnamed_section(route, key, parent, **attrs):
    """A Section whose name is its id - four ways of getting there."""
    route %= 4
    if route == 0:
        return odml.Section(parent=parent, **attrs)                            # neither name nor id given
    if route == 1:
        return odml.Section(name=None, oid=det_id(*key), parent=parent, **attrs)
    if route == 2:
        oid = det_id(*key)
        return odml.Section(name=oid, oid=oid, parent=parent, **attrs)         # as it is stored in a file
    sec = odml.Section(name='temporary ' + '-'.join(str(x) for x in key), parent=parent, **attrs)
    sec.name = ''                                                               # an emptied name falls back to the id
    return sec


def unnamed_property(route, key, parent, **attrs):
    route %= 4
    if route == 0:
        return odml.Property(parent=parent, **attrs)
    if route == 1:
        return odml.Property(name='', oid=det_id(*key), parent=parent, **attrs)
    if route == 2:
        oid = det_id(*key)
        return odml.Property(name=oid, oid=oid, parent=parent, **attrs)
    prop = odml.Property(name='temporary ' + '-'.join(str(x) for x in key), parent=parent, **attrs)
    prop.name = None
    return prop


def case_blank_variants(base, blanks=True):
    out = [base, base.upper()]
    if base.capitalize() not in out:
        out.append(base.capitalize())
    if blanks:
        out += [' ' + base, base + ' ']
    return out


def near_misses(name):
    """Names that differ from `name` only in case, surrounding blanks or Unicode normalisation (and are different strings)."""
    cands = [name + ' ', name.swapcase(), ' ' + name, name.upper(), unicodedata.normalize('NFD', name),
             unicodedata.normalize('NFC', name), name.lower(), '\u00a0' + name]
    out = []
    for c in cands:
        if c != name and c not in out:
            out.append(c)
    return out


class Namer(object):
    """Creates the objects of a document according to one naming mode. tag keeps deterministic ids of different documents apart."""

    def __init__(self, mode, tag='d', blanks=True):
        self.mode, self.tag, self.blanks = mode, tag, blanks

    def _with_decoys(self, make, real, decoys, pos):
        """Create `real` among its look-alike siblings; the real one is at position pos (mod number of siblings)."""
        names = list(decoys)
        names.insert(pos % (len(names) + 1), real)
        made = None
        for nm in names:
            obj = make(nm, nm == real)
            if nm == real:
                made = obj
        return made

    # ---- the Sections of the forest shape
    def section(self, k, parent, **attrs):
        m = self.mode
        if m == 'unnamed':
            return unnamed_section(k, (self.tag, 's', k), parent, **attrs)
        if m == 'foreign-id':       # the name is the id of another Section of the document (a child of the next one in pre-order)
            return odml.Section(name=det_id(self.tag, 'x', k + 1), oid=det_id(self.tag, 's', k), parent=parent, **attrs)

        def make(nm, is_real):
            sec = odml.Section(name=nm, parent=parent, **attrs)
            if not is_real:
                odml.Property(name='decoy', values=[nm], parent=sec)
            return sec
        if m == 'case-blank':
            variants = case_blank_variants(SEC_NAMES[k], self.blanks)
            real = variants[k % len(variants)]
            return self._with_decoys(make, real, [v for v in variants if v != real], k)
        if m == 'non-ascii':
            real, decoys = NONASCII_SECS[k % len(NONASCII_SECS)]
            return self._with_decoys(make, real, decoys, k + 1)
        if m == 'special-chars':
            return make(SPECIAL_SECS[k % len(SPECIAL_SECS)], True)
        return make(SEC_NAMES[k], True)

    # ---- their Properties
    def properties(self, sec, k):
        m = self.mode
        for j, (pn, dtype, vals) in enumerate(PROP_SETS[k % len(PROP_SETS)]):
            attrs = dict(dtype=dtype, values=list(vals), unit='mV' if k % 2 else None, definition='pdef' if k % 3 == 0 else None)

            def make(nm, is_real, attrs=attrs):
                if is_real:
                    return odml.Property(name=nm, parent=sec, **attrs)
                return odml.Property(name=nm, values=['decoy of ' + nm], parent=sec)
            if m == 'unnamed':
                unnamed_property(k + j, (self.tag, 'p', k, j), sec, **attrs)
            elif m == 'foreign-id':     # id of a sibling Section / of a sibling Property
                name = det_id(self.tag, 'x', k) if j == 0 else det_id(self.tag, 'p', k, j - 1)
                odml.Property(name=name, oid=det_id(self.tag, 'p', k, j), parent=sec, **attrs)
            elif m == 'case-blank':
                variants = case_blank_variants(pn % k, self.blanks)
                real = variants[(k + j + 1) % len(variants)]
                self._with_decoys(make, real, [v for v in variants if v != real], k + j)
            elif m == 'non-ascii':
                real, decoys = NONASCII_PROPS[j % len(NONASCII_PROPS)]
                self._with_decoys(make, real % k, [d % k for d in decoys], k + j)
            elif m == 'special-chars':
                make(SPECIAL_PROPS[j % len(SPECIAL_PROPS)] % k, True)
            else:
                make(pn % k, True)

    # ---- further children of every Section (so that every target and every linking Section has the feature below it)
    def decorate(self, sec, k):
        m, tag = self.mode, self.tag
        if m in ('unnamed', 'unnamed-children'):
            x = unnamed_section(k + 1, (tag, 'x', k), sec, type='extra', definition='unnamed child')
            y = unnamed_section(k + 2, (tag, 'y', k), x)                       # no type given either
            unnamed_property(k, (tag, 'xp', k), x, values=[k])
            unnamed_property(k + 1, (tag, 'yp', k), y, values=['deep'])
            unnamed_property(k + 3, (tag, 'sp', k), sec, values=['u', 'v'])
            odml.Property(name='empty%d' % k, parent=x)                        # no values
        elif m == 'foreign-id':
            x = odml.Section(name=sec._id, oid=det_id(tag, 'x', k), type='extra', parent=sec)          # named with its parent's id
            odml.Section(name=det_id(tag, 'x', k), oid=det_id(tag, 'y', k), type='extra', parent=x)    # the same one level down
            z = odml.Section(oid=det_id(tag, 'z', k), type='extra', parent=sec)
            z.new_id(det_id(tag, 'z2', k))                                     # formerly unnamed: the name is the previous id
            odml.Property(name=det_id(tag, 'y', k), oid=det_id(tag, 'xp', k), values=[1], parent=x)    # id of a sibling Section
            odml.Property(name=det_id(tag, 'z2', k), oid=det_id(tag, 'sp', k), values=['z'], parent=sec)
        elif m == 'case-blank':
            variants = case_blank_variants('x%d' % k, self.blanks)[:4]
            for i, nm in enumerate(variants):
                x = odml.Section(name=nm, type='extra', parent=sec)
                if i != (k + 1) % len(variants):                               # a look-alike
                    odml.Property(name='q', values=['decoy %d' % i], parent=x)
                    continue
                for j, inner in enumerate(case_blank_variants('y', self.blanks)[1:4]):
                    y = odml.Section(name=inner, type='extra', parent=x)
                    odml.Property(name='w', values=[10 * i + j], parent=y)
                for j, inner in enumerate(case_blank_variants('q', self.blanks)[:3]):
                    odml.Property(name=inner, values=['%d/%d' % (i, j)], parent=x)
        elif m == 'prop-like-section':
            for c in list(list.__iter__(sec._sections)):
                odml.Property(name=c._name, values=['named like a child Section'], parent=sec)
            odml.Property(name=sec._name, values=['named like its parent'], parent=sec)
            x = odml.Section(name='both%d' % k, type='extra', parent=sec)
            odml.Property(name='both%d' % k, values=[k], parent=sec)
            odml.Section(name='in', type='extra', parent=x)
            odml.Property(name='in', values=['i'], parent=x)
            odml.Property(name='both%d' % k, values=['inside'], parent=x)
        elif m == 'non-ascii':
            real, decoys = NONASCII_EXTRA[k % len(NONASCII_EXTRA)]

            def make(nm, is_real):
                x = odml.Section(name=nm, type='extra/\u00fc', parent=sec, definition='Erkl\u00e4rung %s' % nm)
                if not is_real:
                    return x
                odml.Section(name='\u00ff', type='extra', parent=x)
                odml.Section(name='y\u0308', type='extra', parent=x)
                odml.Property(name='\u2126', values=['\u2126'], parent=x, unit='\u00b5V')
                odml.Property(name='\u03a9', values=['\u03a9'], parent=x)
                return x
            self._with_decoys(make, real % k, [d % k for d in decoys], k)
        elif m == 'special-chars':
            pool = SPECIAL_EXTRA
            x = odml.Section(name=pool[(3 * k) % len(pool)], type='extra', parent=sec)
            odml.Section(name=pool[(3 * k + 1) % len(pool)], type='extra', parent=sec)
            y = odml.Section(name=pool[(3 * k + 2) % len(pool)], type='extra', parent=x)
            odml.Property(name=pool[(3 * k + 1) % len(pool)], values=[1], parent=y)
            for nm in pool[(3 * k) % len(pool):][:3]:
                odml.Property(name=nm, values=[nm], parent=x)

    # ---- own children of a linking Section under names the target does not use
    def own_children(self, link_sec, target):
        m = self.mode
        if m in ('unnamed', 'unnamed-children'):
            s = unnamed_section(1, (self.tag, 'own', link_sec._id), link_sec, type='t', definition='own')
            unnamed_property(2, (self.tag, 'ownp', link_sec._id), s, values=['o'])
            unnamed_property(0, (self.tag, 'ownq', link_sec._id), link_sec, values=[7])
        elif m == 'foreign-id':         # named with the id of the target / of children of the target / of the document
            tsecs, tprops = children_of(target)
            mine = sum(children_of(link_sec), [])
            taken = {c._name for c in tsecs + tprops + mine}
            root = link_sec
            while getattr(root, '_parent', None) is not None:
                root = root._parent
            free = [i for i in [target._id] + [c._id for c in tsecs + tprops] + [root._id, link_sec._id] if i not in taken]
            s = odml.Section(name=free[0], type='t', parent=link_sec, definition='own')
            odml.Property(name=link_sec._id, values=['o'], parent=s)
            odml.Property(name=free[1], values=[7], parent=link_sec)
        else:
            flavour = {'non-ascii': 'eigen \u00e4\u00f6\u00fc', 'special-chars': 'own.:#?', 'case-blank': ' Own '}.get(m, 'own both')
            s = odml.Section(name=flavour, type='t', parent=link_sec, definition='own')
            odml.Property(name=flavour, values=['o'], parent=s)
            odml.Property(name=flavour, values=[7], parent=link_sec)


def build_named_doc(shape, namer, rich=True, k0=0):
    """Like build_doc, the objects being created by `namer`. Returns (doc, [Section per pre-order index]).
    k0: number of the first Section (two documents with different numbers share no names)."""
    secs = []
    with h.quiet():
        doc = odml.Document(author='me', version='1')
        counter = itertools.count(k0)

        def add(parent, forest):
            for sub in forest:
                k = next(counter)
                definition, reference = sec_attrs(k, rich)
                s = namer.section(k, parent, type=['t', 'setup/daq'][k % 2], definition=definition, reference=reference)
                secs.append(s)
                namer.properties(s, k)
                add(s, sub)
                namer.decorate(s, k)
        add(doc, shape)
    return doc, secs


def index_path(sec):
    out = []
    for s in chain(sec):
        out.append([c is s for c in list.__iter__(s._parent._sections)].index(True))
    return out


def follow(doc, path):
    node = doc
    for i in path:
        node = list(list.__iter__(node._sections))[i]
    return node


def has_padded_names(doc):
    secs, props = h.walk(doc)
    return any(o._name != o._name.strip() for o in secs + props)


def transfer(doc, secs, origin, scratch):
    """The same document obtained in another way: cloned, or saved to a file and loaded again.
    Returns (document, the Sections corresponding to `secs`) or (None, None) if the transfer itself did not
    deliver an equal document (not this property's business)."""
    if origin == 'built':
        return doc, secs
    paths = [index_path(s) for s in secs]
    if origin == 'cloned':
        kind, other = h.call(doc.clone)
        if kind == 'exc':
            return None, None
    else:
        backend = origin.split('-')[1]
        if backend == 'XML' and has_padded_names(doc):     # odML-XML does not keep surrounding blanks
            backend = 'JSON'
        fname = os.path.join(WORK, '%s.%s' % (scratch, backend.lower()))
        kind, _res = h.call(odml.save, doc, fname, backend)
        if kind == 'exc':
            return None, None
        kind, other = h.call(odml.load, fname, backend)
        if kind == 'exc' or h.diff(h.snap(doc, ids=True, parent=False), h.snap(other, ids=True, parent=False)):
            return None, None
    try:
        return other, [follow(other, p) for p in paths]
    except IndexError:
        return None, None


# ---------------------------------------------------------------------------------------------
# own path handling
# ---------------------------------------------------------------------------------------------

def chain(sec):
    out = []
    x = sec
    while x is not None and not isinstance(x, BaseDocument):
        out.insert(0, x)
        x = x._parent
    return out


def abs_path(sec):
    return '/' + '/'.join(s._name for s in chain(sec))


def rel_path(src, dst):
    a, b = chain(src), chain(dst)
    i = 0
    while i < len(a) and i < len(b) and a[i] is b[i]:
        i += 1
    return '../' * (len(a) - i) + '/'.join(s._name for s in b[i:])


def resolve(start, path):
    """Own resolver: '/x/y' from the document, otherwise relative to `start`; '..' parent, '.' self."""
    node = start
    if path.startswith('/'):
        while getattr(node, '_parent', None) is not None:
            node = node._parent
        path = path[1:]
    for part in path.split('/'):
        if node is None:
            return None
        if part == '..':
            node = getattr(node, '_parent', None)
        elif part in ('.', ''):
            continue
        else:
            node = next((c for c in list.__iter__(node._sections) if c._name == part), None)
    return node


# ---------------------------------------------------------------------------------------------
# snapshots with the permitted changes masked
# ---------------------------------------------------------------------------------------------

def masked(doc, links, mode):
    """Frozen snapshot of the document.
    mode 'restore': everything, only the text of the stored link of linking Sections is masked.
    mode 'frame'  : additionally, for every linking Section, the parts finalize may touch are masked: its
                    definition/reference, its merged marker, its child lists except the original children whose
                    name the target does not use."""
    d = h.snap_doc(doc, True, True)
    info = {l._id: (l, keep) for l, keep in links}

    def rec(node):
        node = dict(node)
        if node.get('kind') == 'section' and node['_id'] in info:
            node['_link'] = '<masked>' if node['_link'] is not None else None
            if mode == 'frame':
                keep = info[node['_id']][1]
                for key in ('_definition', '_reference', 'merged', 'child_ids'):
                    node.pop(key, None)
                node['sections'] = tuple(c for c in node['sections'] if c['_id'] in keep)
                node['props'] = tuple(c for c in node['props'] if c['_id'] in keep)
        if 'sections' in node:
            node['sections'] = tuple(rec(c) for c in node['sections'])
        return node
    return h.freeze(rec(d))


def content(obj):
    """Frozen snapshot without ids and identities."""
    return h.snap(obj, ids=False, parent=False)


class Link(object):
    """One reference of the document under test, with what the oracle needs to know about it."""
    def __init__(self, sec, target, how, own, naming='plain', origin='built'):
        self.sec, self.target, self.how, self.own = sec, target, how, own
        self.naming, self.origin = naming, origin
        tsecs, tprops = children_of(target)
        osecs, oprops = children_of(sec)
        self.orig_children = osecs + oprops
        self.orig_ids = {id(c) for c in self.orig_children}
        used_s, used_p = {c._name for c in osecs}, {c._name for c in oprops}
        # children of the target whose name the linking Section uses for a child of the other kind only: the statement
        # does not say whether that name is "already used" - no copy is demanded, none is forbidden
        cross = [c for c in tsecs if c._name in used_p and c._name not in used_s] + \
                [c for c in tprops if c._name in used_s and c._name not in used_p]
        self.expected = [('section', c) for c in tsecs if c._name not in used_s and c._name not in used_p] + \
                        [('property', c) for c in tprops if c._name not in used_p and c._name not in used_s]
        self.shared = [c for c in tsecs if c._name in used_s] + [c for c in tprops if c._name in used_p] + cross
        tnames_s, tnames_p = {c._name for c in tsecs}, {c._name for c in tprops}
        self.target_names = {'section': tnames_s, 'property': tnames_p}
        # original children that finalize must leave alone: those whose name the target does not use
        tnames = tnames_s | tnames_p
        self.keep_ids = {c._id for c in osecs + oprops if c._name not in tnames}
        self.target_before = h.snap(target)
        self.type_clash = any(o._name == c._name and o.type != c.type for o in osecs for c in tsecs)

    @property
    def restoring(self):
        return not self.shared


def feature_of(links):
    fs = sorted({'%s/%s/own-%s%s' % ('include' if l.how.startswith('include') else 'link', l.how, l.own,
                                     '' if l.naming == 'plain' else ' names=' + l.naming) for l in links})
    return fs[0] if len(fs) == 1 else 'several: ' + ' + '.join(fs)


def own_feature(links):
    """Stable label of the own-children variant that matters when resolution fails."""
    owns = sorted({l.own for l in links if not l.restoring}) or sorted({l.own for l in links})
    if 'same-name-section-other-type' in owns or any(l.type_clash for l in links):
        return 'same-name-section-other-type'
    if 'same-name-property-other-dtype' in owns:
        return 'same-name-property-inconvertible-values'
    namings = sorted({l.naming for l in links} - {'plain'})
    return '+'.join(owns) + (' names=' + '+'.join(namings) if namings else '')


# ---------------------------------------------------------------------------------------------
# contract clauses
# ---------------------------------------------------------------------------------------------

def check_finalized(col, name, doc, links, frame_before, wit, stage):
    """After finalize(): copies present, targets unchanged, rest of the document unchanged."""
    for l in links:
        secs, props = children_of(l.sec)
        for kind, c in l.expected:
            pool = secs if kind == 'section' else props
            mine = [m for m in pool if m._name == c._name]
            if len(mine) != 1 or mine[0] is c or content(mine[0]) != content(c):
                why = 'missing' if not mine else ('is the target\'s own child, not a copy' if mine[0] is c else
                                                  'differs: %s' % h.diff(content(c), content(mine[0])))
                col.fail(check=name + '/copies-present', cls={'clause': 'copies-present', 'feature': '%s %s' % (kind, feature_of([l]))},
                         witness=dict(wit, stage=stage, linking=abs_path(l.sec), child=c._name),
                         detail='linking Section lacks a copy of the target\'s %s %r (%s)' % (kind, c._name, why))
        new = [('section', m) for m in secs if id(m) not in l.orig_ids] + [('property', m) for m in props if id(m) not in l.orig_ids]
        strangers = [(kind, m._name) for kind, m in new if m._name not in l.target_names[kind]]
        twice = sorted({(kind, m._name) for kind, m in new if sum(1 for k2, m2 in new if k2 == kind and m2._name == m._name) > 1})
        if not l.restoring and (strangers or twice):
            col.fail(check=name + '/only-copies-added', cls={'clause': 'only-copies-added', 'feature': feature_of([l])},
                     witness=dict(wit, stage=stage, linking=abs_path(l.sec)),
                     detail='new children of the linking Section that are not one copy of a child of the target: '
                            'names the target does not use %r, added more than once %r' % (strangers, twice))
        if l.restoring:
            have = sorted([('section', m._name) for m in secs] + [('property', m._name) for m in props])
            want = sorted([('section' if isinstance(c, BaseSection) else 'property', c._name) for c in l.orig_children] +
                          [(kind, c._name) for kind, c in l.expected])
            if have != want:
                col.fail(check=name + '/only-copies-added', cls={'clause': 'only-copies-added', 'feature': feature_of([l])},
                         witness=dict(wit, stage=stage, linking=abs_path(l.sec)),
                         detail='children of the linking Section are %r; contract: own children + one copy per target child = %r; '
                                'surplus %r, lacking %r' % (have, want, [x for x in have if x not in want], [x for x in want if x not in have]))
        d = h.diff(l.target_before, h.snap(l.target))
        if d:
            col.fail(check=name + '/target-unchanged', cls={'clause': 'target-unchanged', 'feature': feature_of([l])},
                     witness=dict(wit, stage=stage, linking=abs_path(l.sec)), detail='referenced Section changed: %s' % d)
    d = h.diff(frame_before, masked(doc, [(l.sec, l.keep_ids) for l in links], 'frame'))
    if d:
        col.fail(check=name + '/rest-unchanged', cls={'clause': 'rest-unchanged', 'feature': feature_of(links)},
                 witness=dict(wit, stage=stage), detail='a part of the document other than the linking Sections\' new children changed: %s' % d)


def check_restored(col, name, doc, links, restore_before, wit, stage):
    d = h.diff(restore_before, masked(doc, [(l.sec, l.keep_ids) for l in links], 'restore'))
    if d:
        part = d.split(':')[0].rsplit('/', 2)
        what = (part[-2] if len(part) >= 2 else d).lstrip('_')
        if what in ('definition', 'reference'):
            what = 'attribute-filled-from-target (definition/reference)'
        col.fail(check=name + '/clean-restores', cls={'clause': 'clean-restores', 'feature': 'differs in %s' % what},
                 witness=dict(wit, stage=stage), detail='document after clean() differs from the original: %s' % d)
    for l in links:
        if l.how.startswith('include'):
            if l.sec._include != l.include_text:
                col.fail(check=name + '/reference-kept', cls={'clause': 'reference-kept', 'feature': feature_of([l])},
                         witness=dict(wit, stage=stage), detail='include is now %r, was %r' % (l.sec._include, l.include_text))
            continue
        got = resolve(l.sec, l.sec._link) if isinstance(l.sec._link, str) else None
        if got is not l.target:
            col.fail(check=name + '/reference-kept', cls={'clause': 'reference-kept', 'feature': feature_of([l])},
                     witness=dict(wit, stage=stage, linking=abs_path(l.sec), target=abs_path(l.target)),
                     detail='stored link is now %r which designates %r' % (l.sec._link, got))
        if l.sec._merged is not None:
            col.fail(check=name + '/clean-restores', cls={'clause': 'clean-restores', 'feature': 'still-merged'},
                     witness=dict(wit, stage=stage), detail='linking Section still reports is_merged after clean()')


# ---- raw readers of saved files (no odml involved) ---------------------------------------------

def raw_tree(fname, backend):
    if backend == 'XML':
        from lxml import etree
        root = etree.parse(fname).getroot()

        def rec(el):
            text = lambda tag: (el.findtext(tag) if el.find(tag) is not None else None)
            return {'name': text('name'), 'definition': text('definition'), 'link': text('link'), 'include': text('include'),
                    'sections': [rec(c) for c in el.findall('section')],
                    'props': [c.findtext('name') for c in el.findall('property')]}
        return [rec(c) for c in root.findall('section')]
    if backend == 'JSON':
        with open(fname, encoding='utf-8') as f:
            data = json.load(f)
    else:
        import yaml
        with open(fname, encoding='utf-8') as f:
            data = yaml.load(f, Loader=getattr(yaml, 'CSafeLoader', yaml.SafeLoader))

    def rec(d):
        return {'name': d.get('name'), 'definition': d.get('definition'), 'link': d.get('link'), 'include': d.get('include'),
                'sections': [rec(c) for c in d.get('sections') or []],
                'props': [p.get('name') for p in d.get('properties') or []]}
    return [rec(c) for c in data['Document'].get('sections') or []]


def model_tree(raw_doc_snapshot):
    def rec(d):
        return {'name': d['_name'], 'definition': d['_definition'], 'link': d['_link'], 'include': d['_include'],
                'sections': [rec(c) for c in d['sections']], 'props': [p['_name'] for p in d['props']]}
    return [rec(c) for c in raw_doc_snapshot['sections']]


def compare_file(expected, got, path=''):
    """First difference between the model of the original document and the raw content of the file (link text aside)."""
    if len(expected) != len(got):
        return '%s: %d Sections expected, file has %r' % (path or '/', len(expected), [g['name'] for g in got])
    for e, g in zip(expected, got):
        here = path + '/' + str(e['name'])
        if e['name'] != g['name']:
            return '%s: file has Section %r here' % (here, g['name'])
        if (e['link'] is None) != (g['link'] is None) or e['include'] != g['include']:
            return '%s: reference expected link=%r include=%r, file has link=%r include=%r' % (
                here, e['link'], e['include'], g['link'], g['include'])
        if e['definition'] != g['definition']:
            return '%s: definition %r expected, file has %r' % (here, e['definition'], g['definition'])
        if e['props'] != g['props']:
            return '%s: Properties %r expected, file has %r' % (here, e['props'], g['props'])
        d = compare_file(e['sections'], g['sections'], here)
        if d:
            return d
    return None


def diff_class(d):
    if 'definition' in d:
        return 'definition-of-target-in-linking-section'
    if 'Properties' in d:
        return 'properties-of-target-in-linking-section'
    if 'Sections expected' in d or 'file has Section' in d:
        return 'sections-of-target-in-linking-section'
    return 'reference-missing-or-changed'


# ---------------------------------------------------------------------------------------------
# one scenario
# ---------------------------------------------------------------------------------------------

def scenario(col, name, part, doc, links, wit, backend, cycles=2, save_load=True):
    """part: 'finalize' -> first sentence only;  'restore' -> whole life cycle."""
    pairs = [(l.sec, l.keep_ids) for l in links]
    original_model = model_tree(h.snap_doc(doc, True, False))
    frame0 = masked(doc, pairs, 'frame')
    restore0 = masked(doc, pairs, 'restore')
    content0 = None
    kind, res = h.call(doc.finalize)
    if kind == 'exc':
        col.fail(check=name + '/finalize-returns', cls={'clause': 'finalize-returns', 'feature': own_feature(links)},
                 witness=wit, detail='finalize() raised %r' % (res,))
        return 'finalize-raised'
    check_finalized(col, name, doc, links, frame0, wit, 'finalize#1')
    if part == 'finalize':
        once = _mask_link_text(h.snap(doc, ids=False, parent=False))
        # finalize again without clean in between must still satisfy the first sentence
        kind, res = h.call(doc.finalize)
        if kind == 'exc':
            col.fail(check=name + '/finalize-returns', cls={'clause': 'finalize-returns', 'feature': 'second finalize, %s raising %s' % (own_feature(links), type(res).__name__)},
                     witness=wit, detail='second finalize() raised %r' % (res,))
            return 'finalize-raised'
        check_finalized(col, name, doc, links, frame0, wit, 'finalize#2')
        if all(l.restoring for l in links):
            # every name of the target is in use now: a further finalize has nothing to add and may change nothing else
            d = h.diff(once, _mask_link_text(h.snap(doc, ids=False, parent=False)))
            if d:
                col.fail(check=name + '/finalize-idempotent', cls={'clause': 'finalize-idempotent', 'feature': feature_of(links)},
                         witness=dict(wit, stage='finalize#2'),
                         detail='a second finalize() changed the resolved document (ids aside): %s' % d)
        return 'ok'
    content0 = h.snap(doc, ids=False, parent=False)
    for cyc in range(1, cycles + 1):
        kind, res = h.call(doc.clean)
        if kind == 'exc':
            col.fail(check=name + '/clean-returns', cls={'clause': 'clean-returns', 'feature': '%s raising %s' % (feature_of(links), type(res).__name__)},
                     witness=dict(wit, stage='clean#%d' % cyc), detail='clean() raised %r' % (res,))
            return 'clean-raised'
        check_restored(col, name, doc, links, restore0, wit, 'clean#%d' % cyc)
        if cyc == 1 and save_load:
            _save_load(col, name, doc, links, original_model, wit, backend)
        kind, res = h.call(doc.finalize)
        if kind == 'exc':
            col.fail(check=name + '/finalize-returns', cls={'clause': 'finalize-returns', 'feature': 'after clean, %s raising %s' % (own_feature(links), type(res).__name__)},
                     witness=dict(wit, stage='finalize#%d' % (cyc + 1)), detail='finalize() after clean() raised %r' % (res,))
            return 'finalize-raised'
        check_finalized(col, name, doc, links, frame0, wit, 'finalize#%d' % (cyc + 1))
        d = h.diff(_mask_link_text(content0), _mask_link_text(h.snap(doc, ids=False, parent=False)))
        if d:
            col.fail(check=name + '/refinalize-same', cls={'clause': 'refinalize-same', 'feature': feature_of(links)},
                     witness=dict(wit, stage='finalize#%d' % (cyc + 1)),
                     detail='resolved document differs from the first resolution (ids aside): %s' % d)
    kind, res = h.call(doc.clean)
    if kind == 'ret':
        check_restored(col, name, doc, links, restore0, wit, 'clean#last')
    if kind == 'ret' and save_load:
        _save_load(col, name, doc, links, original_model, dict(wit, stage='clean#last'),
                   'JSON' if backend == 'XML' else 'XML', full=False)
    # resolving twice without a clean in between adds nothing new: one clean still restores the document
    k1, _r1 = h.call(doc.finalize)
    k2, _r2 = h.call(doc.finalize)
    if k1 == 'ret' and k2 == 'ret':
        kind, res = h.call(doc.clean)
        if kind == 'ret':
            check_restored(col, name, doc, links, restore0, wit, 'clean#after-double-finalize')
    return 'ok'


def _mask_link_text(frozen):
    def rec(x):
        if isinstance(x, tuple):
            if len(x) == 2 and x[0] == '_link' and x[1] is not None:
                return ('_link', '<masked>')
            return tuple(rec(v) for v in x)
        return x
    return rec(frozen)


def _save_load(col, name, doc, links, original_model, wit, backend, full=True):
    fname = os.path.join(WORK, 'saved.' + backend.lower())
    kind, res = h.call(odml.save, doc, fname, backend)
    if kind == 'exc':
        col.fail(check=name + '/save-after-clean', cls={'clause': 'save-after-clean', 'feature': '%s raising %s' % (backend, type(res).__name__)},
                 witness=wit, detail='saving the cleaned document raised %r' % (res,))
        return
    tree = raw_tree(fname, backend)
    d = compare_file(original_model, tree)
    if d:
        col.fail(check=name + '/file-has-reference-only', cls={'clause': 'file-has-reference-only', 'feature': diff_class(d)},
                 witness=dict(wit, backend=backend), detail='file saved after clean(): %s' % d)
    if not full or (backend == 'XML' and has_padded_names(doc)):    # odML-XML does not keep surrounding blanks of a name
        return
    # the link text in the file designates the target
    kind, loaded = h.call(odml.load, fname, backend)
    if kind == 'exc':
        col.fail(check=name + '/load-saved', cls={'clause': 'load-saved', 'feature': '%s raising %s' % (backend, type(loaded).__name__)},
                 witness=wit, detail='loading the saved file raised %r' % (loaded,))
        return
    for l in links:
        twin = resolve(loaded, abs_path(l.sec))
        if twin is None:
            continue
        if l.how.startswith('include'):
            continue
        twin_target = resolve(twin, twin._link) if isinstance(twin._link, str) else None
        if twin_target is None or abs_path(twin_target) != abs_path(l.target):
            col.fail(check=name + '/reference-kept', cls={'clause': 'reference-kept', 'feature': 'in saved file ' + feature_of([l])},
                     witness=dict(wit, backend=backend),
                     detail='link in the saved file is %r and designates %r; the target is %s'
                            % (twin._link, twin_target, abs_path(l.target)))
    # the loaded document goes through the same cycle
    d = h.diff(_mask_link_text(h.snap(doc, ids=True, parent=False)), _mask_link_text(h.snap(loaded, ids=True, parent=False)))
    if d:
        if True:
            col.fail(check=name + '/loaded-equals-cleaned', cls={'clause': 'loaded-equals-cleaned', 'feature': backend},
                     witness=dict(wit, backend=backend), detail='loaded document differs from the cleaned one: %s' % d)
    before = h.snap(loaded, ids=True, parent=False)
    k1, r1 = h.call(loaded.finalize)
    twins = []
    for l in links:
        twin = resolve(loaded, abs_path(l.sec))
        if twin is not None:
            twins.append((l, twin))
    if k1 == 'ret':
        for l, twin in twins:
            secs, props = children_of(twin)
            for kind_, c in l.expected:
                pool = secs if kind_ == 'section' else props
                if not any(m._name == c._name and content(m) == content(c) for m in pool):
                    col.fail(check=name + '/copies-present', cls={'clause': 'copies-present', 'feature': 'after save+load %s' % feature_of([l])},
                             witness=dict(wit, backend=backend, child=c._name),
                             detail='after save/load/finalize the linking Section lacks a copy of %r' % c._name)
        k2, r2 = h.call(loaded.clean)
        if k2 == 'ret':
            d = h.diff(_mask_link_text(before), _mask_link_text(h.snap(loaded, ids=True, parent=False)))
            if d:
                col.fail(check=name + '/clean-restores', cls={'clause': 'clean-restores', 'feature': 'after save+load'},
                         witness=dict(wit, backend=backend), detail='loaded document: clean after finalize differs: %s' % d)
        else:
            col.fail(check=name + '/clean-returns', cls={'clause': 'clean-returns', 'feature': 'after save+load raising %s' % type(r2).__name__},
                     witness=dict(wit, backend=backend), detail='clean() raised %r' % (r2,))
    else:
        col.fail(check=name + '/finalize-returns', cls={'clause': 'finalize-returns', 'feature': 'after save+load raising %s' % type(r1).__name__},
                 witness=dict(wit, backend=backend), detail='finalize() of the loaded document raised %r' % (r1,))


# ---------------------------------------------------------------------------------------------
# scenario generators
# ---------------------------------------------------------------------------------------------

def library_docs(env):
    """Documents to include from: [(url, loaded document, [target path or None])]."""
    out = []
    for n, shape in enumerate([((),), (((),), ()), ((((),),), ((), ()))]):
        doc, secs = build_doc(shape, rich=True, prefix='inc ' if n == 2 else 'i')
        url, term = env.publish(doc, 'inc_%d.xml' % n)
        tsecs, _ = h.walk(term)
        out.append((url, term, [None] + [abs_path(s) for s in tsecs]))
    return out


def link_scenarios(tier, seed, part):
    """Yield (witness, builder) ; builder() -> (doc, [Link])"""
    rnd = random.Random('c12-%s-%s' % (part, seed))
    max_secs = 4 if tier == 'quick' else 5
    owns = OWN if part == 'finalize' else list(RESTORING)
    for shape in h.tree_shapes(max_secs):
        n = count_nodes(shape)
        singles = admissible_single(shape)
        for (l, t) in singles:
            for how in ('absolute', 'relative'):
                for own in owns:
                    if tier == 'quick' and n == max_secs and how == 'absolute' and own not in ('none', 'same-name-section-other-type'):
                        continue
                    yield ({'shape': repr(shape), 'links': [[l, t, how, own]]},
                           (lambda shape=shape, l=l, t=t, how=how, own=own: _build_links(shape, [(l, t, how, own)])))
        for k in (2, 3):
            sets = admissible_sets(shape, k)
            limit = (6 if tier == 'quick' else 40)
            if len(sets) > limit:
                sets = rnd.sample(sets, limit)
            for combo in sets:
                spec = [(l, t, rnd.choice(['absolute', 'relative']), rnd.choice(owns)) for l, t in combo]
                yield ({'shape': repr(shape), 'links': [list(s) for s in spec]},
                       (lambda shape=shape, spec=spec: _build_links(shape, spec)))


def _link_texts(shape, spec):
    return {l: (spec_abs_path(shape, t) if how == 'absolute' else spec_rel_path(shape, l, t)) for l, t, how, _own in spec}


def _build_links(shape, spec):
    doc, secs = build_doc(shape, link=_link_texts(shape, spec))
    links = []
    for l, t, how, own in spec:
        if not add_own_children(secs[l], secs[t], own):
            return None, None
    for l, t, how, own in spec:
        links.append(Link(secs[l], secs[t], how, own))
    return doc, links


def include_scenarios(env, tier, seed, part):
    rnd = random.Random('c12-inc-%s-%s' % (part, seed))
    libs = library_docs(env)
    owns = OWN if part == 'finalize' else list(RESTORING)
    shapes = [s for s in h.tree_shapes(3 if tier == 'quick' else 4) if count_nodes(s) >= 1]
    for shape in shapes:
        n = count_nodes(shape)
        for l in range(n):
            for (url, term, targets) in libs:
                tl = targets if tier != 'quick' else ([targets[0]] + rnd.sample(targets[1:], min(2, len(targets) - 1)))
                for tpath in tl:
                    own = rnd.choice(owns)
                    yield ({'shape': repr(shape), 'include': [l, os.path.basename(url), tpath, own]},
                           (lambda shape=shape, l=l, url=url, term=term, tpath=tpath, own=own:
                            _build_include(shape, l, url, term, tpath, own)))
    # an include and a link in one document
    for shape in [s for s in h.tree_shapes(4) if len(admissible_single(s)) >= 1][:12 if tier == 'quick' else None]:
        for (l, t) in admissible_single(shape)[:2 if tier == 'quick' else None]:
            others = [k for k in range(count_nodes(shape)) if (k, t) in admissible_single(shape) and k != l]
            if not others:
                continue
            k = others[0]
            url, term, targets = libs[(l + t) % len(libs)]
            tpath = targets[-1]
            yield ({'shape': repr(shape), 'links': [[l, t, 'relative', 'none']], 'include': [k, os.path.basename(url), tpath, 'none']},
                   (lambda shape=shape, l=l, t=t, k=k, url=url, term=term, tpath=tpath:
                    _build_include(shape, k, url, term, tpath, 'none', extra=[(l, t, 'relative', 'none')])))


def _build_include(shape, l, url, term, tpath, own, extra=()):
    text = url if tpath is None else url + '#' + tpath
    doc, secs = build_doc(shape, link=_link_texts(shape, extra), include={l: text})
    target = next(list.__iter__(term._sections), None) if tpath is None else resolve(term, tpath)
    if target is None:          # the published document was damaged by an earlier scenario (reported there)
        return None, None
    if not add_own_children(secs[l], target, own):
        return None, None
    links = []
    for (a, b, how, o) in extra:
        links.append(Link(secs[a], secs[b], how, o))
    lk = Link(secs[l], target, 'include-first-section' if tpath is None else 'include-path', own)
    lk.include_text = text
    links.append(lk)
    return doc, links


# ---- the same, over the naming modes and document origins -------------------------------------

QUICK_ORIGINS = ['built', 'cloned', 'loaded-JSON', 'built', 'loaded-XML', 'cloned', 'built', 'loaded-YAML', 'cloned', 'loaded-JSON', 'built']


def naming_link_scenarios(tier, seed, part):
    """Every shape up to N Sections x admissible (L, T) x path form x naming mode; the own-children variant and the
    origin of the document (built | cloned | loaded from a file of each format) rotate so that every (mode, variant)
    and (mode, origin) pair occurs at several positions; thorough: full product with the variants (two origins each) for
    the shapes below N Sections. Then sampled sets of two links; quick: a sample of single links in shapes of N+1 Sections."""
    rnd = random.Random('c12-names-%s-%s' % (part, seed))
    owns = list(NAMED_RESTORING) if part == 'restore' else list(NAMED_OWN)
    max_secs = 3 if tier == 'quick' else 4
    combo = 0
    for shape in h.tree_shapes(max_secs):
        nodes = count_nodes(shape)
        full = tier != 'quick' and nodes < max_secs
        for (l, t) in admissible_single(shape):
            for how in ('absolute', 'relative'):
                combo += 1
                for i, naming in enumerate(NAMINGS):
                    if full:
                        picks = [(own, ORIGINS[(combo + i + oi + j * 2) % len(ORIGINS)]) for oi, own in enumerate(owns) for j in range(2)]
                    elif tier == 'quick':
                        if part == 'restore' and how == 'absolute' and (combo // 2 + i) % 2:
                            continue
                        picks = [(owns[(combo + i + j * 3) % len(owns)], QUICK_ORIGINS[(combo * 7 + i + j * 5) % len(QUICK_ORIGINS)])
                                 for j in range(2 if part == 'finalize' else 1)]
                    else:
                        if part == 'restore' and how == 'absolute' and (combo // 2 + i) % 2:
                            continue
                        picks = [(owns[(combo + i + j * 3) % len(owns)], ORIGINS[(combo * 7 + i + j * 2) % len(ORIGINS)])
                                 for j in range(2 if part == 'finalize' else 1)]
                    for own, origin in picks:
                        yield ({'shape': repr(shape), 'links': [[l, t, how, own]], 'naming': naming, 'origin': origin},
                               (lambda shape=shape, l=l, t=t, how=how, own=own, naming=naming, origin=origin:
                                _build_named_links(shape, [(l, t, how, own)], naming, origin)))
        sets = admissible_sets(shape, 2)
        limit = 3 if tier == 'quick' else 12
        if len(sets) > limit:
            sets = rnd.sample(sets, limit)
        for links in sets:
            for i, naming in enumerate(NAMINGS):
                combo += 1
                spec = [(l, t, rnd.choice(['absolute', 'relative']), rnd.choice(owns)) for l, t in links]
                origin = (QUICK_ORIGINS if tier == 'quick' else ORIGINS)[(combo + i) % (11 if tier == 'quick' else 5)]
                yield ({'shape': repr(shape), 'links': [list(x) for x in spec], 'naming': naming, 'origin': origin},
                       (lambda shape=shape, spec=spec, naming=naming, origin=origin: _build_named_links(shape, spec, naming, origin)))
    if tier == 'quick':
        # deeper documents: a sample of the next size
        big = [(shape, l, t) for shape in h.tree_shapes(max_secs + 1) if count_nodes(shape) == max_secs + 1
               for (l, t) in admissible_single(shape)]
        for n, (shape, l, t) in enumerate(rnd.sample(big, 21)):
            naming, own, how = NAMINGS[n % len(NAMINGS)], owns[(n // 7 + n) % len(owns)], ('absolute', 'relative')[(n // 7) % 2]
            origin = QUICK_ORIGINS[n % len(QUICK_ORIGINS)]
            yield ({'shape': repr(shape), 'links': [[l, t, how, own]], 'naming': naming, 'origin': origin},
                   (lambda shape=shape, l=l, t=t, how=how, own=own, naming=naming, origin=origin:
                    _build_named_links(shape, [(l, t, how, own)], naming, origin)))


def _build_named_links(shape, spec, naming, origin):
    namer = Namer(naming)
    doc, secs = build_named_doc(shape, namer)
    for l, t, how, own in spec:
        secs[l]._link = abs_path(secs[t]) if how == 'absolute' else rel_path(secs[l], secs[t])     # stored, not resolved
    for l, t, how, own in spec:
        if not add_own_children(secs[l], secs[t], own, namer, salt=l + t):
            return None, None
    doc, secs = transfer(doc, secs, origin, 'origin')
    if doc is None:
        return None, None
    return doc, [Link(secs[l], secs[t], how, own, naming, origin) for l, t, how, own in spec]


def naming_library_docs(env):
    """One published document per naming mode: {mode: (url, loaded document, [target path or None])}."""
    out = {}
    for i, naming in enumerate(NAMINGS):
        doc, _secs = build_named_doc((((),), ()), Namer(naming, tag='inc', blanks=False), k0=4)
        url, term = env.publish(doc, 'named_inc_%d.xml' % i)
        tsecs, _ = h.walk(term)
        out[naming] = (url, term, [None] + [abs_path(s) for s in tsecs])
    return out


def naming_include_scenarios(env, tier, seed, part):
    rnd = random.Random('c12-names-inc-%s-%s' % (part, seed))
    libs = naming_library_docs(env)
    owns = list(NAMED_RESTORING) if part == 'restore' else list(NAMED_OWN)
    n = 0
    for naming in NAMINGS:
        url, term, targets = libs[naming]
        for shape in [((),), ((), ()), (((),),)]:
            for l in range(count_nodes(shape)):
                k = 3 if tier == 'quick' else 10
                for tpath in [targets[0]] + rnd.sample(targets[1:], min(k, len(targets) - 1)):
                    n += 1
                    own = owns[n % len(owns)]
                    origin = QUICK_ORIGINS[n % len(QUICK_ORIGINS)] if tier == 'quick' else rnd.choice(ORIGINS)
                    yield ({'shape': repr(shape), 'include': [l, os.path.basename(url), tpath, own], 'naming': naming, 'origin': origin},
                           (lambda shape=shape, l=l, url=url, term=term, tpath=tpath, own=own, naming=naming, origin=origin:
                            _build_named_include(shape, l, url, term, tpath, own, naming, origin)))


def _build_named_include(shape, l, url, term, tpath, own, naming, origin):
    text = url if tpath is None else url + '#' + tpath
    namer = Namer(naming)
    doc, secs = build_named_doc(shape, namer)
    target = next(list.__iter__(term._sections), None) if tpath is None else resolve(term, tpath)
    if target is None:          # the published document was damaged by an earlier scenario (reported there)
        return None, None
    secs[l]._include = text
    if not add_own_children(secs[l], target, own, namer, salt=l):
        return None, None
    doc, secs = transfer(doc, secs, origin, 'origin')
    if doc is None:
        return None, None
    lk = Link(secs[l], target, 'include-first-section' if tpath is None else 'include-path', own, naming, origin)
    lk.include_text = text
    return doc, [lk]


# ---- tree positions: where the linking Section and its target sit, and how the Sections on the way are named ----
#
# A case is a pair of name paths (A = linking Section, B = target), neither a prefix of the other.  The document is
# the union of both paths (every Section on them carrying a Property), the target owning children of its own.
# Unlike the shape scenarios above the names are NOT distinct: the same name occurs again in the other branch at
# the same or at another depth, along one path (a/b/a), and names are character prefixes of one another.

POS_ALPHABET = ['a', 'ab', 'b']


def pos_feature(A, B):
    """Stable label of what is special about the names on the two paths (first applicable wins)."""
    c = 0
    while c < len(A) and c < len(B) and A[c] == B[c]:
        c += 1
    if any(A[i] == B[i] for i in range(c + 1, min(len(A), len(B)))):
        return 'same-name-same-depth-in-other-branch'
    if set(A[c:]) & set(B[c:]):
        return 'same-name-other-depth-in-other-branch'
    if set(A[c:] + B[c:]) & set(A[:c]):
        return 'name-of-common-ancestor-repeated-below-branch-point'
    if len(set(A)) != len(A) or len(set(B)) != len(B):
        return 'name-repeated-along-one-path'
    if A[c].startswith(B[c]) or B[c].startswith(A[c]):
        return 'sibling-names-prefix-of-one-another-at-branch-point'
    if any(x != y and (x.startswith(y) or y.startswith(x)) for x in A for y in B):
        return 'names-prefix-of-one-another'
    return 'all-names-distinct'


def pos_patterns():
    """name pattern -> function (c, u, d) -> (A, B): c common ancestors, the linking Section u levels and the target d
    levels below the branch point."""
    def common(c, names=('r0', 'r1', 'r2')):
        return list(names[:c])
    pats = {}
    pats['distinct'] = lambda c, u, d: (common(c) + ['x%d' % i for i in range(u)], common(c) + ['y%d' % i for i in range(d)])
    # parallel branches: below the two differently named branch roots the same names at the same depth
    pats['parallel'] = lambda c, u, d: (common(c) + ['x0'] + ['k%d' % i for i in range(1, u)],
                                        common(c) + ['y0'] + ['k%d' % i for i in range(1, d)])
    # only the deepest depth both paths reach has the same name
    pats['same-at-deepest-shared-depth'] = lambda c, u, d: (
        common(c) + [('same' if i == min(u, d) - 1 and i > 0 else 'x%d' % i) for i in range(u)],
        common(c) + [('same' if i == min(u, d) - 1 and i > 0 else 'y%d' % i) for i in range(d)])
    # the names of the other branch one level deeper (same names, never at the same depth)
    pats['shifted'] = lambda c, u, d: (common(c) + ['s%d' % i for i in range(u)], common(c) + ['s%d' % (i + 1) for i in range(d)])
    # one name again and again along each path (a/b/a/b...), the common ancestors included
    pats['alternating'] = lambda c, u, d: (common(c, ('a', 'b', 'a')) + [('a', 'b')[(c + i) % 2] for i in range(u)],
                                           common(c, ('a', 'b', 'a')) + ['c'] + [('a', 'b')[(c + i) % 2] for i in range(1, d)])
    # every name a character prefix of the next: the branch roots are 'a' / 'ab', below them 'abc', 'abcd'...
    pats['prefixes'] = lambda c, u, d: (common(c, ('a', 'ab', 'abc')) + ['ab'] + ['a' + 'bcdef'[:i] for i in range(1, u)],
                                        common(c, ('a', 'ab', 'abc')) + ['a'] + ['ab' + 'cdefg'[:i] for i in range(1, d)])
    pats['prefixes-reversed'] = lambda c, u, d: (common(c, ('abc', 'ab', 'a')) + ['a'] + ['abcd'[:4 - i] for i in range(1, u)],
                                                 common(c, ('abc', 'ab', 'a')) + ['ab'] + ['abcd'[:4 - i] for i in range(1, d)])
    return pats


def is_prefix(A, B):
    return A[:len(B)] == B or B[:len(A)] == A


def alphabet_paths(max_len):
    out = []
    for n in range(1, max_len + 1):
        out += [list(p) for p in itertools.product(POS_ALPHABET, repeat=n)]
    return out


def position_scenarios(tier, seed, part):
    """(1) patterns: c common ancestors 0..2 x linking Section 1..4 levels x target 1..4 levels below the branch point
    (target above / beside / below the linking Section, depth difference 0..3, either at top level) x name pattern;
    (2) every pair of paths of length <= 2 over the names a, ab, b, neither a prefix of the other; thorough: also a sample
    of the pairs with a path of length 3.
    Quick: a third of the grid (1), one path form per pair; thorough: all of it in both path forms. Own children of the
    linking Section and the sibling order (linking branch first | target branch first) are drawn per case."""
    owns = list(RESTORING) if part == 'restore' else ['none', 'other-names', 'same-name-property', 'same-name-section']
    hows = ('absolute', 'relative')
    rnd = random.Random('c12-pos-%s-%s' % (part, seed))
    n = 0
    pairs = []
    for pi, (pname, fn) in enumerate(sorted(pos_patterns().items())):
        for c in range(3):
            for u in range(1, 5):
                for d in range(1, 5):
                    if tier == 'quick' and (pi + c + u + d) % 3:      # quick: a third of the grid, rotating with the pattern
                        continue
                    A, B = fn(c, u, d)
                    if not is_prefix(A, B):
                        pairs.append((pname, A, B))
    short = alphabet_paths(2)
    for A in short:
        for B in short:
            if not is_prefix(A, B):
                pairs.append(('alphabet', A, B))
    if tier != 'quick':
        # pairs with a path of length 3: a sample (the full set has about 1300 pairs)
        paths = alphabet_paths(3)
        longer = [(A, B) for A in paths for B in paths if max(len(A), len(B)) == 3 and not is_prefix(A, B)]
        pairs += [('alphabet', A, B) for A, B in rnd.sample(longer, 260)]
    for pname, A, B in pairs:
        n += 1
        if tier == 'quick' or (pname == 'alphabet' and max(len(A), len(B)) == 3):
            combos = [(rnd.choice(hows), rnd.choice(owns), rnd.randrange(2))]
        else:
            combos = [(how, rnd.choice(owns), rnd.randrange(2)) for how in hows]
        for how, own, target_first in combos:
            yield ({'positions': {'linking': '/' + '/'.join(A), 'target': '/' + '/'.join(B), 'target_branch_first': bool(target_first)},
                    'links': [[how, own]], 'pattern': pname},
                   (lambda A=A, B=B, how=how, own=own, target_first=target_first: _build_positions(A, B, how, own, target_first)))


def _build_positions(A, B, how, own, target_first):
    c = 0
    while A[c] == B[c]:
        c += 1
    text = '/' + '/'.join(B) if how == 'absolute' else '../' * (len(A) - c) + '/'.join(B[c:])
    made = {}
    with h.quiet():
        doc = odml.Document(author='me', version='1')

        def add(path, link=None):
            parent = doc
            for i in range(len(path)):
                key = tuple(path[:i + 1])
                if key not in made:
                    depth = i + 1
                    made[key] = odml.Section(name=path[i], type=['t', 'setup/daq'][depth % 2], parent=parent,
                                             definition='at depth %d' % depth if depth % 3 else None,
                                             link=link if depth == len(path) else None)
                    odml.Property(name='v%d_%d' % (depth, len(made)), dtype='int', values=[depth, len(made)], parent=made[key])
                parent = made[key]
            return parent
        if target_first:
            target, linking = add(B), add(A, text)
        else:
            linking, target = add(A, text), add(B)
        # children of the target: names of the alphabet again (a path like .../a/b/a), two levels
        sub = odml.Section(name='a', type='t', parent=target, definition='child of the target')
        odml.Property(name='inner', values=['i', 'j'], parent=sub)
        deep = odml.Section(name=B[-1], type='t', parent=sub)
        odml.Property(name='deep', dtype='float', values=[1.5], parent=deep)
        odml.Section(name='ab', type='setup/daq', parent=target)
        odml.Property(name='a', dtype='string', values=['named like a child Section'], parent=target)
        odml.Property(name='tp', dtype='int', values=[1, 2], unit='mV', parent=target)
    if not add_own_children(linking, target, own):
        return None, None
    return doc, [Link(linking, target, how, own, naming='tree-position ' + pos_feature(A, B))]


# ---------------------------------------------------------------------------------------------
# run_*
# ---------------------------------------------------------------------------------------------

BACKENDS = ['XML', 'JSON', 'YAML']
SKIPPED = []        # scenarios that could not be built (variant not applicable to the target, ...): not counted as cases


def _run(part, tier, seed):
    name = 'C12.' + ('finalize' if part == 'finalize' else 'clean_restores')
    rule = ('every forest shape up to N Sections x every admissible (linking Section, target) pair x {absolute, relative} '
            'path x own children of the linking Section (%s); sampled admissible sets of 2 and 3 links; includes of '
            'every Section (and of the default first Section) of three published documents from every Section of small '
            'documents; link + include together; distinct = (reference kind, path form, own-children variant, relative '
            'position class of L and T, number of references, outcome). The same over shapes up to N-1 Sections with '
            'every object named by one of the modes [%s] (every Section additionally owning children of that mode), own '
            'children of L also with nearly the names of T\'s children%s, the document built | cloned | loaded from '
            'XML/JSON/YAML; includes of Sections of one published document per naming mode. Tree positions with repeated '
            'names: 0..2 common ancestors x linking Section 1..4 x target 1..4 levels below the branch point x name pattern '
            '(distinct | parallel branches with the same names at the same depth | same name at the deepest shared depth | '
            'names of the other branch shifted by one level | a/b/a/b along each path | names that are prefixes of one '
            'another), and every pair of paths up to length 2 (a sample of those up to length 3) over the names a, ab, b'
            % (', '.join(OWN if part == 'finalize' else RESTORING), ', '.join(NAMINGS),
               ' or named like a child of the other kind' if part == 'finalize' else ''))
    col = Col(name, rule=rule, exhaustive=False)
    with Env() as env:
        n = 0
        for wit, builder in itertools.chain(link_scenarios(tier, seed, part), include_scenarios(env, tier, seed, part),
                                            naming_link_scenarios(tier, seed, part), naming_include_scenarios(env, tier, seed, part),
                                            position_scenarios(tier, seed, part)):
            doc, links = builder()
            if doc is None:
                SKIPPED.append(wit)
                continue
            if part == 'restore' and not all(l.restoring for l in links):
                continue
            backend = BACKENDS[n % 3]
            if tier == 'quick' and 'naming' in wit and backend == 'YAML' and n % 7:      # the slowest format less often
                backend = BACKENDS[n % 2]
            n += 1
            # quick tier: the tree-position cases go through one cycle less, and through save/load every fourth time only
            light = tier == 'quick' and 'positions' in wit
            outcome = scenario(col, name, part, doc, links, wit, backend, cycles=1 if light else 2,
                               save_load=not (light and n % 4))
            col.case(cls_key=(tuple(sorted((l.how, l.own, _position(l)) for l in links)), len(links), outcome,
                              links[0].naming, links[0].origin),
                     sample=json.dumps(wit))
    return col.result()


def _position(l):
    if l.how.startswith('include'):
        return 'depth%d' % len(chain(l.sec))
    a, b = chain(l.sec), chain(l.target)
    i = 0
    while i < len(a) and i < len(b) and a[i] is b[i]:
        i += 1
    return 'up%d-down%d-common-%s' % (len(a) - i, len(b) - i, 'root' if i == 0 else 'section')


def run_finalize(tier, seed):
    return _run('finalize', tier, seed)


def run_clean_restores(tier, seed):
    return _run('restore', tier, seed)
