"""
Bounded stand-in for C12 - resolving links and includes only adds copies; cleaning restores the document.

Documents: every forest shape up to N Sections (all Section names distinct and prefixes of one another, every
Section with own Properties, some with definition/reference), every admissible (linking Section L, target T)
pair [T is not L, not an ancestor and not a descendant of L] x path form (absolute | relative) x own children
of L (none | other names | same names ...); combinations of two and three links [no target is, contains or
lies inside a linking Section]; includes through file: URLs of documents saved under /verif/.work/c12.

The oracle keeps snapshots (rcc.harness) and resolves stored paths with its own resolver on private fields.
Nothing is written outside /verif/.work/c12 (the library's download cache is redirected there as well).
"""
from __future__ import annotations

import itertools
import json
import os
import random
import shutil
import tempfile

from rcc import harness as h

odml = h.odml
BaseSection, BaseDocument = h.BaseSection, h.BaseDocument

WORK = os.path.join(h.WORK, 'c12-%d' % os.getpid())     # per process: concurrent runs do not share files
SEC_NAMES = ['a', 'ab', 'b', 'a b', 'abc', 'ba', 'bab']


class Col(h.Collector):
    """Keeps at most 3 failures per (check, cls) so that a frequent class cannot hide the others."""
    def __init__(self, *a, **kw):
        super(Col, self).__init__(*a, **kw)
        self.max_failures = 400
        self.per_class = {}

    def fail(self, check, cls, witness, detail):
        key = (check, tuple(sorted(cls.items())))
        self.per_class[key] = self.per_class.get(key, 0) + 1
        if self.per_class[key] <= 3:
            super(Col, self).fail(check, cls, witness, detail)


# ---------------------------------------------------------------------------------------------
# environment: scratch directory, cache redirection, no background threads
# ---------------------------------------------------------------------------------------------

class Env(object):
    def __enter__(self):
        import odml.terminology as terminology
        self.terminology = terminology
        shutil.rmtree(WORK, ignore_errors=True)
        os.makedirs(os.path.join(WORK, 'tmp'))
        self.old_tmp = tempfile.tempdir
        tempfile.tempdir = os.path.join(WORK, 'tmp')
        terminology.terminologies.clear()
        terminology.terminologies.loading.clear()
        return self

    def __exit__(self, *exc):
        self.terminology.terminologies.clear()
        tempfile.tempdir = self.old_tmp
        shutil.rmtree(WORK, ignore_errors=True)
        return False

    def publish(self, doc, fname):
        """Save `doc` under WORK and load it through the library's terminology loader *now*, so that no
        deferred loading thread is ever started for this URL.  Returns (url, loaded document)."""
        path = os.path.join(WORK, fname)
        with h.quiet():
            odml.save(doc, path, 'XML')
        url = 'file://' + path
        kind, term = h.call(self.terminology.load, url)
        if kind == 'exc' or term is None:
            raise RuntimeError('cannot publish %s: %r' % (url, term))
        return url, term


# ---------------------------------------------------------------------------------------------
# specs
# ---------------------------------------------------------------------------------------------

def count_nodes(forest):
    return sum(1 + count_nodes(sub) for sub in forest)


def shape_index(shape):
    """[(index, parent index or None)] in pre-order."""
    out = []
    counter = itertools.count()

    def rec(forest, par):
        for sub in forest:
            k = next(counter)
            out.append((k, par))
            rec(sub, k)
    rec(shape, None)
    return out


def relatives(parents):
    anc = {}
    for k, par in parents:
        anc[k] = []
        p = par
        while p is not None:
            anc[k].append(p)
            p = dict(parents)[p]
    return anc


def admissible_single(shape):
    parents = shape_index(shape)
    anc = relatives(parents)
    n = len(parents)
    return [(l, t) for l in range(n) for t in range(n) if l != t and t not in anc[l] and l not in anc[t]]


def admissible_sets(shape, k):
    """All sets of k links [(L, T)] obeying the quantifier's exclusions."""
    parents = shape_index(shape)
    anc = relatives(parents)
    single = admissible_single(shape)

    def related(x, y):
        return x == y or x in anc[y] or y in anc[x]
    out = []
    for combo in itertools.combinations(single, k):
        ls = [l for l, _ in combo]
        if len(set(ls)) != len(ls):
            continue
        if any(related(t, l) for _, t in combo for l in ls):
            continue
        out.append(list(combo))
    return out


def sec_attrs(k, rich):
    """Deterministic attributes of Section k."""
    definition = [None, 'definition of %d' % k, None, 'Def %d' % k][k % 4] if rich else None
    reference = ['ref %d' % k, None, None][k % 3] if rich else None
    return definition, reference


# plain values only: the fidelity of save/load for difficult values belongs to C01/C02
PROP_SETS = [
    [('p%d', 'int', [1, 2])],
    [('p%d', 'string', ['x', 'y z']), ('q%d', 'float', [1.5])],
    [('p%d', 'date', ['2020-01-02'])],
    [('p%d', 'boolean', [True]), ('q%d', 'string', ['single']), ('r%d', 'int', [3])],
]

OWN = ['none', 'other-names', 'same-name-property', 'same-name-section', 'same-name-section-other-type']
RESTORING = ('none', 'other-names')


def spec_abs_path(shape, k):
    parents = dict(shape_index(shape))
    names = []
    while k is not None:
        names.insert(0, SEC_NAMES[k])
        k = parents[k]
    return '/' + '/'.join(names)


def spec_rel_path(shape, a, b):
    """Own computation of the relative path from Section a to Section b: up to the closest common container, then down."""
    pa, pb = spec_abs_path(shape, a).split('/')[1:], spec_abs_path(shape, b).split('/')[1:]
    i = 0
    while i < len(pa) and i < len(pb) and pa[i] == pb[i]:
        i += 1
    return '../' * (len(pa) - i) + '/'.join(pb[i:])


def build_doc(shape, rich=True, tuple_props=False, link=None, include=None, prefix=''):
    """Document over the shape; returns (doc, [Section per pre-order index]).
    link / include: {index: text} stored (unresolved) through the Section constructor, as the parsers do."""
    secs = []
    link, include = link or {}, include or {}
    with h.quiet():
        doc = odml.Document(author='me', version='1')
        counter = itertools.count()

        def add(parent, forest):
            for sub in forest:
                k = next(counter)
                definition, reference = sec_attrs(k, rich)
                s = odml.Section(name=prefix + SEC_NAMES[k], type=['t', 'setup/daq'][k % 2], parent=parent,
                                 definition=definition, reference=reference, link=link.get(k), include=include.get(k))
                secs.append(s)
                for pn, dtype, vals in PROP_SETS[k % len(PROP_SETS)]:
                    odml.Property(name=prefix + pn % k, dtype=dtype, values=list(vals), parent=s,
                                  unit='mV' if k % 2 else None, definition='pdef' if k % 3 == 0 else None)
                if tuple_props:
                    odml.Property(name='tup%d' % k, dtype='2-tuple', values=['(1;2)'], parent=s)
                add(s, sub)
        add(doc, shape)
    return doc, secs


def children_of(sec):
    return list(list.__iter__(sec._sections)), list(list.__iter__(sec._props))


def add_own_children(link_sec, target, own):
    """Give the linking Section own children according to the variant. Returns False if not applicable."""
    tsecs, tprops = children_of(target)
    with h.quiet():
        if own == 'none':
            return True
        if own == 'other-names':
            s = odml.Section(name='own sec', type='t', parent=link_sec, definition='own')
            odml.Property(name='ownp', values=['o'], parent=s)
            odml.Property(name='own prop', values=[7], parent=link_sec)
            return True
        if own == 'same-name-property':
            if not tprops:
                return False
            tp = tprops[0]
            odml.Property(name=tp._name, dtype=tp._dtype, values=list(tp._values)[:1] or None, parent=link_sec)
            return True
        if not tsecs:
            return False
        ts = tsecs[0]
        typ = ts.type if own == 'same-name-section' else 'different/type'
        s = odml.Section(name=ts._name, type=typ, parent=link_sec)
        odml.Property(name='inner own', values=[1], parent=s)
        return True


# ---------------------------------------------------------------------------------------------
# own path handling
# ---------------------------------------------------------------------------------------------

def chain(sec):
    out = []
    x = sec
    while x is not None and not isinstance(x, BaseDocument):
        out.insert(0, x)
        x = x._parent
    return out


def abs_path(sec):
    return '/' + '/'.join(s._name for s in chain(sec))


def rel_path(src, dst):
    a, b = chain(src), chain(dst)
    i = 0
    while i < len(a) and i < len(b) and a[i] is b[i]:
        i += 1
    return '../' * (len(a) - i) + '/'.join(s._name for s in b[i:])


def resolve(start, path):
    """Own resolver: '/x/y' from the document, otherwise relative to `start`; '..' parent, '.' self."""
    node = start
    if path.startswith('/'):
        while getattr(node, '_parent', None) is not None:
            node = node._parent
        path = path[1:]
    for part in path.split('/'):
        if node is None:
            return None
        if part == '..':
            node = getattr(node, '_parent', None)
        elif part in ('.', ''):
            continue
        else:
            node = next((c for c in list.__iter__(node._sections) if c._name == part), None)
    return node


# ---------------------------------------------------------------------------------------------
# snapshots with the permitted changes masked
# ---------------------------------------------------------------------------------------------

def masked(doc, links, mode):
    """Frozen snapshot of the document.
    mode 'restore': everything, only the text of the stored link of linking Sections is masked.
    mode 'frame'  : additionally, for every linking Section, the parts finalize may touch are masked: its
                    definition/reference, its merged marker, its child lists except the original children whose
                    name the target does not use."""
    d = h.snap_doc(doc, True, True)
    info = {l._id: (l, keep) for l, keep in links}

    def rec(node):
        node = dict(node)
        if node.get('kind') == 'section' and node['_id'] in info:
            node['_link'] = '<masked>' if node['_link'] is not None else None
            if mode == 'frame':
                keep = info[node['_id']][1]
                for key in ('_definition', '_reference', 'merged', 'child_ids'):
                    node.pop(key, None)
                node['sections'] = tuple(c for c in node['sections'] if c['_id'] in keep)
                node['props'] = tuple(c for c in node['props'] if c['_id'] in keep)
        if 'sections' in node:
            node['sections'] = tuple(rec(c) for c in node['sections'])
        return node
    return h.freeze(rec(d))


def content(obj):
    """Frozen snapshot without ids and identities."""
    return h.snap(obj, ids=False, parent=False)


class Link(object):
    """One reference of the document under test, with what the oracle needs to know about it."""
    def __init__(self, sec, target, how, own):
        self.sec, self.target, self.how, self.own = sec, target, how, own
        tsecs, tprops = children_of(target)
        osecs, oprops = children_of(sec)
        self.orig_children = osecs + oprops
        used_s, used_p = {c._name for c in osecs}, {c._name for c in oprops}
        self.expected = [('section', c) for c in tsecs if c._name not in used_s] + \
                        [('property', c) for c in tprops if c._name not in used_p]
        self.shared = [c for c in tsecs if c._name in used_s] + [c for c in tprops if c._name in used_p]
        tnames_s, tnames_p = {c._name for c in tsecs}, {c._name for c in tprops}
        # original children that finalize must leave alone: those whose name the target does not use
        self.keep_ids = {c._id for c in osecs if c._name not in tnames_s} | {c._id for c in oprops if c._name not in tnames_p}
        self.target_before = h.snap(target)

    @property
    def restoring(self):
        return not self.shared


def feature_of(links):
    fs = sorted({'%s/%s/own-%s' % ('include' if l.how.startswith('include') else 'link', l.how, l.own) for l in links})
    return fs[0] if len(fs) == 1 else 'several: ' + ' + '.join(fs)


def own_feature(links):
    """Stable label of the own-children variant that matters when resolution fails."""
    owns = sorted({l.own for l in links if not l.restoring}) or sorted({l.own for l in links})
    if 'same-name-section-other-type' in owns:
        return 'same-name-section-other-type'
    return '+'.join(owns)


# ---------------------------------------------------------------------------------------------
# contract clauses
# ---------------------------------------------------------------------------------------------

def check_finalized(col, name, doc, links, frame_before, wit, stage):
    """After finalize(): copies present, targets unchanged, rest of the document unchanged."""
    for l in links:
        secs, props = children_of(l.sec)
        for kind, c in l.expected:
            pool = secs if kind == 'section' else props
            mine = [m for m in pool if m._name == c._name]
            if len(mine) != 1 or mine[0] is c or content(mine[0]) != content(c):
                why = 'missing' if not mine else ('is the target\'s own child, not a copy' if mine[0] is c else
                                                  'differs: %s' % h.diff(content(c), content(mine[0])))
                col.fail(check=name + '/copies-present', cls={'clause': 'copies-present', 'feature': '%s %s' % (kind, feature_of([l]))},
                         witness=dict(wit, stage=stage, linking=abs_path(l.sec), child=c._name),
                         detail='linking Section lacks a copy of the target\'s %s %r (%s)' % (kind, c._name, why))
        if l.restoring:
            have = {m._name for m in secs + props}
            want = {c._name for c in l.orig_children} | {c._name for _, c in l.expected}
            if have != want:
                col.fail(check=name + '/only-copies-added', cls={'clause': 'only-copies-added', 'feature': feature_of([l])},
                         witness=dict(wit, stage=stage, linking=abs_path(l.sec)),
                         detail='children of the linking Section are %r; contract: own children + one copy per target child = %r'
                                % (sorted(have), sorted(want)))
        d = h.diff(l.target_before, h.snap(l.target))
        if d:
            col.fail(check=name + '/target-unchanged', cls={'clause': 'target-unchanged', 'feature': feature_of([l])},
                     witness=dict(wit, stage=stage, linking=abs_path(l.sec)), detail='referenced Section changed: %s' % d)
    d = h.diff(frame_before, masked(doc, [(l.sec, l.keep_ids) for l in links], 'frame'))
    if d:
        col.fail(check=name + '/rest-unchanged', cls={'clause': 'rest-unchanged', 'feature': feature_of(links)},
                 witness=dict(wit, stage=stage), detail='a part of the document other than the linking Sections\' new children changed: %s' % d)


def check_restored(col, name, doc, links, restore_before, wit, stage):
    d = h.diff(restore_before, masked(doc, [(l.sec, l.keep_ids) for l in links], 'restore'))
    if d:
        part = d.split(':')[0].rsplit('/', 2)
        what = (part[-2] if len(part) >= 2 else d).lstrip('_')
        if what in ('definition', 'reference'):
            what = 'attribute-filled-from-target (definition/reference)'
        col.fail(check=name + '/clean-restores', cls={'clause': 'clean-restores', 'feature': 'differs in %s' % what},
                 witness=dict(wit, stage=stage), detail='document after clean() differs from the original: %s' % d)
    for l in links:
        if l.how.startswith('include'):
            if l.sec._include != l.include_text:
                col.fail(check=name + '/reference-kept', cls={'clause': 'reference-kept', 'feature': feature_of([l])},
                         witness=dict(wit, stage=stage), detail='include is now %r, was %r' % (l.sec._include, l.include_text))
            continue
        got = resolve(l.sec, l.sec._link) if isinstance(l.sec._link, str) else None
        if got is not l.target:
            col.fail(check=name + '/reference-kept', cls={'clause': 'reference-kept', 'feature': feature_of([l])},
                     witness=dict(wit, stage=stage, linking=abs_path(l.sec), target=abs_path(l.target)),
                     detail='stored link is now %r which designates %r' % (l.sec._link, got))
        if l.sec._merged is not None:
            col.fail(check=name + '/clean-restores', cls={'clause': 'clean-restores', 'feature': 'still-merged'},
                     witness=dict(wit, stage=stage), detail='linking Section still reports is_merged after clean()')


# ---- raw readers of saved files (no odml involved) ---------------------------------------------

def raw_tree(fname, backend):
    if backend == 'XML':
        from lxml import etree
        root = etree.parse(fname).getroot()

        def rec(el):
            text = lambda tag: (el.findtext(tag) if el.find(tag) is not None else None)
            return {'name': text('name'), 'definition': text('definition'), 'link': text('link'), 'include': text('include'),
                    'sections': [rec(c) for c in el.findall('section')],
                    'props': [c.findtext('name') for c in el.findall('property')]}
        return [rec(c) for c in root.findall('section')]
    if backend == 'JSON':
        with open(fname) as f:
            data = json.load(f)
    else:
        import yaml
        with open(fname) as f:
            data = yaml.safe_load(f)

    def rec(d):
        return {'name': d.get('name'), 'definition': d.get('definition'), 'link': d.get('link'), 'include': d.get('include'),
                'sections': [rec(c) for c in d.get('sections') or []],
                'props': [p.get('name') for p in d.get('properties') or []]}
    return [rec(c) for c in data['Document'].get('sections') or []]


def model_tree(raw_doc_snapshot):
    def rec(d):
        return {'name': d['_name'], 'definition': d['_definition'], 'link': d['_link'], 'include': d['_include'],
                'sections': [rec(c) for c in d['sections']], 'props': [p['_name'] for p in d['props']]}
    return [rec(c) for c in raw_doc_snapshot['sections']]


def compare_file(expected, got, path=''):
    """First difference between the model of the original document and the raw content of the file (link text aside)."""
    if len(expected) != len(got):
        return '%s: %d Sections expected, file has %r' % (path or '/', len(expected), [g['name'] for g in got])
    for e, g in zip(expected, got):
        here = path + '/' + str(e['name'])
        if e['name'] != g['name']:
            return '%s: file has Section %r here' % (here, g['name'])
        if (e['link'] is None) != (g['link'] is None) or e['include'] != g['include']:
            return '%s: reference expected link=%r include=%r, file has link=%r include=%r' % (
                here, e['link'], e['include'], g['link'], g['include'])
        if e['definition'] != g['definition']:
            return '%s: definition %r expected, file has %r' % (here, e['definition'], g['definition'])
        if e['props'] != g['props']:
            return '%s: Properties %r expected, file has %r' % (here, e['props'], g['props'])
        d = compare_file(e['sections'], g['sections'], here)
        if d:
            return d
    return None


def diff_class(d):
    if 'definition' in d:
        return 'definition-of-target-in-linking-section'
    if 'Properties' in d:
        return 'properties-of-target-in-linking-section'
    if 'Sections expected' in d or 'file has Section' in d:
        return 'sections-of-target-in-linking-section'
    return 'reference-missing-or-changed'


# ---------------------------------------------------------------------------------------------
# one scenario
# ---------------------------------------------------------------------------------------------

def scenario(col, name, part, doc, links, wit, backend, cycles=2):
    """part: 'finalize' -> first sentence only;  'restore' -> whole life cycle."""
    pairs = [(l.sec, l.keep_ids) for l in links]
    original_model = model_tree(h.snap_doc(doc, True, False))
    frame0 = masked(doc, pairs, 'frame')
    restore0 = masked(doc, pairs, 'restore')
    content0 = None
    kind, res = h.call(doc.finalize)
    if kind == 'exc':
        col.fail(check=name + '/finalize-returns', cls={'clause': 'finalize-returns', 'feature': own_feature(links)},
                 witness=wit, detail='finalize() raised %r' % (res,))
        return 'finalize-raised'
    check_finalized(col, name, doc, links, frame0, wit, 'finalize#1')
    if part == 'finalize':
        # finalize again without clean in between must still satisfy the first sentence
        kind, res = h.call(doc.finalize)
        if kind == 'exc':
            col.fail(check=name + '/finalize-returns', cls={'clause': 'finalize-returns', 'feature': 'second finalize, %s raising %s' % (own_feature(links), type(res).__name__)},
                     witness=wit, detail='second finalize() raised %r' % (res,))
            return 'finalize-raised'
        check_finalized(col, name, doc, links, frame0, wit, 'finalize#2')
        return 'ok'
    content0 = h.snap(doc, ids=False, parent=False)
    for cyc in range(1, cycles + 1):
        kind, res = h.call(doc.clean)
        if kind == 'exc':
            col.fail(check=name + '/clean-returns', cls={'clause': 'clean-returns', 'feature': '%s raising %s' % (feature_of(links), type(res).__name__)},
                     witness=dict(wit, stage='clean#%d' % cyc), detail='clean() raised %r' % (res,))
            return 'clean-raised'
        check_restored(col, name, doc, links, restore0, wit, 'clean#%d' % cyc)
        if cyc == 1:
            _save_load(col, name, doc, links, original_model, wit, backend)
        kind, res = h.call(doc.finalize)
        if kind == 'exc':
            col.fail(check=name + '/finalize-returns', cls={'clause': 'finalize-returns', 'feature': 'after clean, %s raising %s' % (own_feature(links), type(res).__name__)},
                     witness=dict(wit, stage='finalize#%d' % (cyc + 1)), detail='finalize() after clean() raised %r' % (res,))
            return 'finalize-raised'
        check_finalized(col, name, doc, links, frame0, wit, 'finalize#%d' % (cyc + 1))
        d = h.diff(_mask_link_text(content0), _mask_link_text(h.snap(doc, ids=False, parent=False)))
        if d:
            col.fail(check=name + '/refinalize-same', cls={'clause': 'refinalize-same', 'feature': feature_of(links)},
                     witness=dict(wit, stage='finalize#%d' % (cyc + 1)),
                     detail='resolved document differs from the first resolution (ids aside): %s' % d)
    kind, res = h.call(doc.clean)
    if kind == 'ret':
        check_restored(col, name, doc, links, restore0, wit, 'clean#last')
    # resolving twice without a clean in between adds nothing new: one clean still restores the document
    k1, _r1 = h.call(doc.finalize)
    k2, _r2 = h.call(doc.finalize)
    if k1 == 'ret' and k2 == 'ret':
        kind, res = h.call(doc.clean)
        if kind == 'ret':
            check_restored(col, name, doc, links, restore0, wit, 'clean#after-double-finalize')
    return 'ok'


def _mask_link_text(frozen):
    def rec(x):
        if isinstance(x, tuple):
            if len(x) == 2 and x[0] == '_link' and x[1] is not None:
                return ('_link', '<masked>')
            return tuple(rec(v) for v in x)
        return x
    return rec(frozen)


def _save_load(col, name, doc, links, original_model, wit, backend):
    fname = os.path.join(WORK, 'saved.' + backend.lower())
    kind, res = h.call(odml.save, doc, fname, backend)
    if kind == 'exc':
        col.fail(check=name + '/save-after-clean', cls={'clause': 'save-after-clean', 'feature': '%s raising %s' % (backend, type(res).__name__)},
                 witness=wit, detail='saving the cleaned document raised %r' % (res,))
        return
    tree = raw_tree(fname, backend)
    d = compare_file(original_model, tree)
    if d:
        col.fail(check=name + '/file-has-reference-only', cls={'clause': 'file-has-reference-only', 'feature': diff_class(d)},
                 witness=dict(wit, backend=backend), detail='file saved after clean(): %s' % d)
    # the link text in the file designates the target
    kind, loaded = h.call(odml.load, fname, backend)
    if kind == 'exc':
        col.fail(check=name + '/load-saved', cls={'clause': 'load-saved', 'feature': '%s raising %s' % (backend, type(loaded).__name__)},
                 witness=wit, detail='loading the saved file raised %r' % (loaded,))
        return
    for l in links:
        twin = resolve(loaded, abs_path(l.sec))
        if twin is None:
            continue
        if l.how.startswith('include'):
            continue
        twin_target = resolve(twin, twin._link) if isinstance(twin._link, str) else None
        if twin_target is None or abs_path(twin_target) != abs_path(l.target):
            col.fail(check=name + '/reference-kept', cls={'clause': 'reference-kept', 'feature': 'in saved file ' + feature_of([l])},
                     witness=dict(wit, backend=backend),
                     detail='link in the saved file is %r and designates %r; the target is %s'
                            % (twin._link, twin_target, abs_path(l.target)))
    # the loaded document goes through the same cycle
    d = h.diff(_mask_link_text(h.snap(doc, ids=True, parent=False)), _mask_link_text(h.snap(loaded, ids=True, parent=False)))
    if d:
        if True:
            col.fail(check=name + '/loaded-equals-cleaned', cls={'clause': 'loaded-equals-cleaned', 'feature': backend},
                     witness=dict(wit, backend=backend), detail='loaded document differs from the cleaned one: %s' % d)
    before = h.snap(loaded, ids=True, parent=False)
    k1, r1 = h.call(loaded.finalize)
    twins = []
    for l in links:
        twin = resolve(loaded, abs_path(l.sec))
        if twin is not None:
            twins.append((l, twin))
    if k1 == 'ret':
        for l, twin in twins:
            secs, props = children_of(twin)
            for kind_, c in l.expected:
                pool = secs if kind_ == 'section' else props
                if not any(m._name == c._name and content(m) == content(c) for m in pool):
                    col.fail(check=name + '/copies-present', cls={'clause': 'copies-present', 'feature': 'after save+load %s' % feature_of([l])},
                             witness=dict(wit, backend=backend, child=c._name),
                             detail='after save/load/finalize the linking Section lacks a copy of %r' % c._name)
        k2, r2 = h.call(loaded.clean)
        if k2 == 'ret':
            d = h.diff(_mask_link_text(before), _mask_link_text(h.snap(loaded, ids=True, parent=False)))
            if d:
                col.fail(check=name + '/clean-restores', cls={'clause': 'clean-restores', 'feature': 'after save+load'},
                         witness=dict(wit, backend=backend), detail='loaded document: clean after finalize differs: %s' % d)
        else:
            col.fail(check=name + '/clean-returns', cls={'clause': 'clean-returns', 'feature': 'after save+load raising %s' % type(r2).__name__},
                     witness=dict(wit, backend=backend), detail='clean() raised %r' % (r2,))
    else:
        col.fail(check=name + '/finalize-returns', cls={'clause': 'finalize-returns', 'feature': 'after save+load raising %s' % type(r1).__name__},
                 witness=dict(wit, backend=backend), detail='finalize() of the loaded document raised %r' % (r1,))


# ---------------------------------------------------------------------------------------------
# scenario generators
# ---------------------------------------------------------------------------------------------

def library_docs(env):
    """Documents to include from: [(url, loaded document, [target path or None])]."""
    out = []
    for n, shape in enumerate([((),), (((),), ()), ((((),),), ((), ()))]):
        doc, secs = build_doc(shape, rich=True, prefix='inc ' if n == 2 else 'i')
        url, term = env.publish(doc, 'inc_%d.xml' % n)
        tsecs, _ = h.walk(term)
        out.append((url, term, [None] + [abs_path(s) for s in tsecs]))
    return out


def link_scenarios(tier, seed, part):
    """Yield (witness, builder) ; builder() -> (doc, [Link])"""
    rnd = random.Random('c12-%s-%s' % (part, seed))
    max_secs = 4 if tier == 'quick' else 5
    owns = OWN if part == 'finalize' else list(RESTORING)
    for shape in h.tree_shapes(max_secs):
        n = count_nodes(shape)
        singles = admissible_single(shape)
        for (l, t) in singles:
            for how in ('absolute', 'relative'):
                for own in owns:
                    if tier == 'quick' and n == max_secs and how == 'absolute' and own not in ('none', 'same-name-section-other-type'):
                        continue
                    yield ({'shape': repr(shape), 'links': [[l, t, how, own]]},
                           (lambda shape=shape, l=l, t=t, how=how, own=own: _build_links(shape, [(l, t, how, own)])))
        for k in (2, 3):
            sets = admissible_sets(shape, k)
            limit = (6 if tier == 'quick' else 40)
            if len(sets) > limit:
                sets = rnd.sample(sets, limit)
            for combo in sets:
                spec = [(l, t, rnd.choice(['absolute', 'relative']), rnd.choice(owns)) for l, t in combo]
                yield ({'shape': repr(shape), 'links': [list(s) for s in spec]},
                       (lambda shape=shape, spec=spec: _build_links(shape, spec)))


def _link_texts(shape, spec):
    return {l: (spec_abs_path(shape, t) if how == 'absolute' else spec_rel_path(shape, l, t)) for l, t, how, _own in spec}


def _build_links(shape, spec):
    doc, secs = build_doc(shape, link=_link_texts(shape, spec))
    links = []
    for l, t, how, own in spec:
        if not add_own_children(secs[l], secs[t], own):
            return None, None
    for l, t, how, own in spec:
        links.append(Link(secs[l], secs[t], how, own))
    return doc, links


def include_scenarios(env, tier, seed, part):
    rnd = random.Random('c12-inc-%s-%s' % (part, seed))
    libs = library_docs(env)
    owns = OWN if part == 'finalize' else list(RESTORING)
    shapes = [s for s in h.tree_shapes(3 if tier == 'quick' else 4) if count_nodes(s) >= 1]
    for shape in shapes:
        n = count_nodes(shape)
        for l in range(n):
            for (url, term, targets) in libs:
                tl = targets if tier != 'quick' else ([targets[0]] + rnd.sample(targets[1:], min(2, len(targets) - 1)))
                for tpath in tl:
                    own = rnd.choice(owns)
                    yield ({'shape': repr(shape), 'include': [l, os.path.basename(url), tpath, own]},
                           (lambda shape=shape, l=l, url=url, term=term, tpath=tpath, own=own:
                            _build_include(shape, l, url, term, tpath, own)))
    # an include and a link in one document
    for shape in [s for s in h.tree_shapes(4) if len(admissible_single(s)) >= 1][:12 if tier == 'quick' else None]:
        for (l, t) in admissible_single(shape)[:2 if tier == 'quick' else None]:
            others = [k for k in range(count_nodes(shape)) if (k, t) in admissible_single(shape) and k != l]
            if not others:
                continue
            k = others[0]
            url, term, targets = libs[(l + t) % len(libs)]
            tpath = targets[-1]
            yield ({'shape': repr(shape), 'links': [[l, t, 'relative', 'none']], 'include': [k, os.path.basename(url), tpath, 'none']},
                   (lambda shape=shape, l=l, t=t, k=k, url=url, term=term, tpath=tpath:
                    _build_include(shape, k, url, term, tpath, 'none', extra=[(l, t, 'relative', 'none')])))


def _build_include(shape, l, url, term, tpath, own, extra=()):
    text = url if tpath is None else url + '#' + tpath
    doc, secs = build_doc(shape, link=_link_texts(shape, extra), include={l: text})
    target = next(list.__iter__(term._sections), None) if tpath is None else resolve(term, tpath)
    if target is None:          # the published document was damaged by an earlier scenario (reported there)
        return None, None
    if not add_own_children(secs[l], target, own):
        return None, None
    links = []
    for (a, b, how, o) in extra:
        links.append(Link(secs[a], secs[b], how, o))
    lk = Link(secs[l], target, 'include-first-section' if tpath is None else 'include-path', own)
    lk.include_text = text
    links.append(lk)
    return doc, links


# ---------------------------------------------------------------------------------------------
# run_*
# ---------------------------------------------------------------------------------------------

BACKENDS = ['XML', 'JSON', 'YAML']


def _run(part, tier, seed):
    name = 'C12.' + ('finalize' if part == 'finalize' else 'clean_restores')
    rule = ('every forest shape up to N Sections x every admissible (linking Section, target) pair x {absolute, relative} '
            'path x own children of the linking Section (%s); sampled admissible sets of 2 and 3 links; includes of '
            'every Section (and of the default first Section) of three published documents from every Section of small '
            'documents; link + include together; distinct = (reference kind, path form, own-children variant, relative '
            'position class of L and T, number of references, outcome)' % ', '.join(OWN if part == 'finalize' else RESTORING))
    col = Col(name, rule=rule, exhaustive=False)
    with Env() as env:
        n = 0
        for wit, builder in itertools.chain(link_scenarios(tier, seed, part), include_scenarios(env, tier, seed, part)):
            doc, links = builder()
            if doc is None:
                continue
            if part == 'restore' and not all(l.restoring for l in links):
                continue
            backend = BACKENDS[n % 3]
            n += 1
            outcome = scenario(col, name, part, doc, links, wit, backend)
            col.case(cls_key=(tuple(sorted((l.how, l.own, _position(l)) for l in links)), len(links), outcome),
                     sample=json.dumps(wit))
    return col.result()


def _position(l):
    if l.how.startswith('include'):
        return 'depth%d' % len(chain(l.sec))
    a, b = chain(l.sec), chain(l.target)
    i = 0
    while i < len(a) and i < len(b) and a[i] is b[i]:
        i += 1
    return 'up%d-down%d-common-%s' % (len(a) - i, len(b) - i, 'root' if i == 0 else 'section')


def run_finalize(tier, seed):
    return _run('finalize', tier, seed)


def run_clean_restores(tier, seed):
    return _run('restore', tier, seed)
