"""
/venv/bin/python -m rcc.runner  : reads a JSON job list on stdin, runs each bounded job, prints JSON.
job: {"module": "rcc.bounded_pure", "func": "run", "kwargs": {...}}
"""
import importlib
import json
import os
import sys
import time
import traceback

sys.path.insert(0, os.path.dirname(os.path.dirname(os.path.abspath(__file__))))


def main():
    jobs = json.load(sys.stdin)
    out = []
    for job in jobs:
        t0 = time.time()
        try:
            mod = importlib.import_module(job['module'])
            res = getattr(mod, job['func'])(**job.get('kwargs', {}))
            res['wall_s'] = round(time.time() - t0, 2)
            out.append(res)
        except Exception:
            out.append({'name': job.get('name', job['module']), 'error': traceback.format_exc()[-2000:]})
    real_stdout.write(json.dumps(out, default=repr))


if __name__ == '__main__':
    real_stdout = sys.stdout
    sys.stdout = sys.stderr     # anything printed by the code under test goes to stderr
    main()
