"""
Replay a verifier counterexample against the real code.
stdin: JSON {"contract_module", "fid", "obligation", "candidates": [python-literal arg lists]}
stdout: JSON {"reproduced": bool, "args": ..., "failures": [...], "class": {...}}
"""
import ast
import importlib
import json
import os
import sys

sys.path.insert(0, os.path.dirname(os.path.dirname(os.path.abspath(__file__))))

from rcc import native          # noqa: E402
from pyvc import dsl            # noqa: E402


def main():
    job = json.load(sys.stdin)
    cmod = importlib.import_module(job['contract_module'])
    c = dsl.REGISTRY[job['fid']]
    fn, kind = native.resolve(c.base_fid)
    params = job['params']
    out = {'reproduced': False, 'tried': 0}
    for cand in job['candidates']:
        args = ast.literal_eval(cand)
        out['tried'] += 1
        try:
            fails = native.check_pure_call(c, cmod, fn, params, list(args), job.get('obligation'),
                                            nreal=job.get('nreal'))
        except Exception as exc:
            out.setdefault('errors', []).append('%s: %s' % (type(exc).__name__, exc))
            continue
        if fails:
            out.update({'reproduced': True, 'args': cand, 'failures': fails,
                        'class': {p: native.shape(a) for p, a in zip(params, args)}})
            break
    json.dump(out, sys.stdout)


if __name__ == '__main__':
    main()
