"""
Bounded stand-in (run-time contract check) for property C02:
"JSON and YAML save/load are lossless and keep the odML 1.1 layout".

Parts
  run_roundtrip      load(save(doc)) == doc (NO whitespace trimming) x {JSON, YAML} x entry points x dict level
  run_layout         written structure = 1.1 dictionary layout; an independently built dict loads to its document
  run_cross_format   JSON == YAML exactly, == XML up to trimming of text
  run_native_values  values given as unusual native Python objects (time zone aware datetimes / times, subclass
                     instances, microseconds, Decimal / Fraction, huge ints, -0.0, inf, nan, native tuples) through every
                     value entry point: round trip x {JSON, YAML} x string and file entry points + dict level, and
                     JSON == YAML == XML; the writer may raise only for content the format has no form for

Shares the document generator, the independent comparison and the feature labels with b_C01.
The written text is inspected with json / yaml.safe_load directly, never through the library's reader.

Documents (c02_documents): the shared generator (freshly constructed documents) plus documents with an EDITING
HISTORY - what is saved must be what the document shows at that moment, whatever operations it went through:
  merge grids      one document per mechanism (Section.merge strict / lenient, link set while attached, link from the
                   constructor + Document.finalize(), clean(), un-link, unmerge, include through a pre-loaded
                   terminology, edits / clones after a merge) x every combination of own / taken-over definition and
                   reference, with Property merges and nested Section merges
  random histories generated documents x a random sequence of public-API operations (reorder, rename, move, remove and
                   append, clone / clone(keep_id) and re-attach, merge of Sections and Properties strict on/off, link /
                   include / repository, clean, finalize, unmerge, value edits, dtype and cardinality changes, attribute
                   edits incl. '' and None, new_id, create_*/extend/insert, going through a load) and a projection
                   (the document itself, Document.clone, clone(keep_id), export_leaf of a Section / Property)
  fixed            link / include / repository given to the constructors (never resolved)
History documents get a rotating selection of entry points (every writer and every reader once per format) and are
written over an existing longer file.
"""
from __future__ import annotations

import datetime as dt
import json
import os
import random

import yaml

from rcc import harness as h
from rcc import b_C01 as c1

import odml                                                     # noqa: E402
from odml.tools.dict_parser import DictReader, DictWriter         # noqa: E402
from odml.tools.odmlparser import ODMLReader, ODMLWriter          # noqa: E402
from odml.tools import xmlparser as xp                           # noqa: E402

FORMATS = ['JSON', 'YAML']
EXTRA = (('retypable', c1.doc_retypable),)

# odML 1.1 dictionary layout: the element vocabulary of the format, children under their plural names.
# (format.py: *_args keys, and the python-side names of format._map which the layout uses for the two
#  container keys and accepts for the others)
CONTAINER = {'section': 'sections', 'property': 'properties'}


def allowed_keys():
    """level -> allowed dict keys, derived from odml/format.py (args keys and their mapped names)."""
    from odml import format as ofmt
    out = {}
    for level, fmt in (('Document', ofmt.Document), ('Section', ofmt.Section), ('Property', ofmt.Property)):
        keys = set()
        for k in fmt._args:
            keys.add(k)
            keys.add(fmt._map.get(k, k))
        out[level] = keys
    return out


def own_layout_keys():
    """The same table written down independently from the 1.1 vocabulary (c1.VOCAB): every format key,
    with the containers under their plural names."""
    out = {}
    for level, tag in (('Document', 'odML'), ('Section', 'section'), ('Property', 'property')):
        out[level] = set(CONTAINER.get(k, k) for k in c1.VOCAB[tag])
    return out


# ---------------------------------------------------------------------------------------------
# documents with an editing history
# (this block needs only rcc.harness, odml and ODMLReader / ODMLWriter: it can move to harness.py next to gen_docs,
#  so that b_C01 can run its XML round trip over history_documents() as well)
# ---------------------------------------------------------------------------------------------
# The terminology the include attributes point to is put into the library's terminology cache up front, so that
# no network access and no loader thread is needed (terminology.load / deferred_load return cached entries).
TERM_URL = 'http://c02.invalid/terminology.xml'
SRC_STATES = [(sd, sr) for sd in (None, 'source definition') for sr in (None, 'http://c02.invalid/source-ref')]
DST_DEFS = ['none', 'same', 'different']
DST_REFS = [None, 'own reference']


def _source_section(name, sdef, sref, parent):
    """A merge source: definition / reference as given, a Property the destination also has (other values, more
    attributes), one it does not have, and a sub-Section with a definition."""
    src = odml.Section(name=name, type='grid', parent=parent, definition=sdef, reference=sref)
    odml.Property(name='shared', dtype='int', values=[2, 3], parent=src, unit='mV', definition='shared def',
                  uncertainty=0)
    odml.Property(name='extra', dtype='string', values=[' yes ', 'null'], parent=src, reference='extra ref')
    sub = odml.Section(name='sub', type='grid/sub', parent=src, definition='sub definition', reference=sref)
    odml.Property(name='deep', dtype='float', values=[0.0], parent=sub, value_origin='origin.dat')
    return src


def install_terminology():
    """(Re-)install the terminology document under TERM_URL; -> the document."""
    from odml import terminology
    with h.quiet():
        term = odml.Document(author='terminology', version='1')
        for k, (sdef, sref) in enumerate(SRC_STATES):
            _source_section('t%d' % k, sdef, sref, term)
    terminology.terminologies[TERM_URL] = term
    terminology.terminologies.loading.pop(TERM_URL, None)
    return term


MECHANISMS = ['merge-strict', 'merge-lenient', 'link-attached', 'link-relative', 'link-ctor-unresolved',
              'link-ctor+finalize', 'link+clean', 'link+clean+finalize', 'link+unlink', 'merge+unmerge',
              'include-attached', 'include-ctor-unresolved', 'include-ctor+finalize', 'include+clean',
              'merge+own-edit', 'merge+clone-keep-id', 'merge+clone', 'link+reload']


def merge_grid_doc(mech, part=None):
    """One document: for every combination of source (definition, reference) and destination (no / the same /
    another definition, no / own reference) a destination Section that goes through `mech` with its source.
    part=(r, n): only the combinations number k with k % n == r (the quick tier spreads the grid over the mechanisms)."""
    install_terminology()
    with h.quiet():
        doc = odml.Document(author='grid', version=mech, date=dt.date(2024, 2, 29))
        srcroot = odml.Section(name='src', type='grid', parent=doc)
        dstroot = odml.Section(name='dst', type='grid', parent=doc, definition='destinations')
        pairs = []
        k = 0
        for si, (sdef, sref) in enumerate(SRC_STATES):
            for ddef in DST_DEFS:
                for dref in DST_REFS:
                    if part is not None and k % part[1] != part[0]:
                        k += 1
                        continue
                    relative = mech == 'link-relative'
                    src = _source_section('s%d' % k, sdef, sref, dstroot if relative else srcroot)
                    if mech.startswith('include'):
                        target = '%s#/t%d' % (TERM_URL, si)
                    else:
                        target = '../s%d' % k if relative else '/src/s%d' % k
                    kw = {}
                    if mech.startswith('link-ctor'):
                        kw['link'] = target
                    if mech.startswith('include-ctor'):
                        kw['include'] = target
                    own_def = {'none': None, 'same': sdef or 'own definition', 'different': 'another definition'}[ddef]
                    dst = odml.Section(name='d%d' % k, type='grid', parent=dstroot, definition=own_def,
                                       reference=dref, **kw)
                    odml.Property(name='shared', dtype='int', values=[1, 2], parent=dst)
                    odml.Property(name='own', dtype='string', values=['mine'], parent=dst, definition='own def')
                    if k % 2:
                        # a sub-Section of the same name and type: merged recursively, takes over from the source's
                        odml.Section(name='sub', type='grid/sub', parent=dst)
                    pairs.append((dst, src, target))
                    k += 1
        for dst, src, target in pairs:
            if mech in ('merge-strict', 'merge+unmerge', 'merge+own-edit', 'merge+clone-keep-id', 'merge+clone'):
                h.call(dst.merge, src)                      # may refuse (differing definitions): nothing merged then
            elif mech == 'merge-lenient':
                h.call(dst.merge, src, strict=False)
            elif mech in ('link-attached', 'link-relative', 'link+clean', 'link+clean+finalize', 'link+unlink',
                          'link+reload'):
                h.call(setattr, dst, 'link', target)
            elif mech in ('include-attached', 'include+clean'):
                h.call(setattr, dst, 'include', target)
        if mech.endswith('+finalize'):
            if mech == 'link+clean+finalize':
                h.call(doc.clean)
            h.call(doc.finalize)
        elif mech.endswith('+clean'):
            h.call(doc.clean)
        for i, (dst, src, target) in enumerate(pairs):
            if mech == 'link+unlink':
                h.call(setattr, dst, 'link', None)
            elif mech == 'merge+unmerge':
                h.call(dst.unmerge, src)
            elif mech == 'merge+own-edit':
                # the user overrides / removes what the merge brought, or sets what it did not bring
                if i % 3 == 0:
                    dst.definition = 'edited after the merge'
                elif i % 3 == 1:
                    dst.reference = None
                else:
                    dst.reference = 'reference set after the merge'
                    h.call(dst.properties['shared'].append, 99)
            elif mech in ('merge+clone-keep-id', 'merge+clone'):
                par = dst.parent
                pos = par.sections.index(dst)
                clone = dst.clone(keep_id=mech.endswith('keep-id'))
                par.remove(dst)
                par.insert(pos, clone)
        if mech == 'link+reload':
            # the resolved document goes through a file format and is resolved again
            k2, text = h.call(ODMLWriter('YAML').to_string, doc)
            if k2 == 'ret':
                k2, again = h.call(ODMLReader('YAML', show_warnings=False).from_string, text)
                if k2 == 'ret' and isinstance(again, h.BaseDocument):
                    h.call(again.finalize)
                    doc = again
    return doc


def doc_unresolved():
    """link / include / repository as given to the constructors: attributes that were set, nothing resolved."""
    install_terminology()
    with h.quiet():
        doc = odml.Document(author='u', repository=TERM_URL)
        a = odml.Section(name='a', type='t', parent=doc, repository=TERM_URL, definition='a def')
        odml.Property(name='p', values=[1], parent=a)
        odml.Section(name='to-a', type='t', parent=doc, link='/a')
        odml.Section(name='rel', type='t', parent=a, link='..')
        odml.Section(name='inc', type='t', parent=doc, include=TERM_URL + '#/t3')
        odml.Section(name='inc-whole', type='t', parent=a, include=TERM_URL, reference='r')
        odml.Section(name='dangling', type='t', parent=doc, link='/no/such/section')
    return doc


HIST_CARDS = list(h.CARDS) + [(1, 1), (3, 3), (None, 1)]
HIST_TEXTS = ['edited', ' padded edit ', 'yes', '1e3', 'Größe', 'two\nlines', '~', '2020-01-01']
HIST_NAMES = ['renamed', 'n', 'Ab', 'x y', 'señal', 'null', '2020-01-01']
DTYPE_SWITCH = {'string': ['text', 'person', 'url'], 'text': ['string'], 'int': ['float', 'string'],
                'float': ['int', 'string'], 'boolean': ['string', 'int'], 'date': ['string', 'datetime'],
                'time': ['string'], 'datetime': ['string', 'date'], 'url': ['string'], 'person': ['string', 'text'],
                '2-tuple': ['string', '3-tuple'], '3-tuple': ['string']}


def _pick(rnd, seq):
    return seq[rnd.randrange(len(seq))] if seq else None


def _fresh(rnd, taken):
    name = rnd.choice(HIST_NAMES)
    while name in taken:
        name += rnd.choice(['a', 'b', '1'])
    return name


def _names(objs):
    return [o.name for o in objs]


def _unrelated(a, b):
    return a is not b and not h._below(a, b) and not h._below(b, a)


class History(object):
    """A document, a random generator and the operations applied so far. Every operation goes through the
    public API; one that the library refuses (raises) simply did not happen."""

    def __init__(self, doc, rnd, work):
        self.doc, self.rnd, self.work, self.ops = doc, rnd, work, []

    # -- selection -----------------------------------------------------------------------------
    def secs(self):
        return h.walk(self.doc)[0]

    def props(self):
        return h.walk(self.doc)[1]

    def sec(self, pred=lambda s: True):
        return _pick(self.rnd, [s for s in self.secs() if pred(s)])

    def prop(self, pred=lambda p: True):
        return _pick(self.rnd, [p for p in self.props() if pred(p)])

    def container(self, avoid=None, with_doc=True):
        """A Section (or the Document) that does not lie below `avoid`."""
        cands = ([self.doc] if with_doc else []) + self.secs()
        return _pick(self.rnd, [c for c in cands if avoid is None or not h._below(c, avoid)])

    def do(self, fn, *a, **kw):
        return h.call(fn, *a, **kw)

    # -- Section operations --------------------------------------------------------------------
    def op_sec_reorder(self):
        s = self.sec()
        if s is not None:
            self.do(s.reorder, self.rnd.randrange(len(s.parent.sections)))

    def op_sec_rename(self):
        s = self.sec()
        if s is not None:
            self.do(setattr, s, 'name', _fresh(self.rnd, _names(s.parent.sections)))

    def op_sec_move(self):
        s = self.sec()
        t = None if s is None else self.container(avoid=s)
        if t is None or s.name in _names(t.sections):
            return
        how = self.rnd.randrange(3)
        if how == 0:
            self.do(t.append, s)
        elif how == 1:
            self.do(setattr, s, 'parent', t)
        else:
            self.do(t.insert, self.rnd.randrange(len(t.sections) + 1), s)

    def op_sec_remove_append(self):
        s = self.sec()
        if s is None:
            return
        par = s.parent
        if self.rnd.random() < 0.5:
            self.do(setattr, s, 'parent', par)          # re-assigning the parent moves it to the end
        elif self.do(par.remove, s)[0] == 'ret':
            self.do(par.append, s)

    def op_sec_clone_attach(self):
        s = self.sec()
        t = None if s is None else self.container(avoid=s)
        if t is None:
            return
        k, c = self.do(s.clone)
        if k == 'ret':
            if c.name in _names(t.sections):
                self.do(setattr, c, 'name', _fresh(self.rnd, _names(t.sections)))
            self.do(t.append, c)

    def op_sec_clone_replace(self):
        s = self.sec()
        if s is None:
            return
        par = s.parent
        pos = par.sections.index(s)
        kw = self.rnd.choice([{'keep_id': True}, {'keep_id': True}, {}, {'keep_id': True, 'children': False}])
        k, c = self.do(s.clone, **kw)
        if k == 'ret' and self.do(par.remove, s)[0] == 'ret':
            self.do(par.insert, pos, c)

    def op_sec_attr(self):
        s = self.sec()
        if s is not None:
            attr = self.rnd.choice(['definition', 'reference', 'definition', 'reference', 'type'])
            val = self.rnd.choice(HIST_TEXTS + [None, ''] if attr != 'type' else ['t2', 'a/b', 'yes'])
            self.do(setattr, s, attr, val)

    def op_sec_card(self):
        s = self.sec()
        if s is None:
            return
        card = self.rnd.choice(HIST_CARDS + [2, 0])
        how = self.rnd.randrange(3)
        if how == 0 and isinstance(card, tuple):
            self.do(s.set_sections_cardinality, card[0], card[1])
        elif how == 1 and isinstance(card, tuple):
            self.do(s.set_properties_cardinality, card[0], card[1])
        else:
            self.do(setattr, s, self.rnd.choice(['sec_cardinality', 'prop_cardinality']), card)

    def op_sec_merge(self):
        s = self.sec()
        if s is None:
            return
        other = self.sec(lambda o: _unrelated(o, s))
        if other is None or self.rnd.random() < 0.3:
            with h.quiet():
                other = odml.Section(name='template', type=s.type, definition=self.rnd.choice([None, 'template def']),
                                     reference=self.rnd.choice([None, 'template ref']))
                odml.Property(name=self.rnd.choice(['a', 'tp']), dtype='string', values=['from template'],
                              parent=other, unit=self.rnd.choice([None, 'mV']))
                odml.Section(name=self.rnd.choice(['a', 'tsub']), type='t', parent=other, definition='tsub def')
        self.do(s.merge, other, strict=self.rnd.random() < 0.5)

    def op_sec_link(self):
        s = self.sec(lambda x: x.include is None)
        other = None if s is None else self.sec(lambda o: _unrelated(o, s))
        if other is not None:
            k, path = self.do(other.get_path) if self.rnd.random() < 0.6 else self.do(s.get_relative_path, other)
            if k == 'ret':
                self.do(setattr, s, 'link', path)

    def op_sec_link_ctor(self):
        t = self.container()
        other = self.sec()
        if other is not None and t is not None:
            k, path = self.do(other.get_path)
            if k == 'ret':
                self.do(odml.Section, name=_fresh(self.rnd, _names(t.sections)), type=other.type, link=path, parent=t)

    def op_sec_include(self):
        s = self.sec(lambda x: x.link is None)
        if s is not None:
            self.do(setattr, s, 'include', self.rnd.choice([TERM_URL, TERM_URL + '#/t%d' % self.rnd.randrange(4)]))

    def op_sec_unlink(self):
        s = self.sec(lambda x: x.link is not None or x.include is not None)
        if s is not None:
            self.do(setattr, s, 'link' if s.link is not None else 'include', None)

    def op_clean(self):
        target = self.doc if self.rnd.random() < 0.5 else (self.sec() or self.doc)
        self.do(target.clean)

    def op_finalize(self):
        self.do(self.doc.finalize)

    def op_sec_unmerge(self):
        s = self.sec(lambda x: x.is_merged)
        if s is not None:
            self.do(s.unmerge, s.get_merged_equivalent())

    def op_sec_repository(self):
        target = self.doc if self.rnd.random() < 0.3 else (self.sec() or self.doc)
        self.do(setattr, target, 'repository', self.rnd.choice([TERM_URL, TERM_URL, None, '']))

    def op_new_id(self):
        target = self.rnd.choice([self.doc] + self.secs() + self.props())
        self.do(target.new_id)

    def op_create(self):
        t = self.container()
        how = self.rnd.randrange(4)
        if how == 0:
            self.do(t.create_section, _fresh(self.rnd, _names(t.sections)), 'created',
                    definition=self.rnd.choice([None, 'created def']))
        elif how == 1 and t is not self.doc:
            dtype = self.rnd.choice(sorted(h.VALUE_POOL))
            self.do(t.create_property, _fresh(self.rnd, _names(t.properties)),
                    list(self.rnd.choice(h.VALUE_POOL[dtype])), dtype)
        elif how == 2:
            with h.quiet():
                new = [odml.Section(name=_fresh(self.rnd, _names(t.sections)), type='ext')]
                if t is not self.doc:
                    new.append(odml.Property(name=_fresh(self.rnd, _names(t.properties)), values=[1.5, 2.5]))
                    new.reverse()
            self.do(t.extend, new)
        else:
            with h.quiet():
                new = odml.Section(name=_fresh(self.rnd, _names(t.sections)), type='ins', reference='ins ref')
                odml.Property(name='ip', dtype='boolean', values=[False], parent=new)
            self.do(t.insert, self.rnd.randrange(len(t.sections) + 1), new)

    def op_sec_drop(self):
        s = self.sec()
        if s is not None and len(self.secs()) > 1:
            self.do(s.parent.remove, s)

    # -- Property operations -------------------------------------------------------------------
    def op_prop_reorder(self):
        p = self.prop()
        if p is not None:
            self.do(p.reorder, self.rnd.randrange(len(p.parent.properties)))

    def op_prop_rename(self):
        p = self.prop()
        if p is not None:
            self.do(setattr, p, 'name', _fresh(self.rnd, _names(p.parent.properties)))

    def op_prop_move(self):
        p = self.prop()
        t = None if p is None else self.sec(lambda s: s is not p.parent and p.name not in _names(s.properties))
        if t is None:
            return
        how = self.rnd.randrange(3)
        if how == 0:
            self.do(t.append, p)
        elif how == 1:
            self.do(setattr, p, 'parent', t)
        else:
            self.do(t.insert, self.rnd.randrange(len(t.properties) + 1), p)

    def op_prop_remove_append(self):
        p = self.prop()
        if p is None:
            return
        par = p.parent
        if self.rnd.random() < 0.5:
            self.do(setattr, p, 'parent', par)
        elif self.do(par.remove, p)[0] == 'ret':
            self.do(par.append, p)

    def op_prop_clone(self):
        p = self.prop()
        if p is None:
            return
        par = p.parent
        if self.rnd.random() < 0.5:
            pos = par.properties.index(p)
            k, c = self.do(p.clone, keep_id=True)
            if k == 'ret' and self.do(par.remove, p)[0] == 'ret':
                self.do(par.insert, pos, c)
        else:
            t = self.sec()
            k, c = self.do(p.clone)
            if k == 'ret':
                if c.name in _names(t.properties):
                    self.do(setattr, c, 'name', _fresh(self.rnd, _names(t.properties)))
                self.do(t.append, c)

    def _value(self, p):
        pool = h.VALUE_POOL.get(p.dtype) or [['x']]
        return self.rnd.choice(self.rnd.choice(pool))

    def op_prop_values(self):
        p = self.prop()
        if p is None:
            return
        how = self.rnd.randrange(8)
        if how == 0:
            self.do(setattr, p, 'values', list(self.rnd.choice(h.VALUE_POOL.get(p.dtype) or [['x']])))
        elif how == 1:
            self.do(setattr, p, 'values', self.rnd.choice([[], None]))
        elif how == 2:
            self.do(p.append, self._value(p))
        elif how == 3:
            self.do(p.extend, [self._value(p), self._value(p)])
        elif how == 4:
            self.do(p.insert, 0, self._value(p))
        elif how == 5 and len(p) > 0:
            self.do(p.remove, p.values[self.rnd.randrange(len(p))])
        elif how == 6 and len(p) > 0:
            self.do(p.__setitem__, self.rnd.randrange(len(p)), self._value(p))
        elif how == 7:
            self.do(setattr, p, 'value', self._value(p))          # the deprecated alias

    def op_prop_dtype(self):
        p = self.prop()
        if p is not None:
            self.do(setattr, p, 'dtype', self.rnd.choice(DTYPE_SWITCH.get(p.dtype) or ['string']))

    def op_prop_attr(self):
        p = self.prop()
        if p is None:
            return
        attr = self.rnd.choice(['unit', 'uncertainty', 'definition', 'reference', 'dependency', 'dependency_value',
                                'value_origin'])
        if attr == 'uncertainty':
            val = self.rnd.choice([0, 0.0, 0.5, 3, None, ''])
        else:
            val = self.rnd.choice(HIST_TEXTS + [None, ''])
        self.do(setattr, p, attr, val)

    def op_prop_card(self):
        p = self.prop()
        if p is None:
            return
        card = self.rnd.choice(HIST_CARDS + [2])
        if isinstance(card, tuple) and self.rnd.random() < 0.5:
            self.do(p.set_values_cardinality, card[0], card[1])
        else:
            self.do(setattr, p, 'val_cardinality', card)

    def op_prop_merge(self):
        p = self.prop()
        if p is None:
            return
        other = self.prop(lambda o: o is not p and o.dtype == p.dtype)
        if other is None or self.rnd.random() < 0.5:
            k, other = self.do(p.clone)
            if k == 'exc':
                return
            self.do(setattr, other, 'values', list(self.rnd.choice(h.VALUE_POOL.get(p.dtype) or [['x']])))
            for attr, val in (('unit', 'kHz'), ('definition', 'merged-in definition'), ('uncertainty', 0),
                              ('reference', 'merged-in ref'), ('value_origin', 'merged.dat')):
                if self.rnd.random() < 0.5:
                    self.do(setattr, other, attr, val)
        self.do(p.merge, other, strict=self.rnd.random() < 0.5)

    def op_prop_drop(self):
        p = self.prop()
        if p is not None:
            self.do(p.parent.remove, p)

    # -- Document operations -------------------------------------------------------------------
    def op_doc_attr(self):
        attr = self.rnd.choice(['author', 'version', 'date'])
        if attr == 'date':
            val = self.rnd.choice([dt.date(2001, 2, 3), '2011-12-13', None, ''])
        else:
            val = self.rnd.choice(HIST_TEXTS + [None, ''])
        self.do(setattr, self.doc, attr, val)

    def op_through_load(self):
        """The document is saved and loaded (string or file entry points); editing goes on with what was loaded."""
        fmt = self.rnd.choice(['JSON', 'YAML', 'XML'])
        if self.rnd.random() < 0.5:
            k, text = self.do(ODMLWriter(fmt).to_string, self.doc)
            if k == 'exc':
                return
            k, loaded = self.do(ODMLReader(fmt, show_warnings=False).from_string, text)
        else:
            path = os.path.join(self.work, 'history.' + fmt.lower())
            if self.do(odml.save, self.doc, path, fmt)[0] == 'exc':
                return
            k, loaded = self.do(odml.load, path, fmt, show_warnings=False)
        if k == 'ret' and isinstance(loaded, h.BaseDocument):
            self.doc = loaded

    OPS = [('sec_reorder', 3), ('sec_rename', 3), ('sec_move', 3), ('sec_remove_append', 2), ('sec_clone_attach', 3),
           ('sec_clone_replace', 3), ('sec_attr', 3), ('sec_card', 2), ('sec_merge', 5), ('sec_link', 5),
           ('sec_link_ctor', 1), ('sec_include', 2), ('sec_unlink', 2), ('clean', 3), ('finalize', 2),
           ('sec_unmerge', 2), ('sec_repository', 1), ('new_id', 1), ('create', 3), ('sec_drop', 1),
           ('prop_reorder', 3), ('prop_rename', 2), ('prop_move', 3), ('prop_remove_append', 2), ('prop_clone', 3),
           ('prop_values', 6), ('prop_dtype', 2), ('prop_attr', 4), ('prop_card', 2), ('prop_merge', 4),
           ('prop_drop', 1), ('doc_attr', 2), ('through_load', 2)]

    def run(self, n_ops):
        names = [n for n, w in self.OPS for _ in range(w)]
        for _ in range(n_ops):
            name = self.rnd.choice(names)
            self.ops.append(name)
            with h.quiet():
                getattr(self, 'op_' + name)()
        return self

    def projection(self):
        """What is finally saved: the document itself, a clone of it, or the export of one leaf."""
        r = self.rnd.random()
        how, out = 'self', self.doc
        if r < 0.10:
            how, (k, out) = 'Document.clone', self.do(self.doc.clone)
        elif r < 0.20:
            how, (k, out) = 'Document.clone(keep_id)', self.do(self.doc.clone, keep_id=True)
        elif r < 0.30 and self.secs():
            how, (k, out) = 'Section.export_leaf', self.do(self.sec().export_leaf)
        elif r < 0.36 and self.props():
            how, (k, out) = 'Property.export_leaf', self.do(self.prop().export_leaf)
        if not isinstance(out, h.BaseDocument):
            how, out = 'self', self.doc
        self.ops.append('save:' + how)
        return out


def valid_document(doc):
    """The result of a history is only a case when it is a valid document: well-formed tree (parent pointers, unique
    sibling names, canonical ids) with ids that are unique within the document."""
    if h.wellformed(doc):
        return False
    secs, props = h.walk(doc)
    ids = [doc._id] + [o._id for o in secs + props]
    return len(set(ids)) == len(ids)


N_HISTORIES = (60, 1200)      # quick, thorough


def history_documents(tier, seed, work):
    """(label, doc) of the documents with an editing history; deterministic for (tier, seed) up to the ids."""
    install_terminology()
    yield 'unresolved_link_include_repository', doc_unresolved()
    quick = tier == 'quick'
    for m, mech in enumerate(MECHANISMS):
        part = ((m + (seed if isinstance(seed, int) else 0)) % 3, 3) if quick else None
        yield 'merge_grid[%s]%s' % (mech, '' if part is None else '{%d mod 3}' % part[0]), merge_grid_doc(mech, part)
    rnd = random.Random('history-%s-%s' % (tier, seed))
    shapes = [s for s in h.tree_shapes(3 if quick else 4) if s]
    n_docs = N_HISTORIES[0 if quick else 1]
    for i in range(n_docs):
        shape = shapes[i % len(shapes)]
        doc = h.build_doc(shape, rnd, rich=True, hostile=(i % 5 == 4))
        hist = History(doc, rnd, work).run(rnd.choice([1, 2, 4, 8, 16]))
        out = hist.projection()
        yield 'history(%s,%s)[%d]:%s' % (tier, seed, i, '>'.join(hist.ops)), out


def c02_documents(tier, seed, work):
    """(label, doc, kind, index): kind 'base' - freshly constructed documents of the shared generator, all entry
    point combinations; kind 'history' - documents with an editing history, rotating entry points."""
    for label, doc in c1.documents(tier, seed, extra=EXTRA):
        yield label, doc, 'base', 0
    n = 0
    for label, doc in history_documents(tier, seed, work):
        yield label, doc, 'history', n
        n += 1


def object_state(doc, path):
    """Stable label of the state of the object at `path` (names from the root) as the public API shows it: 'merged'
    (a Section that is merged with another one, by merge / link / include), 'link-or-include-unresolved', 'below-merged',
    'plain'. Labelling only."""
    if not path or path == '/':
        return 'document'
    nodes = [doc]
    below = False
    for name in path.strip('/').split('/'):
        nxt = []
        for n in nodes:
            if isinstance(n, h.BaseSection):
                below = below or bool(n.is_merged)
                nxt += [p for p in list.__iter__(n._props) if p._name == name]
            if not isinstance(n, h.BaseProperty):
                nxt += [s for s in list.__iter__(n._sections) if s._name == name]
        nodes = nxt
    secs = [n for n in nodes if isinstance(n, h.BaseSection)]
    if any(n.is_merged for n in secs):
        return 'merged'
    if any(n.link is not None or n.include is not None for n in secs):
        return 'link-or-include-unresolved'
    return 'below-merged' if below else 'plain'


# ---------------------------------------------------------------------------------------------
# the public view: what a document shows through its public attributes
# ---------------------------------------------------------------------------------------------
PUB_DOC = ('id', 'author', 'version', 'date', 'repository')
PUB_SEC = ('name', 'id', 'type', 'definition', 'reference', 'repository', 'link', 'include', 'sec_cardinality',
           'prop_cardinality')
PUB_PROP = ('name', 'id', 'dtype', 'unit', 'uncertainty', 'definition', 'reference', 'dependency',
            'dependency_value', 'value_origin', 'val_cardinality', 'values')


def public_view(obj):
    """Nested (kind, attributes, properties, sections) read through the public attributes only."""
    if isinstance(obj, h.BaseProperty):
        return ('property', tuple((a, h.freeze(h._val(getattr(obj, a)))) for a in PUB_PROP), (), ())
    if isinstance(obj, h.BaseSection):
        return ('section', tuple((a, h.freeze(h._val(getattr(obj, a)))) for a in PUB_SEC),
                tuple(public_view(p) for p in obj.properties), tuple(public_view(s) for s in obj.sections))
    return ('document', tuple((a, h.freeze(h._val(getattr(obj, a)))) for a in PUB_DOC), (),
            tuple(public_view(s) for s in obj.sections))


def public_differences(a, b, path=''):
    """(feature, object path, detail) for two public views."""
    out = []
    if a[0] != b[0]:
        return [('kind', path or '/', '%s vs %s' % (a[0], b[0]))]
    here = path + '/' + str(dict(a[1]).get('name')) if a[0] != 'document' else ''
    for (attr, va), (_attr, vb) in zip(a[1], b[1]):
        if va != vb:
            out.append(('%s.%s' % (a[0], attr), here or '/', 'saved document shows %r, loaded %r' % (va, vb)))
    for idx, key in ((2, 'properties'), (3, 'sections')):
        if len(a[idx]) != len(b[idx]):
            out.append(('%s.%s:count' % (a[0], key), here or '/', 'saved document shows %d %s, loaded %d'
                        % (len(a[idx]), key, len(b[idx]))))
        else:
            for x, y in zip(a[idx], b[idx]):
                out += public_differences(x, y, here)
    return out


# ---------------------------------------------------------------------------------------------
# entry points
# ---------------------------------------------------------------------------------------------
WRITERS = ['ODMLWriter.to_string', 'ODMLWriter.write_file', 'odml.save']
READERS = ['ODMLReader.from_string', 'ODMLReader.from_file', 'odml.load']


STALE = '# content of an earlier, longer file at the same path\n' * 6000


def write_doc(name, fmt, doc, path, stale=False):
    """-> ('exc', e) | ('ret', (text, path)); output is available both as str and as file.
    stale=True: the file writers find an existing, longer file at `path` (saving replaces it)."""
    if os.path.exists(path):
        os.remove(path)
    if stale and name != 'ODMLWriter.to_string':
        with open(path, 'w', encoding='utf-8') as f:
            f.write(STALE)
    if name == 'ODMLWriter.to_string':
        r = h.call(ODMLWriter(fmt).to_string, doc)
    elif name == 'ODMLWriter.write_file':
        r = h.call(ODMLWriter(fmt).write_file, doc, path)
    elif name == 'odml.save':
        r = h.call(odml.save, doc, path, fmt)
    else:
        raise KeyError(name)
    if r[0] == 'exc':
        return r
    if isinstance(r[1], str):
        with open(path, 'w', encoding='utf-8') as f:
            f.write(r[1])
        return 'ret', (r[1], path)
    if not os.path.exists(path):
        return 'exc', IOError('writer returned without writing %s' % path)
    with open(path, 'r', encoding='utf-8') as f:
        return 'ret', (f.read(), path)


def read_doc(name, fmt, text, path):
    if name == 'ODMLReader.from_string':
        return h.call(ODMLReader(fmt, show_warnings=False).from_string, text)
    if name == 'ODMLReader.from_file':
        return h.call(ODMLReader(fmt, show_warnings=False).from_file, path)
    if name == 'odml.load':
        return h.call(odml.load, path, fmt, show_warnings=False)
    raise KeyError(name)


def _collect(found, check, feature, obj, field, detail, pair):
    found.setdefault((check, feature, obj, field), {'pairs': set(), 'detail': detail})['pairs'].add(pair)


def _judge(found, doc, k, loaded, pair, strip=False, public=None):
    """public: public_view(doc) computed before saving - then the loaded document must also SHOW the same through
    its public attributes (reported only where the comparison of the stored fields found nothing)."""
    if k == 'exc':
        _collect(found, 'reader-accepts', c1.exc_feature(loaded), '/', None,
                 'reader raised %s: %s' % (type(loaded).__name__, str(loaded)[:200]), pair)
        return
    if not isinstance(loaded, h.BaseDocument):
        _collect(found, 'reader-accepts', 'no-document-returned', '/', None, 'reader returned %r' % (loaded,), pair)
        return
    diffs = c1.doc_differences(doc, loaded, strip=strip)
    for d in diffs:
        _collect(found, d['clause'], d['feature'], d['object'], d.get('field'), d['detail'], pair)
    if public is not None and not diffs:
        kp, shown = h.call(public_view, loaded)
        if kp == 'exc':
            _collect(found, 'public-view-preserved', 'unreadable:' + c1.exc_feature(shown), '/', None,
                     'reading the public attributes of the loaded document raised %r' % (shown,), pair)
        elif shown != public:
            for feature, obj, detail in public_differences(public, shown):
                _collect(found, 'public-view-preserved', feature, obj, None, detail, pair)


def reader_mode(fmt, reader):
    """Which readers go on after an error (ignore_errors=True): YAML file readers and the lenient DictReader."""
    if reader == 'DictReader(lenient)' or (fmt == 'YAML' and reader in ('ODMLReader.from_file', 'odml.load')) \
            or reader in ('odml.load(yaml)',):
        return 'lenient'
    return 'strict'


def generalise3(triples, all_triples):
    """Failing (format, writer, reader) triples -> labels with 'any' where the entry point / format is
    irrelevant and 'strict' / 'lenient' where only the reader mode matters."""
    triples, all_triples = set(triples), set(all_triples)
    if triples == all_triples:
        return [('any', 'any', 'any')]
    out = []
    rest = set(triples)
    for m in ('strict', 'lenient'):
        ms = set(t for t in all_triples if reader_mode(t[0], t[2]) == m)
        if ms and ms <= triples:
            out.append(('any', 'any', m))
            rest -= ms
    for fmt in sorted(set(t[0] for t in all_triples)):
        mine = set((w, r) for f, w, r in rest if f == fmt)
        every = set((w, r) for f, w, r in all_triples if f == fmt)
        if mine:
            full = set((w, r) for f, w, r in triples if f == fmt)
            out += [(fmt, w, r) for w, r in
                    c1.generalise(full, every, mode=lambda pr, fmt=fmt: reader_mode(fmt, pr[1]))]
    return out


def entry_points(kind, index):
    """writer -> readers. Fresh documents: the full cross product. Documents with a history: every writer and every
    reader once per format (a rotating Latin square), so that string and file entry points are both used."""
    if kind == 'base':
        return dict((w, list(READERS)) for w in WRITERS)
    return dict((w, [READERS[(i + index) % len(READERS)]]) for i, w in enumerate(WRITERS))


class StateLabels(object):
    """Documents with a history: the class of a failure also says in what state the failing object is (merged,
    below a merged Section, ...) - unless freshly constructed documents (which come first) fail in the same class,
    i.e. the failure does not need a history."""

    def __init__(self):
        self.fresh = set()

    def __call__(self, cls, kind, doc, obj):
        key = tuple(sorted((k, str(v)) for k, v in cls.items()))
        if kind == 'base':
            self.fresh.add(key)
        elif key not in self.fresh:
            cls = dict(cls)
            cls['state'] = object_state(doc, obj)
        return cls


def run_roundtrip(tier, seed):
    col = h.Collector(
        'C02.dict_roundtrip',
        rule='documents = harness.gen_docs (all forest shapes up to %d sections x random fillings) + fixed documents '
             '(all dtypes, every cardinality shape incl. min == max, edge strings, every optional attribute, strings '
             'YAML/JSON could re-type as values and as attributes, uncertainty 0 / 0.0) x {JSON, YAML} x 3 writer x 3 '
             'reader entry points, plus DictWriter.to_dict -> DictReader(strict|lenient).to_odml; + documents with an '
             'editing history (%d merge/link/include mechanisms x 24 combinations of own / taken-over definition and '
             'reference; %d generated documents x 1..16 random public-API operations x projection self / clone / '
             'export_leaf; link / include / repository from the constructors) x {JSON, YAML} x rotating entry points '
             '(each writer and reader once, file writers over an existing longer file) + dict level; loaded document '
             'compared on the stored fields and on what it shows through the public attributes; distinct = (document '
             'content signature [+ history], format, writer, reader)'
             % (3 if tier == 'quick' else 4, len(MECHANISMS), N_HISTORIES[0 if tier == 'quick' else 1]), exhaustive=False)
    agg = c1.Agg(col)
    with_state = StateLabels()
    work = c1.fresh_workdir('c02_roundtrip')
    writer_raised = 0
    not_valid = 0
    try:
        for label, doc, kind, index in c02_documents(tier, seed, work):
            if kind == 'history' and not valid_document(doc):
                not_valid += 1          # the operations did not leave a valid document: not a case of this property
                continue
            sig = c1.doc_signature(doc) if kind == 'base' else (c1.doc_signature(doc), label.split('[')[0],
                                                                 label.split(':', 1)[-1])
            before = h.snap(doc, parent=False)
            public = public_view(doc)
            found = {}
            all_triples = []
            readers = entry_points(kind, index)
            for fmt in FORMATS:
                path = os.path.join(work, 'doc.' + fmt.lower())
                for wname in WRITERS:
                    w = write_doc(wname, fmt, doc, path, stale=kind == 'history')
                    if w[0] == 'exc':
                        # a valid document must be writable: the statement has no "or raises" for JSON/YAML
                        writer_raised += 1
                        col.case(cls_key=(sig, fmt, wname, 'writer'), sample=None)
                        all_triples.append((fmt, wname, 'writer'))
                        _collect(found, 'writer-accepts', c1.exc_feature(w[1]), '/', None,
                                 'writer raised %s: %s' % (type(w[1]).__name__, str(w[1])[:200]),
                                 (fmt, wname, 'writer'))
                        continue
                    text, fpath = w[1]
                    for rname in readers[wname]:
                        col.case(cls_key=(sig, fmt, wname, rname),
                                 sample='%s | %s %s -> %s' % (label, fmt, wname, rname))
                        all_triples.append((fmt, wname, rname))
                        k, loaded = read_doc(rname, fmt, text, fpath)
                        _judge(found, doc, k, loaded, (fmt, wname, rname), public=public)
            # dict level (format independent)
            k, d = h.call(DictWriter().to_dict, doc)
            if k == 'exc':
                all_triples.append(('dict', 'DictWriter.to_dict', 'writer'))
                _collect(found, 'writer-accepts', c1.exc_feature(d), '/', None, 'to_dict raised %r' % (d,),
                         ('dict', 'DictWriter.to_dict', 'writer'))
            else:
                for rname, lenient in (('DictReader(strict)', False), ('DictReader(lenient)', True)):
                    col.case(cls_key=(sig, 'dict', 'DictWriter.to_dict', rname),
                             sample='%s | to_dict -> %s' % (label, rname))
                    trip = ('dict', 'DictWriter.to_dict', rname)
                    all_triples.append(trip)
                    rd = DictReader(show_warnings=False, ignore_errors=lenient)
                    k2, loaded = h.call(rd.to_odml, {'Document': d, 'odml-version': c1.FORMAT_VERSION_11})
                    _judge(found, doc, k2, loaded, trip, public=public)
            for (check, feature, obj, field), info in found.items():
                for fl, wl, rl in generalise3(info['pairs'], all_triples):
                    agg.add(check='C02.dict_roundtrip/' + check,
                            cls=with_state({'clause': check, 'feature': feature, 'format': fl, 'writer': wl,
                                            'reader': rl}, kind, doc, obj),
                            witness={'doc': label, 'object': obj, 'field': field,
                                     'entry_points': sorted(info['pairs'])[:3]},
                            detail=info['detail'] + '; contract: loaded document equals the saved one exactly')
            if h.snap(doc, parent=False) != before or public_view(doc) != public:
                agg.add(check='C02.dict_roundtrip/writer-leaves-document-unchanged',
                        cls={'clause': 'writer-leaves-document-unchanged', 'feature': 'any'},
                        witness={'doc': label}, detail='saving/loading changed the original document: %s'
                        % h.diff(before, h.snap(doc, parent=False)))
    finally:
        c1.drop_workdir(work)
    agg.flush()
    res = col.result()
    res['writer_raised'] = writer_raised
    res['histories_not_leaving_a_valid_document'] = not_valid
    return res


# ---------------------------------------------------------------------------------------------
# layout
# ---------------------------------------------------------------------------------------------

def layout_problems(top, allowed, doc):
    """Problems of a parsed JSON/YAML structure against the 1.1 dictionary layout: (feature, detail)."""
    out = []
    if not isinstance(top, dict):
        return [('root-not-a-mapping', type(top).__name__)]
    if set(top) != {'Document', 'odml-version'}:
        out.append(('root-keys', 'root keys are %r' % sorted(map(str, top))))
    if top.get('odml-version') != c1.FORMAT_VERSION_11:
        out.append(('format-version', 'odml-version is %r' % (top.get('odml-version'),)))
    d = top.get('Document')
    if not isinstance(d, dict):
        return out + [('document-not-a-mapping', type(d).__name__)]
    counts = {'sections': 0, 'properties': 0}

    def check(node, level):
        if not isinstance(node, dict):
            out.append(('%s-not-a-mapping' % level.lower(), type(node).__name__))
            return
        for k in node:
            if k not in allowed[level]:
                out.append(('foreign-key:%s-in-%s' % (k, level), 'key %r in a %s mapping' % (k, level)))
        for key in ('sections', 'section'):
            if key in node and level in ('Document', 'Section'):
                if not isinstance(node[key], list):
                    out.append(('sections-not-a-list', type(node[key]).__name__))
                else:
                    for s in node[key]:
                        counts['sections'] += 1
                        check(s, 'Section')
        for key in ('properties', 'property'):
            if key in node and level == 'Section':
                if not isinstance(node[key], list):
                    out.append(('properties-not-a-list', type(node[key]).__name__))
                else:
                    for p in node[key]:
                        counts['properties'] += 1
                        check(p, 'Property')

    check(d, 'Document')
    n_secs, n_props = map(len, h.walk(doc))
    if (counts['sections'], counts['properties']) != (n_secs, n_props):
        out.append(('all-objects-written', 'document has %d sections / %d properties, structure has %d / %d'
                    % (n_secs, n_props, counts['sections'], counts['properties'])))
    return out


def _plain(v, native_dates):
    if isinstance(v, dt.datetime):
        return v if native_dates else v.strftime('%Y-%m-%d %H:%M:%S')
    if isinstance(v, dt.date):
        return v if native_dates else v.strftime('%Y-%m-%d')
    if isinstance(v, dt.time):
        return v.strftime('%H:%M:%S')
    if isinstance(v, list):            # odML n-tuple value
        return '(' + ';'.join(v) + ')'
    return v


def foreign_dict(doc, native_dates=False, python_names=False, omit_empty=False):
    """Independent writer of the 1.1 dictionary layout (reads private fields only).
    python_names=True uses the python-side key names the format maps to (dtype, values, dependency_value)."""
    kn = {'type': 'dtype', 'value': 'values', 'dependencyvalue': 'dependency_value'} if python_names else {}

    def put(d, key, val):
        if val is not None:
            d[key] = val

    def card(c):
        return None if c is None else [c[0], c[1]]

    def prop(p):
        d = {}
        put(d, 'name', p._name)
        put(d, 'id', p._id)
        put(d, kn.get('type', 'type'), p._dtype)
        vals = [_plain(v, native_dates) for v in p._values]
        if vals:
            d[kn.get('value', 'value')] = vals
        put(d, 'unit', p._unit)
        put(d, 'uncertainty', p._uncertainty)
        put(d, 'definition', p._definition)
        put(d, 'reference', p._reference)
        put(d, 'dependency', p._dependency)
        put(d, kn.get('dependencyvalue', 'dependencyvalue'), p._dependency_value)
        put(d, 'value_origin', p._value_origin)
        put(d, 'val_cardinality', card(p._val_cardinality))
        return d

    def sec(s):
        d = {}
        put(d, 'name', s._name)
        put(d, 'type', s.type)
        put(d, 'id', s._id)
        put(d, 'definition', s._definition)
        put(d, 'reference', s._reference)
        put(d, 'repository', s._repository)
        put(d, 'link', s._link)
        put(d, 'include', s._include)
        put(d, 'sec_cardinality', card(s._sec_cardinality))
        put(d, 'prop_cardinality', card(s._prop_cardinality))
        props = [prop(p) for p in list.__iter__(s._props)]
        secs = [sec(c) for c in list.__iter__(s._sections)]
        # another tool may leave out empty containers altogether
        if props or not omit_empty:
            d['properties'] = props
        if secs or not omit_empty:
            d['sections'] = secs
        return d

    d = {}
    put(d, 'author', doc._author)
    put(d, 'version', doc._version)
    put(d, 'date', None if doc._date is None else _plain(doc._date, native_dates))
    put(d, 'id', doc._id)
    put(d, 'repository', doc._repository)
    d['sections'] = [sec(s) for s in list.__iter__(doc._sections)]
    return {'odml-version': c1.FORMAT_VERSION_11, 'Document': d}


# Keys whose value is a text that the layout stores as it is (what each key means is fixed by the format).
TEXT_KEYS = {'Document': ('author', 'version', 'id', 'repository'),
             'Section': ('name', 'type', 'id', 'definition', 'reference', 'repository', 'link', 'include'),
             'Property': ('name', 'id', 'type', 'unit', 'definition', 'reference', 'dependency', 'dependencyvalue',
                          'value_origin')}
PYTHON_KEY = {'Property': {'type': 'dtype', 'dependencyvalue': 'dependency_value', 'value': 'values'}}


def description_problems(top, doc):
    """The written structure, read by its keys (no library code), describes the document: same tree in the same
    order, and every text attribute the document holds stands under its key - nothing missing, nothing added.
    Values, dates, numbers and cardinalities are left to the round trip (their encoding is the reader's business).
    -> (feature, object path, detail)"""
    out = []
    want = foreign_dict(doc)['Document']
    got = top.get('Document') if isinstance(top, dict) else None
    if not isinstance(got, dict):
        return out          # reported by layout_problems

    def key_of(level, node, key):
        alt = PYTHON_KEY.get(level, {}).get(key)
        return node.get(key, node.get(alt) if alt else None)

    def walk(level, w, g, path):
        if not isinstance(g, dict):
            return
        for key in TEXT_KEYS[level]:
            wv, gv = w.get(key), key_of(level, g, key)
            if wv != gv:
                out.append(('%s.%s' % (level.lower(), key), path or '/',
                            'document holds %r, written structure has %r' % (wv, gv)))
        for child, plural, single in (('Section', 'sections', 'section'), ('Property', 'properties', 'property')):
            if level == 'Property' or (level == 'Document' and child == 'Property'):
                continue
            wl = w.get(plural) or []
            gl = g.get(plural, g.get(single)) or []
            if not isinstance(gl, list):
                continue    # reported by layout_problems
            if len(wl) != len(gl):
                out.append(('%s.%s:count' % (level.lower(), plural), path or '/',
                            'document holds %d %s, written structure has %d' % (len(wl), plural, len(gl))))
                continue
            for wc, gc in zip(wl, gl):
                walk(child, wc, gc, '%s/%s' % (path, wc.get('name')))
        if level == 'Property':
            gv = key_of(level, g, 'value')
            if isinstance(gv, list) and len(gv) != len(w.get('value') or []):
                out.append(('property.value:count', path, 'document holds %d values, written structure has %d'
                            % (len(w.get('value') or []), len(gv))))

    walk('Document', want, got, '')
    return out


def run_layout(tier, seed):
    col = h.Collector(
        'C02.dict_layout',
        rule='(a) every document of the generator x {JSON, YAML} x 3 writers: the written text, parsed with json / '
             'yaml.safe_load, has the 1.1 layout and, read by its keys, describes the document (tree, order, every '
             'text attribute); (b) every document serialised by an independent 1.1-layout writer '
             '(format key names | python-side key names, dates as text | native) and loaded through DictReader strict '
             '/ lenient, ODMLReader JSON / YAML from_string and odml.load; distinct = (document content signature, '
             'format/writer or flavour/reader); documents with an editing history (see C02.dict_roundtrip): one '
             'writer per format and one foreign flavour, rotating', exhaustive=False)
    agg = c1.Agg(col)
    with_state = StateLabels()
    work = c1.fresh_workdir('c02_layout')
    try:
        allowed = allowed_keys()
        col.case(cls_key='format-tables', sample='allowed keys derived from odml/format.py vs 1.1 vocabulary')
        own = own_layout_keys()
        for level in own:
            if not own[level] <= allowed[level]:
                agg.add(check='C02.dict_layout/format-tables',
                        cls={'clause': 'format-tables', 'feature': 'missing-1.1-keys:%s' % level},
                        witness={'level': level}, detail='format.py lacks %r' % sorted(own[level] - allowed[level]))
            extra = set(k for k in allowed[level] if k not in own[level]) - \
                {'section', 'property', 'oid', 'dtype', 'values', 'dependency_value'}
            if extra:
                agg.add(check='C02.dict_layout/format-tables',
                        cls={'clause': 'format-tables', 'feature': 'extra-keys:%s' % level},
                        witness={'level': level}, detail='format.py defines %r beyond odML 1.1' % sorted(extra))
        flavours = (('format-keys/text-dates', False, False, False),
                    ('format-keys/native-dates', True, False, False),
                    ('python-keys/text-dates', False, True, False),
                    ('format-keys/empty-containers-omitted', False, False, True))
        for label, doc, kind, index in c02_documents(tier, seed, work):
            if kind == 'history' and not valid_document(doc):
                continue
            sig = c1.doc_signature(doc) if kind == 'base' else (c1.doc_signature(doc), label.split('[')[0],
                                                                 label.split(':', 1)[-1])
            # (a) what the library writes
            for fmt in FORMATS:
                path = os.path.join(work, 'doc.' + fmt.lower())
                for wname in (WRITERS if kind == 'base' else [WRITERS[(index + FORMATS.index(fmt)) % len(WRITERS)]]):
                    col.case(cls_key=(sig, fmt, wname), sample='%s | %s %s' % (label, fmt, wname))
                    w = write_doc(wname, fmt, doc, path, stale=kind == 'history')
                    if w[0] == 'exc':
                        continue        # reported by run_roundtrip
                    text = w[1][0]
                    try:
                        top = json.loads(text) if fmt == 'JSON' else yaml.safe_load(text)
                    except Exception as exc:        # noqa
                        agg.add(check='C02.dict_layout/well-formed',
                                cls={'clause': 'well-formed', 'feature': type(exc).__name__, 'format': fmt},
                                witness={'doc': label, 'writer': wname}, detail=str(exc)[:200])
                        continue
                    for feature, detail in layout_problems(top, allowed, doc):
                        agg.add(check='C02.dict_layout/1.1-layout',
                                cls={'clause': '1.1-layout', 'feature': feature, 'format': fmt},
                                witness={'doc': label, 'writer': wname}, detail=str(detail))
                    for feature, obj, detail in description_problems(top, doc):
                        agg.add(check='C02.dict_layout/written-structure-describes-document',
                                cls=with_state({'clause': 'written-structure-describes-document',
                                                'feature': feature, 'format': fmt}, kind, doc, obj),
                                witness={'doc': label, 'writer': wname, 'object': obj},
                                detail=detail + '; contract: the written structure is the document in the 1.1 layout')
            # (b) what another tool writes
            found = {}
            all_triples = []
            for flavour, native, pynames, omit in (flavours if kind == 'base' else [flavours[index % len(flavours)]]):
                d = foreign_dict(doc, native_dates=native, python_names=pynames, omit_empty=omit)
                own_problems = layout_problems(d, allowed, doc)
                if own_problems:
                    raise AssertionError('foreign dict writer is not in the 1.1 layout: %r' % (own_problems[:3],))
                loaders = [('DictReader(strict)', lambda: DictReader(show_warnings=False).to_odml(d)),
                           ('DictReader(lenient)',
                            lambda: DictReader(show_warnings=False, ignore_errors=True).to_odml(d))]
                ytext = yaml.safe_dump(d, default_flow_style=False)
                if native:
                    ypath = os.path.join(work, 'foreign.yaml')
                    with open(ypath, 'w', encoding='utf-8') as f:
                        f.write(ytext)
                    loaders += [('ODMLReader(YAML).from_string',
                                 lambda: ODMLReader('YAML', show_warnings=False).from_string(ytext)),
                                ('odml.load(yaml)', lambda: odml.load(ypath, 'YAML', show_warnings=False))]
                else:
                    jtext = json.dumps(d, indent=1)
                    jpath = os.path.join(work, 'foreign.json')
                    with open(jpath, 'w', encoding='utf-8') as f:
                        f.write(jtext)
                    loaders += [('ODMLReader(JSON).from_string',
                                 lambda: ODMLReader('JSON', show_warnings=False).from_string(jtext)),
                                ('odml.load(json)', lambda: odml.load(jpath, 'JSON', show_warnings=False)),
                                ('ODMLReader(YAML).from_string',
                                 lambda: ODMLReader('YAML', show_warnings=False).from_string(ytext))]
                for rname, fn in loaders:
                    col.case(cls_key=(sig, 'foreign', flavour, rname), sample='%s | foreign %s -> %s'
                             % (label, flavour, rname))
                    all_triples.append((flavour, 'foreign', rname))
                    k, loaded = h.call(fn)
                    _judge(found, doc, k, loaded, (flavour, 'foreign', rname))
            for (check, feature, obj, field), info in found.items():
                for fl, _wl, rl in generalise3(info['pairs'], all_triples):
                    agg.add(check='C02.dict_layout/foreign-' + check,
                            cls=with_state({'clause': 'foreign-' + check, 'feature': feature, 'flavour': fl,
                                            'reader': rl}, kind, doc, obj),
                            witness={'doc': label, 'object': obj, 'field': field,
                                     'entry_points': sorted(info['pairs'])[:3]},
                            detail=info['detail'] + '; contract: a structure in the 1.1 layout loads to the '
                                                    'document it describes')
    finally:
        c1.drop_workdir(work)
    agg.flush()
    return col.result()


# ---------------------------------------------------------------------------------------------
# cross format
# ---------------------------------------------------------------------------------------------

def run_cross_format(tier, seed):
    col = h.Collector(
        'C02.cross_format',
        rule='every document of the generator: load(JSON text) vs load(YAML text) compared exactly, load(JSON text) vs '
             'load(XML text) compared after trimming text (YAML vs XML only where JSON and YAML differ; string entry points; the file entry points are covered '
             'by the round trips); distinct = (document content signature, pair of formats); incl. the documents with an '
             'editing history (see C02.dict_roundtrip)', exhaustive=False)
    agg = c1.Agg(col)
    work = c1.fresh_workdir('c02_cross')
    try:
        skipped = _cross_format(tier, seed, work, col, agg)
    finally:
        c1.drop_workdir(work)
    agg.flush()
    res = col.result()
    res['pairs_skipped_because_a_side_failed'] = skipped
    return res


def _cross_format(tier, seed, work, col, agg):
    skipped = 0
    with_state = StateLabels()
    for label, doc, kind, _index in c02_documents(tier, seed, work):
        if kind == 'history' and not valid_document(doc):
            continue
        sig = c1.doc_signature(doc) if kind == 'base' else (c1.doc_signature(doc), label.split('[')[0],
                                                             label.split(':', 1)[-1])
        loaded = {}
        for fmt in ('JSON', 'YAML', 'XML'):
            k, text = h.call(ODMLWriter(fmt).to_string, doc)
            if k == 'exc':
                loaded[fmt] = ('write-exc', text)
                continue
            if fmt == 'XML':
                k, res = h.call(xp.XMLReader(show_warnings=False).from_string, text)
            else:
                k, res = h.call(ODMLReader(fmt, show_warnings=False).from_string, text)
            loaded[fmt] = (k, res)
        json_yaml_equal = False
        for a, b, strip in (('JSON', 'YAML', False), ('JSON', 'XML', True), ('YAML', 'XML', True)):
            if (a, b) == ('YAML', 'XML') and json_yaml_equal:
                continue        # follows from the two other comparisons
            col.case(cls_key=(sig, a, b), sample='%s | %s vs %s' % (label, a, b))
            ka, da = loaded[a]
            kb, db = loaded[b]
            if ka != 'ret' or kb != 'ret' or not isinstance(da, h.BaseDocument) or not isinstance(db, h.BaseDocument):
                skipped += 1        # a writer / reader failure is the round-trip checks' business
                continue
            diffs = c1.doc_differences(da, db, strip=strip, label_from=doc)
            if (a, b) == ('JSON', 'YAML') and not diffs:
                json_yaml_equal = True
            for d in diffs:
                agg.add(check='C02.cross_format/%s==%s/%s' % (a.lower(), b.lower(), d['clause']),
                        cls=with_state({'clause': d['clause'], 'feature': d['feature'], 'formats': '%s/%s' % (a, b)},
                                       kind, doc, d['object']),
                        witness={'doc': label, 'object': d['object'], 'field': d.get('field')},
                        detail='%s: %s, %s: %s' % (a, d['detail'].split(', loaded ')[0].replace('original ', ''), b,
                                                   d['detail'].split(', loaded ')[-1]) +
                               '; contract: both formats load to the same document' +
                               (' up to trimming of text' if strip else ''))
    return skipped


# ---------------------------------------------------------------------------------------------
# native Python objects as values
# ---------------------------------------------------------------------------------------------
# The generators above fill Properties with the plain objects a hand-written script uses (str, int, float, bool,
# naive date / time / datetime). A value can also be given as any other Python object the dtype accepts: a time zone
# aware datetime (what datetime.now(timezone.utc) returns), an instance of a subclass, a datetime with microseconds,
# a Decimal, a very large int, -0.0, inf, nan ... Whatever the document holds after such an object was accepted is
# what has to survive save + load, and JSON, YAML and XML have to agree on it. Objects the library refuses did not
# happen; a document whose content the format cannot hold may make the writer raise, but must never be written
# in a form that does not load to the same document.

import decimal
import fractions
import math


class SubDatetime(dt.datetime):
    pass


class SubDate(dt.date):
    pass


class SubTime(dt.time):
    pass


class SubInt(int):
    pass


class SubFloat(float):
    pass


class SubStr(str):
    pass


class RuleZone(dt.tzinfo):
    """A named zone with a daylight saving rule (own class: no time zone database needed)."""

    def dst(self, when):
        summer = when is not None and 4 <= when.month <= 9
        return dt.timedelta(hours=1 if summer else 0)

    def utcoffset(self, when):
        return dt.timedelta(hours=1) + self.dst(when)

    def tzname(self, when):
        return 'CEST' if self.dst(when) else 'CET'


UTC = dt.timezone.utc
PLUS2 = dt.timezone(dt.timedelta(hours=2))
MINUS0530 = dt.timezone(dt.timedelta(hours=-5, minutes=-30), 'odd')
ZONE = RuleZone()

NATIVE_POOL = {
    'datetime': [
        ('tz-aware-utc', dt.datetime(2020, 3, 4, 12, 30, 15, tzinfo=UTC)),
        ('tz-aware-fixed-offset', dt.datetime(2020, 3, 4, 12, 30, 15, tzinfo=PLUS2)),
        ('tz-aware-negative-offset', dt.datetime(2020, 3, 4, 23, 30, 15, tzinfo=MINUS0530)),
        ('tz-aware-named-zone', dt.datetime(2020, 7, 4, 12, 30, 15, tzinfo=ZONE)),
        ('tz-aware+microseconds', dt.datetime(2020, 3, 4, 12, 30, 15, 250000, tzinfo=PLUS2)),
        ('subclass', SubDatetime(2020, 3, 4, 12, 30, 15)),
        ('subclass-tz-aware', SubDatetime(2020, 3, 4, 12, 30, 15, tzinfo=UTC)),
        ('microseconds', dt.datetime(2020, 3, 4, 12, 30, 15, 123456)),
        ('fold', dt.datetime(2020, 10, 25, 2, 30, 0, fold=1)),
        ('year-below-1000', dt.datetime(999, 1, 2, 3, 4, 5)),
        ('year-1', dt.datetime(1, 1, 1, 0, 0, 0)),
        ('year-9999', dt.datetime(9999, 12, 31, 23, 59, 59)),
        ('date-object', dt.date(2020, 3, 4)),
        ('time-object', dt.time(12, 30, 15)),
    ],
    'date': [
        ('subclass', SubDate(2020, 3, 4)),
        ('datetime-object', dt.datetime(2020, 3, 4, 12, 30, 15)),
        ('datetime-object-midnight', dt.datetime(2020, 3, 4)),
        ('datetime-object-tz-aware', dt.datetime(2020, 3, 4, 12, 30, 15, tzinfo=PLUS2)),
        ('datetime-subclass-object', SubDatetime(2020, 3, 4, 0, 0, 0)),
        ('year-below-1000', dt.date(999, 1, 2)),
        ('year-1', dt.date(1, 1, 1)),
        ('year-9999', dt.date(9999, 12, 31)),
    ],
    'time': [
        ('tz-aware-utc', dt.time(12, 30, 15, tzinfo=UTC)),
        ('tz-aware-fixed-offset', dt.time(12, 30, 15, tzinfo=PLUS2)),
        ('tz-aware-named-zone', dt.time(12, 30, 15, tzinfo=ZONE)),
        ('tz-aware+microseconds', dt.time(12, 30, 15, 999999, tzinfo=PLUS2)),
        ('subclass', SubTime(12, 30, 15)),
        ('microseconds', dt.time(12, 30, 15, 500)),
        ('fold', dt.time(2, 30, 0, fold=1)),
        ('datetime-object', dt.datetime(2020, 3, 4, 12, 30, 15)),
    ],
    'int': [
        ('subclass', SubInt(5)), ('bool-true', True), ('bool-false', False),
        ('beyond-64-bit', 10 ** 30), ('beyond-64-bit-negative', -10 ** 30), ('2**63', 2 ** 63), ('2**64', 2 ** 64),
        ('-2**63', -2 ** 63), ('decimal', decimal.Decimal('5')), ('decimal-fraction', decimal.Decimal('5.5')),
        ('fraction', fractions.Fraction(10, 2)), ('float-integral', 5.0), ('float-fractional', 5.7),
        ('float-negative-zero', -0.0), ('float-inf', float('inf')), ('float-nan', float('nan')),
        ('float-beyond-64-bit', 1e30),
    ],
    'float': [
        ('subclass', SubFloat(1.5)), ('subclass-nan', SubFloat('nan')), ('bool-true', True), ('int', 3),
        ('int-subclass', SubInt(3)), ('int-beyond-64-bit', 10 ** 30), ('int-beyond-float-precision', 2 ** 53 + 1),
        ('int-beyond-float-range', 10 ** 400), ('negative-zero', -0.0), ('inf', float('inf')),
        ('negative-inf', float('-inf')), ('nan', float('nan')), ('largest', 1.7976931348623157e308),
        ('smallest-subnormal', 5e-324), ('17-digits', 0.1 + 0.2), ('decimal', decimal.Decimal('1.1')),
        ('decimal-nan', decimal.Decimal('NaN')), ('decimal-long', decimal.Decimal('0.1234567890123456789012345')),
        ('fraction', fractions.Fraction(1, 3)),
    ],
    'boolean': [
        ('int-1', 1), ('int-0', 0), ('int-subclass', SubInt(1)), ('float-1.0', 1.0), ('float-0.0', 0.0),
        ('float-negative-zero', -0.0), ('decimal-1', decimal.Decimal(1)), ('fraction-0', fractions.Fraction(0)),
        ('str-subclass', SubStr('true')), ('int-2', 2),
    ],
    'string': [
        ('subclass', SubStr('abc')), ('subclass-padded', SubStr(' pad ')), ('subclass-retypable', SubStr('null')),
        ('int', 5), ('float', 1.5), ('bool', True), ('bool-false', False), ('int-0', 0), ('date', dt.date(2020, 1, 2)),
        ('datetime-tz-aware', dt.datetime(2020, 3, 4, 12, 30, 15, tzinfo=PLUS2)), ('decimal', decimal.Decimal('1.10')),
        ('fraction', fractions.Fraction(1, 3)), ('bytes', b'bytes'), ('nan', float('nan')), ('tuple', (1, 2)),
        ('int-beyond-64-bit', 10 ** 30),
    ],
    'text': [('subclass', SubStr('line1\nline2')), ('int', 5)],
    'url': [('subclass', SubStr('http://example.org/a?b=1'))],
    'person': [('subclass', SubStr('Doe, Jane'))],
    '2-tuple': [('str-subclass', SubStr('(1;2)')), ('python-tuple-of-int', (1, 2)), ('python-tuple-of-str', ('1', '2')),
                ('python-list-of-str', ['1', '2']), ('python-list-of-str-subclass', [SubStr('1'), SubStr('2')]),
                ('python-tuple-of-float', (1.5, -0.0))],
    '3-tuple': [('str-subclass', SubStr('(a;b;c)')), ('python-tuple-of-mixed', (1, 'b', 2.5))],
    # dtype not given: inferred from the object
    None: [
        ('int-subclass', SubInt(5)), ('float-subclass', SubFloat(1.5)), ('str-subclass', SubStr('x')),
        ('str-subclass-multiline', SubStr('a\nb')), ('datetime-subclass', SubDatetime(2020, 3, 4, 12, 30, 15)),
        ('date-subclass', SubDate(2020, 3, 4)), ('time-subclass', SubTime(1, 2, 3)),
        ('datetime-tz-aware-utc', dt.datetime(2020, 3, 4, 12, 30, 15, tzinfo=UTC)),
        ('datetime-tz-aware-fixed-offset', dt.datetime(2020, 3, 4, 12, 30, 15, tzinfo=PLUS2)),
        ('datetime-tz-aware-named-zone', dt.datetime(2020, 7, 4, 12, 30, 15, tzinfo=ZONE)),
        ('datetime-microseconds', dt.datetime(2020, 3, 4, 12, 30, 15, 123456)),
        ('time-tz-aware', dt.time(12, 30, 15, tzinfo=PLUS2)), ('time-microseconds', dt.time(12, 30, 15, 500)),
        ('decimal', decimal.Decimal('1.5')), ('fraction', fractions.Fraction(1, 2)), ('int-beyond-64-bit', 10 ** 30),
        ('float-nan', float('nan')), ('float-inf', float('inf')), ('float-negative-zero', -0.0), ('bool', True),
        ('bytes', b'x'), ('complex', 1 + 2j),
    ],
}

NATIVE_BASE = {'datetime': dt.datetime(2001, 2, 3, 4, 5, 6), 'date': dt.date(2001, 2, 3), 'time': dt.time(4, 5, 6),
               'int': 7, 'float': 2.5, 'boolean': False, 'string': 'base', 'text': 'base\ntext',
               'url': 'http://base.example', 'person': 'Base, B', '2-tuple': '(8;9)', '3-tuple': '(7;8;9)'}


def _with_base(dtype, name):
    return odml.Property(name=name, dtype=dtype, values=[NATIVE_BASE[dtype]])


def _ep_ctor(sec, name, dtype, o):
    return odml.Property(name=name, dtype=dtype, values=[o])


def _ep_ctor_scalar(sec, name, dtype, o):
    return odml.Property(name=name, dtype=dtype, values=o)


def _ep_ctor_among_plain(sec, name, dtype, o):
    return odml.Property(name=name, dtype=dtype, values=[NATIVE_BASE[dtype], o, NATIVE_BASE[dtype]])


def _ep_ctor_twice(sec, name, dtype, o):
    return odml.Property(name=name, dtype=dtype, values=[o, o])


def _ep_values_setter(sec, name, dtype, o):
    p = _with_base(dtype, name) if dtype else odml.Property(name=name)
    p.values = [o]
    return p


def _ep_values_setter_scalar(sec, name, dtype, o):
    p = _with_base(dtype, name) if dtype else odml.Property(name=name)
    p.values = o
    return p


def _ep_value_alias(sec, name, dtype, o):
    p = _with_base(dtype, name) if dtype else odml.Property(name=name)
    p.value = o
    return p


def _ep_append(sec, name, dtype, o):
    p = _with_base(dtype, name)
    p.append(o)
    return p


def _ep_append_lenient(sec, name, dtype, o):
    p = _with_base(dtype, name)
    p.append(o, strict=False)
    return p


def _ep_append_to_empty(sec, name, dtype, o):
    p = odml.Property(name=name, dtype=dtype)
    p.append(o)
    return p


def _ep_extend(sec, name, dtype, o):
    p = _with_base(dtype, name)
    p.extend([o, o])
    return p


def _ep_extend_lenient(sec, name, dtype, o):
    p = _with_base(dtype, name)
    p.extend([o], strict=False)
    return p


def _ep_extend_empty(sec, name, dtype, o):
    p = odml.Property(name=name, dtype=dtype)
    p.extend([o])
    return p


def _ep_extend_by_property(sec, name, dtype, o):
    p = _with_base(dtype, name)
    p.extend(odml.Property(name='source', dtype=dtype, values=[o]))
    return p


def _ep_insert(sec, name, dtype, o):
    p = _with_base(dtype, name)
    p.insert(0, o)
    return p


def _ep_insert_lenient(sec, name, dtype, o):
    p = _with_base(dtype, name)
    p.insert(1, o, strict=False)
    return p


def _ep_insert_into_empty(sec, name, dtype, o):
    p = odml.Property(name=name, dtype=dtype)
    p.insert(0, o)
    return p


def _ep_setitem(sec, name, dtype, o):
    p = _with_base(dtype, name)
    p[0] = o
    return p


def _ep_merge(sec, name, dtype, o):
    p = _with_base(dtype, name)
    p.merge(odml.Property(name=name, dtype=dtype, values=[o]), strict=False)
    return p


def _ep_clone(sec, name, dtype, o):
    return odml.Property(name=name, dtype=dtype, values=[o]).clone()


def _ep_create_property(sec, name, dtype, o):
    holder = odml.Section(name='holder', type='t')
    p = holder.create_property(name, [o], dtype)
    holder.remove(p)
    return p


# (label, function, needs a dtype given)
VALUE_ENTRY_POINTS = [
    ('ctor', _ep_ctor, False), ('ctor-scalar', _ep_ctor_scalar, False), ('ctor-among-plain', _ep_ctor_among_plain, True),
    ('ctor-twice', _ep_ctor_twice, False), ('values=', _ep_values_setter, False),
    ('values=scalar', _ep_values_setter_scalar, False), ('value=', _ep_value_alias, False), ('append', _ep_append, True),
    ('append-lenient', _ep_append_lenient, True), ('append-to-empty', _ep_append_to_empty, False),
    ('extend', _ep_extend, True), ('extend-lenient', _ep_extend_lenient, True), ('extend-empty', _ep_extend_empty, False),
    ('extend-by-Property', _ep_extend_by_property, True), ('insert', _ep_insert, True),
    ('insert-lenient', _ep_insert_lenient, True), ('insert-into-empty', _ep_insert_into_empty, False),
    ('setitem', _ep_setitem, True), ('merge', _ep_merge, True), ('clone', _ep_clone, False),
    ('create_property', _ep_create_property, False),
]


def native_property(sec, ep, name, dtype, o):
    """The Property that results from giving `o` to the value entry point `ep`, attached to `sec`;
    None when the library refuses the object there (then nothing happened)."""
    fn = dict((lab, f) for lab, f, _ in VALUE_ENTRY_POINTS)[ep]
    k, p = h.call(fn, sec, name, dtype, o)
    if k == 'exc' or not isinstance(p, h.BaseProperty) or p._parent is not None:
        return None
    if h.call(sec.append, p)[0] == 'exc':
        return None
    return p


def entry_points_for(dtype):
    return [lab for lab, _f, needs in VALUE_ENTRY_POINTS if dtype is not None or not needs]


def native_doc(dtype, objs, eps):
    """Document with one Section holding one Property per entry point of `eps` that accepted the object(s);
    objs: one object, or several (then they are given together, as one list, to the constructor).
    -> (doc, accepted entry point labels)"""
    accepted = []
    with h.quiet():
        doc = odml.Document(author='native', version='1')
        sec = odml.Section(name='native', type='values', parent=doc)
        if len(objs) > 1:
            k, p = h.call(odml.Property, name='ctor-list', dtype=dtype, values=list(objs))
            if k == 'ret' and h.call(sec.append, p)[0] == 'ret':
                accepted.append('ctor-list')
        else:
            for ep in eps:
                if native_property(sec, ep, ep, dtype, objs[0]) is not None:
                    accepted.append(ep)
    return doc, accepted


def native_embedded_doc(shape, rnd, dtype, o):
    """A generated document (shared generator) with Properties that got the native object through randomly chosen
    entry points, at randomly chosen places between the generated Properties."""
    accepted = []
    doc = h.build_doc(shape, rnd, rich=False)
    with h.quiet():
        secs = h.walk(doc)[0]
        eps = entry_points_for(dtype)
        for i in range(rnd.choice([1, 2, 3])):
            sec = rnd.choice(secs)
            ep = rnd.choice(eps)
            name = 'native%d:%s' % (i, ep)
            p = native_property(sec, ep, name, dtype, o)
            if p is not None:
                accepted.append(ep)
                h.call(p.reorder, rnd.randrange(len(list(list.__iter__(sec._props)))))
    return doc, accepted


def native_documents(tier, seed):
    """(label, native feature label, structure, doc, accepted entry points, dtype, objects); deterministic for
    (tier, seed) up to the ids. Inputs the library refuses at every entry point yield doc None."""
    quick = tier == 'quick'
    for dtype in NATIVE_POOL:
        dname = dtype or 'inferred'
        eps = entry_points_for(dtype)
        pool = NATIVE_POOL[dtype]
        for kind, o in pool:
            feat = '%s:%s' % (dname, kind)
            doc, acc = native_doc(dtype, [o], eps)
            yield 'native[%s]all-entry-points' % feat, feat, 'all-entry-points', (doc if acc else None), acc, dtype, [o]
        # two different native objects in one list: every ordered pair (thorough only; every entry point list
        # above already has the object between plain values)
        for i, (k1, o1) in enumerate(pool):
            for j, (k2, o2) in enumerate(pool):
                if i == j or quick:
                    continue
                feat = '%s:%s|%s' % (dname, k1, k2)
                doc, acc = native_doc(dtype, [o1, o2], [])
                if acc:
                    yield 'native[%s]ctor-list' % feat, feat, 'ctor-list', doc, acc, dtype, [o1, o2]
    # inside generated documents (quick: every third object, which ones depends on the seed)
    rnd = random.Random('native-%s-%s' % (tier, seed))
    shapes = [s for s in h.tree_shapes(2 if quick else 3) if s]
    i = 0
    for rep in range(1 if quick else 3):
        for dtype in NATIVE_POOL:
            for kind, o in NATIVE_POOL[dtype]:
                i += 1
                if quick and (i + (seed if isinstance(seed, int) else 0)) % 3:
                    continue
                feat = '%s:%s' % (dtype or 'inferred', kind)
                doc, acc = native_embedded_doc(shapes[i % len(shapes)], rnd, dtype, o)
                if acc:
                    yield 'native[%s]embedded(%s,%s)[%d]:%s' % (feat, tier, seed, i, '+'.join(acc)), feat, \
                        'embedded', doc, acc, dtype, [o]


PLAIN_TEXT_FIELDS = {'document': ('_author', '_version', '_repository'),
                     'section': ('_name', '_definition', '_reference', '_repository', '_link', '_include'),
                     'property': ('_name', '_dtype', '_unit', '_definition', '_reference', '_dependency',
                                  '_dependency_value', '_value_origin')}


def holds_only_format_types(doc):
    """Own definition of "the format can hold this document as it is": every value is exactly a bool, a str, an int
    of at most 64 bits, a finite float, a date, a naive time / datetime without a fraction of a second, or a list of
    str (odML n-tuple); text attributes are str, the uncertainty is a finite int / float, the date is a date and the
    cardinalities are pairs of int / None. For such a document the writers have no reason to raise; for any other the
    statement leaves them the choice between raising and writing something that loads to the same document."""
    def plain_number(v):
        return (type(v) is int and abs(v) < 2 ** 63) or (type(v) is float and math.isfinite(v))

    def plain_value(v):
        if type(v) in (bool, str, dt.date):
            return True
        if type(v) in (dt.time, dt.datetime):
            return v.tzinfo is None and v.microsecond == 0
        if type(v) is list:
            return all(type(x) is str for x in v)
        return plain_number(v)

    def plain_card(c):
        return c is None or (type(c) is tuple and len(c) == 2 and all(x is None or type(x) is int for x in c))

    def plain_texts(obj, kind):
        return all(getattr(obj, f, None) is None or type(getattr(obj, f)) is str for f in PLAIN_TEXT_FIELDS[kind])

    secs, props = h.walk(doc)
    if not plain_texts(doc, 'document') or not (doc._date is None or type(doc._date) is dt.date):
        return False
    for s in secs:
        if not plain_texts(s, 'section') or not type(s.type) is str or not plain_card(s._sec_cardinality) \
                or not plain_card(s._prop_cardinality):
            return False
    for p in props:
        if not plain_texts(p, 'property') or not plain_card(p._val_cardinality):
            return False
        if not (p._uncertainty is None or plain_number(p._uncertainty)):
            return False
        if not all(plain_value(v) for v in p._values):
            return False
    return True


def _native_via(objs, accepted):
    """Entry point part of a failure class: the Properties (named after their entry point) the failure shows at."""
    eps = sorted(set(o.rsplit('/', 1)[-1].split(':', 1)[-1] for o in objs if o not in ('/', '')))
    if not eps:
        return 'document'
    if set(eps) >= set(accepted):
        return 'any'
    return '+'.join(eps)


def run_native_values(tier, seed):
    col = h.Collector(
        'C02.native_values',
        rule='values given as native Python objects that are legitimate but unusual: for every dtype (and for the '
             'inferred dtype) time zone aware datetimes / times (utc, fixed offsets, a named zone with a DST rule), '
             'instances of datetime / date / time / int / float / str subclasses, microseconds, fold, years 1 / 999 / '
             '9999, a date where a datetime is expected and vice versa, bool / float / Decimal / Fraction for int and '
             'float, ints beyond 64 bit and beyond the float range, -0.0, inf, nan, native tuples / lists for n-tuples '
             '(%d objects) x %d value entry points (constructor list / scalar / among plain values, values= , value=, '
             'append, extend, insert strict / lenient / into an empty Property, [i]=, extend by a Property, merge, clone, '
             'create_property): one document per object with a Property per accepting entry point%s, and generated '
             'documents with such Properties at random places; each x {JSON, YAML} x 3 writer x 3 reader entry points '
             '(string and file) + DictWriter -> DictReader strict / lenient, compared on the stored fields and the '
             'public attributes; + JSON == YAML exactly and == XML up to trimming; a writer may raise only for a '
             'document holding something the format has no form for; distinct = (native object, structure, format, '
             'writer, reader)'
             % (sum(len(v) for v in NATIVE_POOL.values()), len(VALUE_ENTRY_POINTS),
                '' if tier == 'quick' else ', one per (object, entry point), one per ordered pair of objects of a dtype '
                                           'in one list'), exhaustive=False)
    agg = c1.Agg(col)
    work = c1.fresh_workdir('c02_native')
    counters = {'inputs_refused_at_every_entry_point': [], 'writer_raised_for_unrepresentable_content': 0,
                'documents': 0, 'documents_holding_only_format_types': 0,
                'format_pairs_skipped_because_a_side_failed': 0, 'documents_split_by_entry_point': 0}
    try:
        for n, (label, feat, structure, doc, accepted, dtype, objs) in enumerate(native_documents(tier, seed)):
            if doc is None:
                counters['inputs_refused_at_every_entry_point'].append(feat)
                continue
            if not valid_document(doc):
                continue
            full = tier != 'quick' and structure == 'all-entry-points'
            fails = _native_case(col, work, label, feat, structure, doc, accepted, counters, n, full)
            split = structure == 'all-entry-points' and len(accepted) > 1 and \
                any(f['cls'].get('via') == 'document' for f in fails)
            for f in fails:
                if not (split and f['cls'].get('via') == 'document'):
                    agg.add(**f)
            if split:
                # the file as a whole failed: one document per entry point tells which entry points are concerned
                # (and uncovers what the failure of the whole file hides)
                counters['documents_split_by_entry_point'] += 1
                per_class = {}
                for ep in accepted:
                    doc1, acc1 = native_doc(dtype, objs, [ep])
                    if not acc1 or not valid_document(doc1):
                        continue
                    for f in _native_case(col, work, 'native[%s]%s' % (feat, ep), feat, ep, doc1, acc1, counters,
                                          n, False):
                        cls = dict(f['cls'])
                        cls.pop('via', None)
                        key = (f['check'], tuple(sorted(cls.items())))
                        per_class.setdefault(key, {'f': f, 'cls': cls, 'eps': []})['eps'].append(ep)
                for key in per_class:
                    g = per_class[key]
                    cls = dict(g['cls'])
                    cls['via'] = 'any' if set(g['eps']) >= set(accepted) else '+'.join(sorted(set(g['eps'])))
                    agg.add(check=g['f']['check'], cls=cls, witness=g['f']['witness'], detail=g['f']['detail'])
                for f in fails:
                    # a failure of the whole file that no single entry point reproduces stays as it is
                    cls = dict(f['cls'])
                    if cls.pop('via', None) == 'document' and (f['check'], tuple(sorted(cls.items()))) not in per_class:
                        agg.add(**f)
    finally:
        c1.drop_workdir(work)
    agg.flush()
    res = col.result()
    res.update(counters)
    return res


def _native_case(col, work, label, feat, structure, doc, accepted, counters, index, full):
    """Evaluate one document; -> failures as keyword dicts for Agg.add. full: every writer x every reader, else
    every writer and every reader once per format (rotating with index)."""
    out = []
    single = structure if structure in accepted else None      # document with one entry point only

    def fail(check, cls, witness, detail):
        if cls.get('via') == 'document' and single:
            cls['via'] = single
        out.append({'check': check, 'cls': cls, 'witness': witness, 'detail': detail})

    readers = entry_points('base' if full else 'history', index)
    before = h.snap(doc, parent=False)
    public = public_view(doc)
    plain = holds_only_format_types(doc)
    counters['documents'] += 1
    counters['documents_holding_only_format_types'] += 1 if plain else 0
    found = {}
    all_triples = []
    parsed = {}
    for fmt in FORMATS:
        path = os.path.join(work, 'native.' + fmt.lower())
        for wname in WRITERS:
            w = write_doc(wname, fmt, doc, path)
            if w[0] == 'exc':
                col.case(cls_key=(feat, structure, fmt, wname, 'writer'), sample=None)
                if plain:
                    all_triples.append((fmt, wname, 'writer'))
                    _collect(found, 'writer-accepts', c1.exc_feature(w[1]), '/', None,
                             'writer raised %s: %s' % (type(w[1]).__name__, str(w[1])[:200]), (fmt, wname, 'writer'))
                else:
                    counters['writer_raised_for_unrepresentable_content'] += 1
                continue
            text, fpath = w[1]
            if (fmt, text) not in parsed:
                try:
                    json.loads(text) if fmt == 'JSON' else yaml.safe_load(text)
                    parsed[(fmt, text)] = None
                except Exception as exc:        # noqa
                    parsed[(fmt, text)] = exc
            exc = parsed[(fmt, text)]
            if exc is not None:
                fail(check='C02.native_values/well-formed',
                     cls={'clause': 'well-formed', 'native': feat, 'feature': type(exc).__name__, 'format': fmt,
                          'via': 'document'},
                     witness={'doc': label, 'writer': wname, 'entry_points': accepted},
                     detail='written text is not plain %s: %s; contract: what is written is the document in the '
                            '1.1 layout (or the writer raises)' % (fmt, str(exc)[:160]))
            for rname in readers[wname]:
                col.case(cls_key=(feat, structure, fmt, wname, rname),
                         sample='%s | %s %s -> %s' % (label, fmt, wname, rname))
                all_triples.append((fmt, wname, rname))
                k, loaded = read_doc(rname, fmt, text, fpath)
                _judge(found, doc, k, loaded, (fmt, wname, rname), public=public)
    k, d = h.call(DictWriter().to_dict, doc)
    if k == 'exc':
        if plain:
            all_triples.append(('dict', 'DictWriter.to_dict', 'writer'))
            _collect(found, 'writer-accepts', c1.exc_feature(d), '/', None, 'to_dict raised %r' % (d,),
                     ('dict', 'DictWriter.to_dict', 'writer'))
        else:
            counters['writer_raised_for_unrepresentable_content'] += 1
    else:
        for rname, lenient in (('DictReader(strict)', False), ('DictReader(lenient)', True)):
            col.case(cls_key=(feat, structure, 'dict', 'DictWriter.to_dict', rname),
                     sample='%s | to_dict -> %s' % (label, rname))
            trip = ('dict', 'DictWriter.to_dict', rname)
            all_triples.append(trip)
            rd = DictReader(show_warnings=False, ignore_errors=lenient)
            k2, loaded = h.call(rd.to_odml, {'Document': d, 'odml-version': c1.FORMAT_VERSION_11})
            _judge(found, doc, k2, loaded, trip, public=public)
    # one failure class per (clause, what differs, entry points of the file formats); the value entry points the
    # failing Properties came through are part of the class
    grouped = {}
    for (check, feature, obj, field), info in found.items():
        g = grouped.setdefault((check, feature, field, frozenset(info['pairs'])), {'objs': [], 'detail': info['detail']})
        g['objs'].append(obj)
    for (check, feature, field, pairs), g in grouped.items():
        for fl, wl, rl in generalise3(pairs, all_triples):
            fail(check='C02.native_values/' + check,
                 cls={'clause': check, 'native': feat, 'feature': feature, 'via': _native_via(g['objs'], accepted),
                      'format': fl, 'writer': wl, 'reader': rl},
                 witness={'doc': label, 'objects': sorted(g['objs'])[:4], 'field': field,
                          'entry_points': sorted(pairs)[:3]},
                 detail=g['detail'] + '; contract: loaded document equals the saved one exactly (a document the '
                                      'format cannot hold makes the writer raise)')
    # JSON == YAML == XML (string entry points)
    loaded = {}
    for fmt in ('JSON', 'YAML', 'XML'):
        k, text = h.call(ODMLWriter(fmt).to_string, doc)
        if k == 'exc':
            loaded[fmt] = ('write-exc', text)
        elif fmt == 'XML':
            loaded[fmt] = h.call(xp.XMLReader(show_warnings=False).from_string, text)
        else:
            loaded[fmt] = h.call(ODMLReader(fmt, show_warnings=False).from_string, text)
    json_yaml_equal = False
    for a, b, strip in (('JSON', 'YAML', False), ('JSON', 'XML', True), ('YAML', 'XML', True)):
        if (a, b) == ('YAML', 'XML') and json_yaml_equal:
            continue
        col.case(cls_key=(feat, structure, a, b), sample='%s | %s vs %s' % (label, a, b))
        (ka, da), (kb, db) = loaded[a], loaded[b]
        if ka != 'ret' or kb != 'ret' or not isinstance(da, h.BaseDocument) or not isinstance(db, h.BaseDocument):
            counters['format_pairs_skipped_because_a_side_failed'] += 1
            continue
        diffs = c1.doc_differences(da, db, strip=strip, label_from=doc)
        if (a, b) == ('JSON', 'YAML') and not diffs:
            json_yaml_equal = True
        by = {}
        for dd in diffs:
            by.setdefault((dd['clause'], dd['feature'], dd.get('field')), []).append(dd)
        for (clause, feature, field), dds in by.items():
            fail(check='C02.native_values/%s==%s/%s' % (a.lower(), b.lower(), clause),
                 cls={'clause': clause, 'native': feat, 'feature': feature, 'formats': '%s/%s' % (a, b),
                      'via': _native_via([x['object'] for x in dds], accepted)},
                 witness={'doc': label, 'objects': sorted(x['object'] for x in dds)[:4], 'field': field},
                 detail='%s: %s, %s: %s' % (a, dds[0]['detail'].split(', loaded ')[0].replace('original ', ''), b,
                                            dds[0]['detail'].split(', loaded ')[-1]) +
                        '; contract: both formats load to the same document' +
                        (' up to trimming of text' if strip else ''))
    if h.snap(doc, parent=False) != before or public_view(doc) != public:
        fail(check='C02.native_values/writer-leaves-document-unchanged',
             cls={'clause': 'writer-leaves-document-unchanged', 'native': feat, 'feature': 'any'},
             witness={'doc': label}, detail='saving/loading changed the original document: %s'
             % h.diff(before, h.snap(doc, parent=False)))
    return out
