"""
Bounded stand-in (run-time contract check) for property C02:
"JSON and YAML save/load are lossless and keep the odML 1.1 layout".

Parts
  run_roundtrip      load(save(doc)) == doc (NO whitespace trimming) x {JSON, YAML} x entry points x dict level
  run_layout         written structure = 1.1 dictionary layout; an independently built dict loads to its document
  run_cross_format   JSON == YAML exactly, == XML up to trimming of text

Shares the document generator, the independent comparison and the feature labels with b_C01.
The written text is inspected with json / yaml.safe_load directly, never through the library's reader.
"""
from __future__ import annotations

import datetime as dt
import json
import os

import yaml

from rcc import harness as h
from rcc import b_C01 as c1

import odml                                                     # noqa: E402
from odml.tools.dict_parser import DictReader, DictWriter         # noqa: E402
from odml.tools.odmlparser import ODMLReader, ODMLWriter          # noqa: E402
from odml.tools import xmlparser as xp                           # noqa: E402

FORMATS = ['JSON', 'YAML']
EXTRA = (('retypable', c1.doc_retypable),)

# odML 1.1 dictionary layout: the element vocabulary of the format, children under their plural names.
# (format.py: *_args keys, and the python-side names of format._map which the layout uses for the two
#  container keys and accepts for the others)
CONTAINER = {'section': 'sections', 'property': 'properties'}


def allowed_keys():
    """level -> allowed dict keys, derived from odml/format.py (args keys and their mapped names)."""
    from odml import format as ofmt
    out = {}
    for level, fmt in (('Document', ofmt.Document), ('Section', ofmt.Section), ('Property', ofmt.Property)):
        keys = set()
        for k in fmt._args:
            keys.add(k)
            keys.add(fmt._map.get(k, k))
        out[level] = keys
    return out


def own_layout_keys():
    """The same table written down independently from the 1.1 vocabulary (c1.VOCAB): every format key,
    with the containers under their plural names."""
    out = {}
    for level, tag in (('Document', 'odML'), ('Section', 'section'), ('Property', 'property')):
        out[level] = set(CONTAINER.get(k, k) for k in c1.VOCAB[tag])
    return out


# ---------------------------------------------------------------------------------------------
# entry points
# ---------------------------------------------------------------------------------------------
WRITERS = ['ODMLWriter.to_string', 'ODMLWriter.write_file', 'odml.save']
READERS = ['ODMLReader.from_string', 'ODMLReader.from_file', 'odml.load']


def write_doc(name, fmt, doc, path):
    """-> ('exc', e) | ('ret', (text, path)); output is available both as str and as file."""
    if os.path.exists(path):
        os.remove(path)
    if name == 'ODMLWriter.to_string':
        r = h.call(ODMLWriter(fmt).to_string, doc)
    elif name == 'ODMLWriter.write_file':
        r = h.call(ODMLWriter(fmt).write_file, doc, path)
    elif name == 'odml.save':
        r = h.call(odml.save, doc, path, fmt)
    else:
        raise KeyError(name)
    if r[0] == 'exc':
        return r
    if isinstance(r[1], str):
        with open(path, 'w', encoding='utf-8') as f:
            f.write(r[1])
        return 'ret', (r[1], path)
    if not os.path.exists(path):
        return 'exc', IOError('writer returned without writing %s' % path)
    with open(path, 'r', encoding='utf-8') as f:
        return 'ret', (f.read(), path)


def read_doc(name, fmt, text, path):
    if name == 'ODMLReader.from_string':
        return h.call(ODMLReader(fmt, show_warnings=False).from_string, text)
    if name == 'ODMLReader.from_file':
        return h.call(ODMLReader(fmt, show_warnings=False).from_file, path)
    if name == 'odml.load':
        return h.call(odml.load, path, fmt, show_warnings=False)
    raise KeyError(name)


def _collect(found, check, feature, obj, field, detail, pair):
    found.setdefault((check, feature, obj, field), {'pairs': set(), 'detail': detail})['pairs'].add(pair)


def _judge(found, doc, k, loaded, pair, strip=False):
    if k == 'exc':
        _collect(found, 'reader-accepts', c1.exc_feature(loaded), '/', None,
                 'reader raised %s: %s' % (type(loaded).__name__, str(loaded)[:200]), pair)
        return
    if not isinstance(loaded, h.BaseDocument):
        _collect(found, 'reader-accepts', 'no-document-returned', '/', None, 'reader returned %r' % (loaded,), pair)
        return
    for d in c1.doc_differences(doc, loaded, strip=strip):
        _collect(found, d['clause'], d['feature'], d['object'], d.get('field'), d['detail'], pair)


def reader_mode(fmt, reader):
    """Which readers go on after an error (ignore_errors=True): YAML file readers and the lenient DictReader."""
    if reader == 'DictReader(lenient)' or (fmt == 'YAML' and reader in ('ODMLReader.from_file', 'odml.load')) \
            or reader in ('odml.load(yaml)',):
        return 'lenient'
    return 'strict'


def generalise3(triples, all_triples):
    """Failing (format, writer, reader) triples -> labels with 'any' where the entry point / format is
    irrelevant and 'strict' / 'lenient' where only the reader mode matters."""
    triples, all_triples = set(triples), set(all_triples)
    if triples == all_triples:
        return [('any', 'any', 'any')]
    out = []
    rest = set(triples)
    for m in ('strict', 'lenient'):
        ms = set(t for t in all_triples if reader_mode(t[0], t[2]) == m)
        if ms and ms <= triples:
            out.append(('any', 'any', m))
            rest -= ms
    for fmt in sorted(set(t[0] for t in all_triples)):
        mine = set((w, r) for f, w, r in rest if f == fmt)
        every = set((w, r) for f, w, r in all_triples if f == fmt)
        if mine:
            full = set((w, r) for f, w, r in triples if f == fmt)
            out += [(fmt, w, r) for w, r in
                    c1.generalise(full, every, mode=lambda pr, fmt=fmt: reader_mode(fmt, pr[1]))]
    return out


def run_roundtrip(tier, seed):
    col = h.Collector(
        'C02.dict_roundtrip',
        rule='documents = harness.gen_docs (all forest shapes up to %d sections x random fillings) + fixed documents '
             '(all dtypes, every cardinality shape incl. min == max, edge strings, every optional attribute, strings '
             'YAML/JSON could re-type as values and as attributes, uncertainty 0 / 0.0) x {JSON, YAML} x 3 writer x 3 '
             'reader entry points, plus DictWriter.to_dict -> DictReader(strict|lenient).to_odml; distinct = (document '
             'content signature, format, writer, reader)' % (3 if tier == 'quick' else 4), exhaustive=False)
    agg = c1.Agg(col)
    work = c1.fresh_workdir('c02_roundtrip')
    writer_raised = 0
    try:
        for label, doc in c1.documents(tier, seed, extra=EXTRA):
            sig = c1.doc_signature(doc)
            before = h.snap(doc, parent=False)
            found = {}
            all_triples = []
            for fmt in FORMATS:
                path = os.path.join(work, 'doc.' + fmt.lower())
                for wname in WRITERS:
                    w = write_doc(wname, fmt, doc, path)
                    if w[0] == 'exc':
                        # a valid document must be writable: the statement has no "or raises" for JSON/YAML
                        writer_raised += 1
                        col.case(cls_key=(sig, fmt, wname, 'writer'), sample=None)
                        all_triples.append((fmt, wname, 'writer'))
                        _collect(found, 'writer-accepts', c1.exc_feature(w[1]), '/', None,
                                 'writer raised %s: %s' % (type(w[1]).__name__, str(w[1])[:200]),
                                 (fmt, wname, 'writer'))
                        continue
                    text, fpath = w[1]
                    for rname in READERS:
                        col.case(cls_key=(sig, fmt, wname, rname),
                                 sample='%s | %s %s -> %s' % (label, fmt, wname, rname))
                        all_triples.append((fmt, wname, rname))
                        k, loaded = read_doc(rname, fmt, text, fpath)
                        _judge(found, doc, k, loaded, (fmt, wname, rname))
            # dict level (format independent)
            k, d = h.call(DictWriter().to_dict, doc)
            if k == 'exc':
                all_triples.append(('dict', 'DictWriter.to_dict', 'writer'))
                _collect(found, 'writer-accepts', c1.exc_feature(d), '/', None, 'to_dict raised %r' % (d,),
                         ('dict', 'DictWriter.to_dict', 'writer'))
            else:
                for rname, lenient in (('DictReader(strict)', False), ('DictReader(lenient)', True)):
                    col.case(cls_key=(sig, 'dict', 'DictWriter.to_dict', rname),
                             sample='%s | to_dict -> %s' % (label, rname))
                    trip = ('dict', 'DictWriter.to_dict', rname)
                    all_triples.append(trip)
                    rd = DictReader(show_warnings=False, ignore_errors=lenient)
                    k2, loaded = h.call(rd.to_odml, {'Document': d, 'odml-version': c1.FORMAT_VERSION_11})
                    _judge(found, doc, k2, loaded, trip)
            for (check, feature, obj, field), info in found.items():
                for fl, wl, rl in generalise3(info['pairs'], all_triples):
                    agg.add(check='C02.dict_roundtrip/' + check,
                            cls={'clause': check, 'feature': feature, 'format': fl, 'writer': wl, 'reader': rl},
                            witness={'doc': label, 'object': obj, 'field': field,
                                     'entry_points': sorted(info['pairs'])[:3]},
                            detail=info['detail'] + '; contract: loaded document equals the saved one exactly')
            if h.snap(doc, parent=False) != before:
                agg.add(check='C02.dict_roundtrip/writer-leaves-document-unchanged',
                        cls={'clause': 'writer-leaves-document-unchanged', 'feature': 'any'},
                        witness={'doc': label}, detail='saving/loading changed the original document: %s'
                        % h.diff(before, h.snap(doc, parent=False)))
    finally:
        c1.drop_workdir(work)
    agg.flush()
    res = col.result()
    res['writer_raised'] = writer_raised
    return res


# ---------------------------------------------------------------------------------------------
# layout
# ---------------------------------------------------------------------------------------------

def layout_problems(top, allowed, doc):
    """Problems of a parsed JSON/YAML structure against the 1.1 dictionary layout: (feature, detail)."""
    out = []
    if not isinstance(top, dict):
        return [('root-not-a-mapping', type(top).__name__)]
    if set(top) != {'Document', 'odml-version'}:
        out.append(('root-keys', 'root keys are %r' % sorted(map(str, top))))
    if top.get('odml-version') != c1.FORMAT_VERSION_11:
        out.append(('format-version', 'odml-version is %r' % (top.get('odml-version'),)))
    d = top.get('Document')
    if not isinstance(d, dict):
        return out + [('document-not-a-mapping', type(d).__name__)]
    counts = {'sections': 0, 'properties': 0}

    def check(node, level):
        if not isinstance(node, dict):
            out.append(('%s-not-a-mapping' % level.lower(), type(node).__name__))
            return
        for k in node:
            if k not in allowed[level]:
                out.append(('foreign-key:%s-in-%s' % (k, level), 'key %r in a %s mapping' % (k, level)))
        for key in ('sections', 'section'):
            if key in node and level in ('Document', 'Section'):
                if not isinstance(node[key], list):
                    out.append(('sections-not-a-list', type(node[key]).__name__))
                else:
                    for s in node[key]:
                        counts['sections'] += 1
                        check(s, 'Section')
        for key in ('properties', 'property'):
            if key in node and level == 'Section':
                if not isinstance(node[key], list):
                    out.append(('properties-not-a-list', type(node[key]).__name__))
                else:
                    for p in node[key]:
                        counts['properties'] += 1
                        check(p, 'Property')

    check(d, 'Document')
    n_secs, n_props = map(len, h.walk(doc))
    if (counts['sections'], counts['properties']) != (n_secs, n_props):
        out.append(('all-objects-written', 'document has %d sections / %d properties, structure has %d / %d'
                    % (n_secs, n_props, counts['sections'], counts['properties'])))
    return out


def _plain(v, native_dates):
    if isinstance(v, dt.datetime):
        return v if native_dates else v.strftime('%Y-%m-%d %H:%M:%S')
    if isinstance(v, dt.date):
        return v if native_dates else v.strftime('%Y-%m-%d')
    if isinstance(v, dt.time):
        return v.strftime('%H:%M:%S')
    if isinstance(v, list):            # odML n-tuple value
        return '(' + ';'.join(v) + ')'
    return v


def foreign_dict(doc, native_dates=False, python_names=False, omit_empty=False):
    """Independent writer of the 1.1 dictionary layout (reads private fields only).
    python_names=True uses the python-side key names the format maps to (dtype, values, dependency_value)."""
    kn = {'type': 'dtype', 'value': 'values', 'dependencyvalue': 'dependency_value'} if python_names else {}

    def put(d, key, val):
        if val is not None:
            d[key] = val

    def card(c):
        return None if c is None else [c[0], c[1]]

    def prop(p):
        d = {}
        put(d, 'name', p._name)
        put(d, 'id', p._id)
        put(d, kn.get('type', 'type'), p._dtype)
        vals = [_plain(v, native_dates) for v in p._values]
        if vals:
            d[kn.get('value', 'value')] = vals
        put(d, 'unit', p._unit)
        put(d, 'uncertainty', p._uncertainty)
        put(d, 'definition', p._definition)
        put(d, 'reference', p._reference)
        put(d, 'dependency', p._dependency)
        put(d, kn.get('dependencyvalue', 'dependencyvalue'), p._dependency_value)
        put(d, 'value_origin', p._value_origin)
        put(d, 'val_cardinality', card(p._val_cardinality))
        return d

    def sec(s):
        d = {}
        put(d, 'name', s._name)
        put(d, 'type', s.type)
        put(d, 'id', s._id)
        put(d, 'definition', s._definition)
        put(d, 'reference', s._reference)
        put(d, 'sec_cardinality', card(s._sec_cardinality))
        put(d, 'prop_cardinality', card(s._prop_cardinality))
        props = [prop(p) for p in list.__iter__(s._props)]
        secs = [sec(c) for c in list.__iter__(s._sections)]
        # another tool may leave out empty containers altogether
        if props or not omit_empty:
            d['properties'] = props
        if secs or not omit_empty:
            d['sections'] = secs
        return d

    d = {}
    put(d, 'author', doc._author)
    put(d, 'version', doc._version)
    put(d, 'date', None if doc._date is None else _plain(doc._date, native_dates))
    put(d, 'id', doc._id)
    d['sections'] = [sec(s) for s in list.__iter__(doc._sections)]
    return {'odml-version': c1.FORMAT_VERSION_11, 'Document': d}


def run_layout(tier, seed):
    col = h.Collector(
        'C02.dict_layout',
        rule='(a) every document of the generator x {JSON, YAML} x 3 writers: the written text, parsed with json / '
             'yaml.safe_load, has the 1.1 layout; (b) every document serialised by an independent 1.1-layout writer '
             '(format key names | python-side key names, dates as text | native) and loaded through DictReader strict '
             '/ lenient, ODMLReader JSON / YAML from_string and odml.load; distinct = (document content signature, '
             'format/writer or flavour/reader)', exhaustive=False)
    agg = c1.Agg(col)
    work = c1.fresh_workdir('c02_layout')
    try:
        allowed = allowed_keys()
        col.case(cls_key='format-tables', sample='allowed keys derived from odml/format.py vs 1.1 vocabulary')
        own = own_layout_keys()
        for level in own:
            if not own[level] <= allowed[level]:
                agg.add(check='C02.dict_layout/format-tables',
                        cls={'clause': 'format-tables', 'feature': 'missing-1.1-keys:%s' % level},
                        witness={'level': level}, detail='format.py lacks %r' % sorted(own[level] - allowed[level]))
            extra = set(k for k in allowed[level] if k not in own[level]) - \
                {'section', 'property', 'oid', 'dtype', 'values', 'dependency_value'}
            if extra:
                agg.add(check='C02.dict_layout/format-tables',
                        cls={'clause': 'format-tables', 'feature': 'extra-keys:%s' % level},
                        witness={'level': level}, detail='format.py defines %r beyond odML 1.1' % sorted(extra))
        for label, doc in c1.documents(tier, seed, extra=EXTRA):
            sig = c1.doc_signature(doc)
            # (a) what the library writes
            for fmt in FORMATS:
                path = os.path.join(work, 'doc.' + fmt.lower())
                for wname in WRITERS:
                    col.case(cls_key=(sig, fmt, wname), sample='%s | %s %s' % (label, fmt, wname))
                    w = write_doc(wname, fmt, doc, path)
                    if w[0] == 'exc':
                        continue        # reported by run_roundtrip
                    text = w[1][0]
                    try:
                        top = json.loads(text) if fmt == 'JSON' else yaml.safe_load(text)
                    except Exception as exc:        # noqa
                        agg.add(check='C02.dict_layout/well-formed',
                                cls={'clause': 'well-formed', 'feature': type(exc).__name__, 'format': fmt},
                                witness={'doc': label, 'writer': wname}, detail=str(exc)[:200])
                        continue
                    for feature, detail in layout_problems(top, allowed, doc):
                        agg.add(check='C02.dict_layout/1.1-layout',
                                cls={'clause': '1.1-layout', 'feature': feature, 'format': fmt},
                                witness={'doc': label, 'writer': wname}, detail=str(detail))
            # (b) what another tool writes
            found = {}
            all_triples = []
            for flavour, native, pynames, omit in (('format-keys/text-dates', False, False, False),
                                                   ('format-keys/native-dates', True, False, False),
                                                   ('python-keys/text-dates', False, True, False),
                                                   ('format-keys/empty-containers-omitted', False, False, True)):
                d = foreign_dict(doc, native_dates=native, python_names=pynames, omit_empty=omit)
                own_problems = layout_problems(d, allowed, doc)
                if own_problems:
                    raise AssertionError('foreign dict writer is not in the 1.1 layout: %r' % (own_problems[:3],))
                loaders = [('DictReader(strict)', lambda: DictReader(show_warnings=False).to_odml(d)),
                           ('DictReader(lenient)',
                            lambda: DictReader(show_warnings=False, ignore_errors=True).to_odml(d))]
                ytext = yaml.safe_dump(d, default_flow_style=False)
                if native:
                    ypath = os.path.join(work, 'foreign.yaml')
                    with open(ypath, 'w', encoding='utf-8') as f:
                        f.write(ytext)
                    loaders += [('ODMLReader(YAML).from_string',
                                 lambda: ODMLReader('YAML', show_warnings=False).from_string(ytext)),
                                ('odml.load(yaml)', lambda: odml.load(ypath, 'YAML', show_warnings=False))]
                else:
                    jtext = json.dumps(d, indent=1)
                    jpath = os.path.join(work, 'foreign.json')
                    with open(jpath, 'w', encoding='utf-8') as f:
                        f.write(jtext)
                    loaders += [('ODMLReader(JSON).from_string',
                                 lambda: ODMLReader('JSON', show_warnings=False).from_string(jtext)),
                                ('odml.load(json)', lambda: odml.load(jpath, 'JSON', show_warnings=False)),
                                ('ODMLReader(YAML).from_string',
                                 lambda: ODMLReader('YAML', show_warnings=False).from_string(ytext))]
                for rname, fn in loaders:
                    col.case(cls_key=(sig, 'foreign', flavour, rname), sample='%s | foreign %s -> %s'
                             % (label, flavour, rname))
                    all_triples.append((flavour, 'foreign', rname))
                    k, loaded = h.call(fn)
                    _judge(found, doc, k, loaded, (flavour, 'foreign', rname))
            for (check, feature, obj, field), info in found.items():
                for fl, _wl, rl in generalise3(info['pairs'], all_triples):
                    agg.add(check='C02.dict_layout/foreign-' + check,
                            cls={'clause': 'foreign-' + check, 'feature': feature, 'flavour': fl, 'reader': rl},
                            witness={'doc': label, 'object': obj, 'field': field,
                                     'entry_points': sorted(info['pairs'])[:3]},
                            detail=info['detail'] + '; contract: a structure in the 1.1 layout loads to the '
                                                    'document it describes')
    finally:
        c1.drop_workdir(work)
    agg.flush()
    return col.result()


# ---------------------------------------------------------------------------------------------
# cross format
# ---------------------------------------------------------------------------------------------

def run_cross_format(tier, seed):
    col = h.Collector(
        'C02.cross_format',
        rule='every document of the generator: load(JSON text) vs load(YAML text) compared exactly, load(JSON text) vs '
             'load(XML text) compared after trimming text (YAML vs XML only where JSON and YAML differ; string entry points; the file entry points are covered '
             'by the round trips); distinct = (document content signature, pair of formats)', exhaustive=False)
    agg = c1.Agg(col)
    skipped = 0
    for label, doc in c1.documents(tier, seed, extra=EXTRA):
        sig = c1.doc_signature(doc)
        loaded = {}
        for fmt in ('JSON', 'YAML', 'XML'):
            k, text = h.call(ODMLWriter(fmt).to_string, doc)
            if k == 'exc':
                loaded[fmt] = ('write-exc', text)
                continue
            if fmt == 'XML':
                k, res = h.call(xp.XMLReader(show_warnings=False).from_string, text)
            else:
                k, res = h.call(ODMLReader(fmt, show_warnings=False).from_string, text)
            loaded[fmt] = (k, res)
        json_yaml_equal = False
        for a, b, strip in (('JSON', 'YAML', False), ('JSON', 'XML', True), ('YAML', 'XML', True)):
            if (a, b) == ('YAML', 'XML') and json_yaml_equal:
                continue        # follows from the two other comparisons
            col.case(cls_key=(sig, a, b), sample='%s | %s vs %s' % (label, a, b))
            ka, da = loaded[a]
            kb, db = loaded[b]
            if ka != 'ret' or kb != 'ret' or not isinstance(da, h.BaseDocument) or not isinstance(db, h.BaseDocument):
                skipped += 1        # a writer / reader failure is the round-trip checks' business
                continue
            diffs = c1.doc_differences(da, db, strip=strip, label_from=doc)
            if (a, b) == ('JSON', 'YAML') and not diffs:
                json_yaml_equal = True
            for d in diffs:
                agg.add(check='C02.cross_format/%s==%s/%s' % (a.lower(), b.lower(), d['clause']),
                        cls={'clause': d['clause'], 'feature': d['feature'], 'formats': '%s/%s' % (a, b)},
                        witness={'doc': label, 'object': d['object'], 'field': d.get('field')},
                        detail='%s: %s, %s: %s' % (a, d['detail'].split(', loaded ')[0].replace('original ', ''), b,
                                                   d['detail'].split(', loaded ')[-1]) +
                               '; contract: both formats load to the same document' +
                               (' up to trimming of text' if strip else ''))
    agg.flush()
    res = col.result()
    res['pairs_skipped_because_a_side_failed'] = skipped
    return res
