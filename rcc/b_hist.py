"""
Bounded run-time contract check for C03 / C04 / C06 (tree well-formedness, unique names,
valid names/ids, "a refused operation changes nothing") over editing histories.

Contract checked on every operation `op` of the list below (run-time twin of the deductive
contract  requires Inv(old)  ensures Inv(new)  on raise: heap == old(heap)):

    requires  Inv(pre-state)                      -- only states satisfying Inv are expanded
    ensures   Inv(post-state)                     -- on normal AND exceptional exit
    on raise  snap(root) == old(snap(root)) for every root, same set of roots, nothing new reachable

Inv (written from the statements of C03/C04, reads private fields only), evaluated on the POPULATION of the history:
the pool, every object an operation returned and every object found in any child list after any earlier step (copies
made by merge / link resolution / clone) - an object stays in the population when it is dropped from its list, so
"reports a parent => listed exactly once in that parent's list" is checked on objects no root leads to any more:
    harness.wellformed(root) == [] for every root reachable from the population,
    harness.attached_ok(obj) == [] for every object of the population,
    obj.document is the root of obj's parent chain when that root is a Document,
    get_path / document / itersections / iterproperties terminate.

Two entry points: run_histories (below; state search plus the index sweep - every index-taking operation over every
index, list length and position) and run_bulk_refusals (second half of the file: C06 for bulk / multi-step
operations - the refused element at every position of the argument, for every reason of refusal, on Sections with
every earlier life: merged, unmerged, cloned, cleaned, finalized).

Exploration (run_histories): explicit-state breadth first search.  A state is the object graph reachable from a
pool of 1 Document, 3 Sections (names a, b, a) and 2 Properties (names a, b); two histories that
lead to the same canonical state (same shape, same pool identities, same names/ids-classes/
values) are merged, which is equivalent to enumerating all operation sequences because the
behaviour of every operation is a function of that state.  Every state is rebuilt from fresh
objects by replaying its (shortest) history before each operation is applied.
"""
from __future__ import annotations

import datetime as _dt
import itertools
import random
import signal

from rcc import harness as h

odml = h.odml
BaseSection, BaseProperty, BaseDocument = h.BaseSection, h.BaseProperty, h.BaseDocument

NAME = 'C03.histories'

POOL = ('D', 'S0', 'S1', 'S2', 'P0', 'P1')
SECS = ('S0', 'S1', 'S2')
PROPS = ('P0', 'P1')
CONTS = ('D', 'S0', 'S1', 'S2')
INIT_NAMES = {'S0': 'a', 'S1': 'b', 'S2': 'a', 'P0': 'a', 'P1': 'b'}

VALID_ID = '12345678-1234-4234-8234-123456789abc'
ID_KINDS = {
    'valid': VALID_ID,
    'upper': VALID_ID.upper(),
    'braced': '{' + VALID_ID + '}',
    'truncated': VALID_ID[:-4],
    'garbage': 'not-a-uuid',
}


class Timeout(Exception):
    pass


def _alarm(signum, frame):
    raise Timeout()


class guard(object):
    """Bounded steps for real code: SIGALRM based wall clock bound (no threads)."""

    def __init__(self, seconds=5.0):
        self.seconds = seconds
        self.ok = True

    def __enter__(self):
        try:
            self.old = signal.signal(signal.SIGALRM, _alarm)
            signal.setitimer(signal.ITIMER_REAL, self.seconds)
        except ValueError:          # not in main thread: run unguarded
            self.ok = False
        return self

    def __exit__(self, *exc):
        if self.ok:
            signal.setitimer(signal.ITIMER_REAL, 0)
            signal.signal(signal.SIGALRM, self.old)
        return False


# ---------------------------------------------------------------------------------------------
# environment (pool of fresh objects) and operations
# ---------------------------------------------------------------------------------------------

def fresh_env():
    with h.quiet():
        env = {'D': odml.Document()}
        for lab in SECS:
            env[lab] = odml.Section(name=INIT_NAMES[lab], type='t')
        for lab in PROPS:
            env[lab] = odml.Property(name=INIT_NAMES[lab])
    env['_extras'] = []
    # population: every object this history has ever seen (pool, objects the operations returned, objects found in
    # a child list after some step) - kept for good, whether or not it is still reachable from a root
    env['_pop'] = [env[lab] for lab in POOL]
    env['_popids'] = set(id(o) for o in env['_pop'])
    env['_made'] = []           # the part of it the library made itself (copies by merge / link resolution / clone)
    return env


def harvest(env):
    """Add to the population: what the operations created (env['_extras']) and every object listed in a child list
    below any object of the population (bounded walk over private fields).  Called after every step of a history,
    so that an object that is dropped from its list later is still known."""
    pop, ids, made = env['_pop'], env['_popids'], env['_made']
    for o in env['_extras']:
        if id(o) not in ids and isinstance(o, (BaseDocument, BaseSection, BaseProperty)):
            ids.add(id(o))
            pop.append(o)
    stack = list(pop)
    steps = 0
    while stack and steps < 5000:
        steps += 1
        n = stack.pop()
        kids = []
        if isinstance(n, (BaseDocument, BaseSection)):
            kids += _kids(n, 's')
        if isinstance(n, BaseSection):
            kids += _kids(n, 'p')
        for c in kids:
            if id(c) not in ids and isinstance(c, (BaseSection, BaseProperty)):
                ids.add(id(c))
                pop.append(c)
                made.append(c)
                stack.append(c)


def population(env):
    return list(env['_pop'])


def made_obj(env, which):
    """'HS' / 'HP': the oldest Section / Property of the population that the library made itself."""
    cls = BaseSection if which == 'HS' else BaseProperty
    for o in env['_made']:
        if isinstance(o, cls):
            return o
    return None


def doc_path(sec):
    """Absolute path text of a Section that lives in a Document, from private fields; None otherwise."""
    names = []
    n = sec
    steps = 0
    while getattr(n, '_parent', None) is not None and steps < 50:
        steps += 1
        names.append(n._name)
        n = n._parent
    if isinstance(n, BaseDocument) and names:
        return '/' + '/'.join(reversed(names))
    return None


def link_text(env, target):
    """The link text an operation ('set_link', S, target) assigns."""
    if target is None:
        return None
    if target == 'nowhere':
        return '/no/such/section'
    t = env[target]
    return doc_path(t) or '/' + str(t._name)


def all_ops():
    ops = []
    # constructors with parent=
    for name in 'ab':
        for par in CONTS:
            for card in ('ok', 'badcard'):
                ops.append(('ctor_sec', name, par, card))
        for par in SECS:
            for mode in ('ok', 'badcard', 'badvalue'):
                ops.append(('ctor_prop', name, par, mode))
    # constructors with an id argument (C04: a malformed id passed at creation is replaced by a fresh one)
    for kind in ('valid', 'upper', 'braced', 'truncated', 'garbage'):
        ops.append(('ctor_sec', 'b', 'D', 'oid-' + kind))
        ops.append(('ctor_prop', 'b', 'S0', 'oid-' + kind))
        ops.append(('ctor_doc', kind))
    ops.append(('ctor_sec', 'a', 'P0', 'ok'))          # wrong parent type
    ops.append(('ctor_prop', 'a', 'D', 'ok'))          # wrong parent type
    # create_section / create_property
    for name in 'ab':
        for par in CONTS:
            ops.append(('create_section', par, name))
        for par in SECS:
            ops.append(('create_property', par, name))
    # append
    for par in CONTS:
        for ch in SECS:
            ops.append(('append', par, ch))
    for par in SECS:
        for ch in PROPS:
            ops.append(('append', par, ch))
    ops.append(('append', 'D', 'P0'))                  # wrong type
    ops.append(('append', 'S0', 'D'))                  # wrong type
    # insert
    for pos in (0, 1, -1, 5):
        for par in CONTS:
            for ch in SECS:
                ops.append(('insert', par, pos, ch))
        for par in SECS:
            for ch in PROPS:
                ops.append(('insert', par, pos, ch))
    ops.append(('insert', 'D', 0, 'P0'))               # wrong type
    # extend: singletons and all ordered pairs (incl. the same object twice)
    for par in CONTS:
        items = SECS if par == 'D' else SECS + PROPS
        for x in items:
            ops.append(('extend', par, (x,)))
            for y in items:
                ops.append(('extend', par, (x, y)))
    ops.append(('extend', 'D', ('S1', 'P0')))          # wrong type after a valid item
    # remove
    for par in CONTS:
        for ch in SECS:
            ops.append(('remove', par, ch))
    for par in SECS:
        for ch in PROPS:
            ops.append(('remove', par, ch))
    # parent assignment
    for ch in SECS:
        for par in CONTS + (None,):
            ops.append(('set_parent', ch, par))
    for ch in PROPS:
        for par in SECS + (None,):
            ops.append(('set_parent', ch, par))
    ops.append(('set_parent', 'S0', 'P0'))             # wrong type
    ops.append(('set_parent', 'P0', 'D'))              # wrong type
    # item assignment on the child lists
    for par in CONTS:
        for i in (0, 1):
            for ch in SECS:
                ops.append(('setitem_sec', par, i, ch))
    for par in SECS:
        for i in (0, 1):
            for ch in PROPS:
                ops.append(('setitem_prop', par, i, ch))
    ops.append(('setitem_sec', 'D', 0, 'P0'))          # wrong type
    ops.append(('setitem_prop', 'S0', 0, 'S1'))        # wrong type
    # reorder
    for o in SECS + PROPS:
        for i in (-1, 0, 1, 2):
            ops.append(('reorder', o, i))
    # rename
    for o in SECS + PROPS:
        for new in ('a', 'b', None, '', 'own'):
            ops.append(('rename', o, new))
    # clone followed by attach
    for src in SECS:
        for par in CONTS:
            ops.append(('clone_attach', src, par))
    for src in PROPS:
        for par in SECS:
            ops.append(('clone_attach', src, par))
    # merge
    for a in SECS:
        for b in SECS:
            ops.append(('merge', a, b))
    for a in PROPS:
        for b in PROPS:
            ops.append(('merge', a, b))
    ops.append(('merge', 'S0', 'P0'))                  # wrong type
    # new_id
    for o in ('D', 'S0', 'P0'):
        for kind in ('valid', 'upper', 'braced', 'truncated', 'garbage'):
            ops.append(('new_id', o, kind))
    # link resolve / clean: operations that make the library create copies and drop them again
    for a in SECS:
        for t in SECS + (None, 'nowhere'):
            ops.append(('set_link', a, t))          # incl. a link to itself; resolved at once when a has a parent
        ops.append(('merge_link', a))               # merge() without argument: resolve the recorded link
        for b in SECS:
            if a != b or a == 'S0':                 # unmerge of itself: once
                ops.append(('unmerge', a, b))
    for c in CONTS:
        ops.append(('clean', c))
    ops.append(('finalize', 'D'))
    # parent assignment of an object the library made itself (oldest copy made by merge / link resolution / clone),
    # attached or dropped meanwhile
    for par in CONTS + (None,):
        ops.append(('adopt', 'HS', par))
    for par in SECS + (None,):
        ops.append(('adopt', 'HP', par))
    return ops


OPS = all_ops()


def apply_op(op, env):
    """Run one operation through the public API. Objects it creates are appended to env['_extras']."""
    kind = op[0]
    g = env.__getitem__
    ex = env['_extras']
    if kind == 'ctor_sec':
        _, name, par, card = op
        kw = {'sec_cardinality': (2, 1)} if card == 'badcard' else {}
        if card.startswith('oid-'):
            kw = {'oid': ID_KINDS[card[4:]]}
        ex.append(odml.Section(name=name, type='t', parent=g(par), **kw))
    elif kind == 'ctor_doc':
        ex.append(odml.Document(oid=ID_KINDS[op[1]]))
    elif kind == 'ctor_prop':
        _, name, par, mode = op
        kw = {}
        if mode == 'badcard':
            kw = {'val_cardinality': (2, 1)}
        elif mode == 'badvalue':
            kw = {'values': 'x', 'dtype': 'int'}
        elif mode.startswith('oid-'):
            kw = {'oid': ID_KINDS[mode[4:]]}
        ex.append(odml.Property(name=name, parent=g(par), **kw))
    elif kind == 'create_section':
        ex.append(g(op[1]).create_section(op[2], 't'))
    elif kind == 'create_property':
        ex.append(g(op[1]).create_property(op[2]))
    elif kind == 'append':
        g(op[1]).append(g(op[2]))
    elif kind == 'insert':
        g(op[1]).insert(op[2], g(op[3]))
    elif kind == 'extend':
        g(op[1]).extend([g(x) for x in op[2]])
    elif kind == 'remove':
        g(op[1]).remove(g(op[2]))
    elif kind == 'set_parent':
        g(op[1]).parent = None if op[2] is None else g(op[2])
    elif kind == 'setitem_sec':
        g(op[1]).sections[op[2]] = g(op[3])
    elif kind == 'setitem_prop':
        g(op[1]).properties[op[2]] = g(op[3])
    elif kind == 'reorder':
        g(op[1]).reorder(op[2])
    elif kind == 'rename':
        o = g(op[1])
        o.name = o.name if op[2] == 'own' else op[2]
    elif kind == 'clone_attach':
        c = g(op[1]).clone()
        ex.append(c)
        g(op[2]).append(c)
    elif kind == 'merge':
        g(op[1]).merge(g(op[2]))
    elif kind == 'new_id':
        g(op[1]).new_id(ID_KINDS[op[2]])
    elif kind == 'set_link':
        g(op[1]).link = link_text(env, op[2])
    elif kind == 'merge_link':
        g(op[1]).merge()
    elif kind == 'unmerge':
        g(op[1]).unmerge(g(op[2]))
    elif kind == 'clean':
        g(op[1]).clean()
    elif kind == 'finalize':
        g(op[1]).finalize()
    elif kind == 'adopt':
        o = made_obj(env, op[1])
        if o is None:
            return 'n/a'                # the library has not made such an object in this history
        o.parent = None if op[2] is None else g(op[2])
    else:
        raise AssertionError(op)


def run_op(op, env):
    with h.quiet():
        try:
            if apply_op(op, env) == 'n/a':
                return 'n/a', None
            return 'ret', None
        except Timeout:
            raise
        except Exception as exc:       # noqa
            return 'exc', exc


def replay(history):
    """Fresh pool + replay of a history; returns env (no checks)."""
    env = fresh_env()
    with h.quiet():
        for op in history:
            try:
                apply_op(op, env)
            except Timeout:
                raise
            except Exception:       # noqa
                pass
            harvest(env)
    return env


# ---------------------------------------------------------------------------------------------
# independent view of the state (private fields only)
# ---------------------------------------------------------------------------------------------

def pool_objs(env):
    return [env[lab] for lab in POOL]


def _kids(node, kind):
    if kind == 's':
        return list(list.__iter__(node._sections))
    return list(list.__iter__(getattr(node, '_props', [])))


def _descendants(node, limit=200):
    """ids of all sections/properties below node (bounded)."""
    out = set()
    stack = [node]
    steps = 0
    while stack and steps < limit:
        steps += 1
        n = stack.pop()
        for c in _kids(n, 's'):
            if id(c) not in out:
                out.add(id(c))
                stack.append(c)
        for p in _kids(n, 'p'):
            out.add(id(p))
    return out


def _ancestors(node, limit=50):
    out = []
    n = getattr(node, '_parent', None)
    while n is not None and len(out) < limit:
        out.append(n)
        n = getattr(n, '_parent', None)
    return out


def canon(env):
    """Canonical, hashable description of the whole state (identities -> pool labels)."""
    labels = {id(env[lab]): lab for lab in POOL}
    tracked = pool_objs(env)
    for which in ('HS', 'HP'):          # the library-made objects the 'adopt' operations refer to
        o = made_obj(env, which)
        if o is not None:
            labels[id(o)] = which
            tracked.append(o)

    def name_cls(o):
        if o._name == o._id:
            return '<id>'
        return o._name

    def lab(o):
        if o is None:
            return None
        return labels.get(id(o), 'X')

    def prop(p):
        return ('P', lab(p), name_cls(p), lab(p._parent), h._val(p._values), p._dtype, p._definition,
                p._reference, p._unit, p._uncertainty, p._value_origin)

    def sec(s, depth):
        if depth > 12:
            return ('deep',)
        return ('S', lab(s), name_cls(s), lab(s._parent), s._definition, s._reference,
                lab(getattr(s, '_merged', None)), s._link, getattr(s, '_merged_attributes', None),
                tuple(prop(p) if isinstance(p, BaseProperty) else ('?',) for p in _kids(s, 'p')),
                tuple(sec(c, depth + 1) if isinstance(c, BaseSection) else ('?',) for c in _kids(s, 's')))

    out = []
    for r in h.roots_of(tracked):
        if isinstance(r, BaseDocument):
            out.append(('D', lab(r), tuple(sec(c, 0) if isinstance(c, BaseSection) else ('?',)
                                           for c in _kids(r, 's'))))
        elif isinstance(r, BaseSection):
            out.append(sec(r, 0))
        else:
            out.append(prop(r))
    return tuple(out)


# clause categories, most specific first
CATEGORIES = (
    ('is its own ancestor', 'section-is-own-ancestor'),
    ('cycle?', 'section-is-own-ancestor'),
    ('parent-chain-cycle', 'section-is-own-ancestor'),
    ('listed twice', 'parent-child-links-consistent'),
    ('but parent is', 'parent-child-links-consistent'),
    ('but is listed there', 'parent-child-links-consistent'),
    ('duplicate section names', 'sibling-section-names-unique'),
    ('duplicate property names', 'sibling-property-names-unique'),
    ('non-section', 'child-list-content-type'),
    ('non-property', 'child-list-content-type'),
    ('empty name', 'name-not-empty'),
    ('id ', 'id-canonical-uuid'),
    ('document id', 'id-canonical-uuid'),
    ('document is', 'document-is-root-of-parent-chain'),
    ('did not terminate', 'queries-terminate'),
    ('query raised', 'queries-terminate'),
)


STRUCTURAL = ('section-is-own-ancestor', 'parent-child-links-consistent', 'child-list-content-type')

# which pre-state features can matter for which clause (others are incidental and dropped from the class)
_RAISE_CAUSES = ('content-taken-over', 'link-recorded', 'linking-section-detached', 'unresolvable-link',
                 'link-to-itself-or-own-ancestor', 'link-into-own-subtree', 'self-unmerge',
                 'unmerge-of-the-merged-section', 'unmerge-of-another-section', 'copy-marked-as-taken-over',
                 'wrong-object-type', 'invalid-cardinality-argument', 'unconvertible-value-argument',
                 'name-clash-at-destination', 'name-clash-among-siblings', 'duplicate-name-inside-argument',
                 'same-object-twice-inside-argument', 'index-out-of-range', 'replaces-itself', 'not-a-child',
                 'object-detached', 'id-truncated', 'id-garbage', 'id-upper', 'id-braced', 'id-valid')
_CYCLE_CAUSES = ('destination-is-self', 'destination-in-own-subtree', 'destination-inside-source',
                 'destination-is-source', 'self-merge', 'source-inside-destination')
_LIFE_CAUSES = ('content-taken-over', 'link-recorded', 'nothing-taken-over', 'linking-section-detached', 'link-cleared',
                'unresolvable-link', 'link-to-itself-or-own-ancestor', 'link-into-own-subtree', 'self-unmerge',
                'unmerge-of-the-merged-section', 'unmerge-of-another-section', 'library-made-copy',
                'copy-marked-as-taken-over')
_LINK_CAUSES = _LIFE_CAUSES + ('child-attached-elsewhere', 'child-already-in-destination', 'same-object-twice-inside-argument',
                'replaces-itself', 'name-clash-at-destination', 'negative-index', 'index-beyond-end',
                'index-out-of-range') + _CYCLE_CAUSES
_NAME_CAUSES = ('name-clash-at-destination', 'name-clash-among-siblings', 'duplicate-name-inside-argument',
                'same-object-twice-inside-argument', 'empty-new-name')
RELEVANT = {
    'unchanged-on-raise': _RAISE_CAUSES,
    'section-is-own-ancestor': _CYCLE_CAUSES,
    'parent-child-links-consistent': _LINK_CAUSES,
    'sibling-section-names-unique': _NAME_CAUSES,
    'sibling-property-names-unique': _NAME_CAUSES,
}


def relevant_feature(clause, feat):
    """Keep the features that can matter for the violated clause; all of them if none is known to."""
    parts = feat.split('+')
    keep = [p for p in parts if p in RELEVANT.get(clause, ())]
    return '+'.join(keep) if keep else feat


def categorize(problem):
    for key, cat in CATEGORIES:
        if key in problem:
            return cat
    return 'other'


def primary_clause(problems):
    cats = [categorize(p) for p in problems]
    for _, cat in CATEGORIES:
        if cat in cats:
            return cat
    return cats[0]


def invariant(env):
    """Inv(state): list of problems ([] == holds), evaluated on the WHOLE population of the history: every object
    ever seen that reports a parent must be listed exactly once in that parent's child list (and in no list of any
    other known container), whether or not it can still be reached from a root; its document must be the root of
    its parent chain; the queries must terminate on it."""
    return invariant_of(population(env), traverse=set(id(o) for o in pool_objs(env)))


def invariant_of(pool, queries='all', traverse=None):
    """Inv over the object graph reachable from the given Documents / Sections / Properties.
    queries: 'all' - traversal queries are run from every container of the pool; 'roots' - from the roots only
    (a traversal from a root visits every subtree; the O(n^2) re-traversal of each subtree is left out);
    None - structure only.  traverse: ids of the containers the traversal queries are started from besides the roots
    (default: every container); path and document queries are always run on every object."""
    problems = []
    # parent chains must be finite
    for o in pool:
        seen = set()
        n = o
        while getattr(n, '_parent', None) is not None:
            if id(n) in seen:
                problems.append('parent-chain-cycle through %r' % o)
                break
            seen.add(id(n))
            n = n._parent
    roots = h.roots_of(pool)
    for r in roots:
        if isinstance(r, BaseProperty):
            problems += h._name_id_problems(r)
        else:
            problems += h.wellformed(r, max_nodes=500)
    for o in pool:
        if not isinstance(o, BaseDocument):
            problems += h.attached_ok(o)
    if problems or queries is None:
        return problems
    # the structure is a forest: now the real queries must terminate and document must be the root
    try:
        with guard(5.0):
            with h.quiet():
                for o in pool:
                    root = o
                    while getattr(root, '_parent', None) is not None:
                        root = root._parent
                    if isinstance(root, BaseDocument):
                        d = o.document
                        if d is not root:
                            problems.append('document is %r for %r, root of its parent chain is %r'
                                            % (d, o, root))
                    o.get_path() if hasattr(o, 'get_path') else None
                    if not isinstance(o, BaseProperty) and \
                            ((queries == 'all' and (traverse is None or id(o) in traverse))
                             or getattr(o, '_parent', None) is None):
                        n = 0
                        for _ in o.itersections():
                            n += 1
                            if n > 500:
                                problems.append('itersections did not terminate within 500 steps on %r' % o)
                                break
                        n = 0
                        for _ in o.iterproperties():
                            n += 1
                            if n > 500:
                                problems.append('iterproperties did not terminate within 500 steps on %r' % o)
                                break
    except Timeout:
        problems.append('path/document/traversal query did not terminate within 5 s')
    except Exception as exc:    # noqa
        problems.append('query raised %s: %s' % (type(exc).__name__, exc))
    return problems


def _typed(v):
    """Value with its type, so that 1, 1.0 and True (or a DType member and its name) differ."""
    if isinstance(v, (list, tuple)):
        return (type(v).__name__,) + tuple(_typed(x) for x in v)
    return (type(v).__name__, v if isinstance(v, (int, float, str, type(None))) else repr(v))


def signature(root):
    """Same information as harness.snap(root, ids=True, parent=True) - every field of
    harness.PROP_FIELDS / SEC_FIELDS / DOC_FIELDS, the values, parent / merged / child identities in list
    order - as one flat list (one entry per reachable object), several times cheaper to build.
    Only used on Inv-states (finite trees) and on post-states that passed the structural checks."""
    out = []
    stack = [root]
    steps = 0
    while stack:
        steps += 1
        if steps > 2000:
            out.append('unbounded')
            break
        n = stack.pop()
        if isinstance(n, BaseProperty):
            out.append((id(n), id(n._parent) if n._parent is not None else None,
                        tuple(_typed(getattr(n, f, '<unset>')) for f in h.PROP_FIELDS), _typed(n._values)))
        elif isinstance(n, BaseSection):
            secs, props = _kids(n, 's'), _kids(n, 'p')
            out.append((id(n), id(n._parent) if n._parent is not None else None,
                        id(n._merged) if getattr(n, '_merged', None) is not None else None,
                        tuple(_typed(getattr(n, f, '<unset>')) for f in h.SEC_FIELDS),
                        tuple(id(c) for c in secs), tuple(id(c) for c in props)))
            stack.extend(props)
            stack.extend(secs)
        elif isinstance(n, BaseDocument):
            secs = _kids(n, 's')
            out.append((id(n), tuple(_typed(getattr(n, f, '<unset>')) for f in h.DOC_FIELDS),
                        tuple(id(c) for c in secs)))
            stack.extend(secs)
        else:
            out.append((id(n), 'foreign', repr(n)))
    return out


def _describe_change(x, y):
    """Readable form of the first difference between two entries of signature()."""
    if len(x) != len(y) or x[0] != y[0]:
        return 'the objects reachable below it (or their order) changed: %r -> %r' % (x[1:], y[1:])
    if len(x) == 4:
        kind, names, parts = 'Property', h.PROP_FIELDS, ('parent', None, 'values')
    elif len(x) == 6:
        kind, names, parts = 'Section', h.SEC_FIELDS, ('parent', 'resolved link target (_merged)', None,
                                                     'child Section list', 'child Property list')
    else:
        kind, names, parts = 'Document', h.DOC_FIELDS, (None, 'child Section list')
    out = []
    fields = None
    for i, part in enumerate(parts):
        a, b = x[i + 1], y[i + 1]
        if part is None:
            fields = a
            for f, u, v in zip(names, a, b):
                if u != v:
                    out.append('%s %r -> %r' % (f, u[-1], v[-1]))
        elif a != b:
            if part == 'values':
                out.append('values %r -> %r' % (a, b))
            else:
                out.append('%s changed (%s -> %s)' % (part, _count(a), _count(b)))
    name = dict(zip(names, fields)).get('_name', ('', ''))[-1] if fields else ''
    return '%s %r was changed: %s' % (kind, name, '; '.join(out))


def _count(v):
    if isinstance(v, tuple):
        return '%d entries' % len(v)
    return 'none' if v is None else 'an object'


def pre_snapshot(env):
    return pre_snapshot_of(population(env))


def pre_snapshot_of(objs):
    roots = h.roots_of(objs)
    return [(r, signature(r)) for r in roots]


def changed_on_raise(pre, env):
    """C06: compare all roots with the snapshots taken before the call. None == unchanged."""
    return changed_on_raise_of(pre, population(env))


def changed_on_raise_of(pre, objs):
    roots = h.roots_of(objs)
    if len(roots) != len(pre) or any(a is not b[0] for a, b in zip(roots, pre)):
        return 'the set of roots changed: %d roots before, %d after (an object was detached, attached ' \
               'or a new parent became reachable)' % (len(pre), len(roots))
    for r, before in pre:
        after = signature(r)
        if after != before:
            if len(after) != len(before):
                return 'root %r: %d objects reachable before, %d after' % (r, len(before), len(after))
            for x, y in zip(before, after):
                if x != y:
                    return 'root %r: %s' % (r, _describe_change(x, y))
    return None


# ---------------------------------------------------------------------------------------------
# pre-state features (why is this input special) - computed from private fields before the call
# ---------------------------------------------------------------------------------------------

def _attach_features(env, dest, child, replace_index=None):
    """Features of attaching `child` to container `dest` (both real objects)."""
    f = set()
    is_sec = isinstance(child, BaseSection)
    is_prop = isinstance(child, BaseProperty)
    if not (is_sec or is_prop) or not isinstance(dest, (BaseDocument, BaseSection)) or \
            (is_prop and not isinstance(dest, BaseSection)):
        return {'wrong-object-type'}
    if child is dest:
        f.add('destination-is-self')
    elif is_sec and id(dest) in _descendants(child):
        f.add('destination-in-own-subtree')
    par = child._parent
    if par is dest:
        f.add('child-already-in-destination')
    elif par is not None:
        f.add('child-attached-elsewhere')
    sibs = _kids(dest, 's' if is_sec else 'p')
    for i, s in enumerate(sibs):
        if s is child:
            continue
        if replace_index is not None and i == replace_index:
            continue
        if s._name == child._name:
            f.add('name-clash-at-destination')
    return f


def _life_features(secs):
    """What the earlier life left on the given Sections (private fields, before the call)."""
    f = set()
    for s in secs:
        if getattr(s, '_merged', None) is not None:
            f.add('content-taken-over')
        if getattr(s, '_link', None) is not None:
            f.add('link-recorded')
    return f or {'nothing-taken-over'}


def features(op, env):
    kind = op[0]
    g = env.__getitem__
    f = set()
    if kind in ('ctor_sec', 'ctor_prop'):
        _, name, par, mode = op
        dest = g(par)
        if (kind == 'ctor_sec' and not isinstance(dest, (BaseDocument, BaseSection))) or \
                (kind == 'ctor_prop' and not isinstance(dest, BaseSection)):
            f.add('wrong-object-type')
        else:
            sibs = _kids(dest, 's' if kind == 'ctor_sec' else 'p')
            if any(s._name == name for s in sibs):
                f.add('name-clash-at-destination')
        if mode.startswith('oid-'):
            f.add('id-' + mode[4:])
        if mode == 'badcard':
            f.add('invalid-cardinality-argument')
        if mode == 'badvalue':
            f.add('unconvertible-value-argument')
    elif kind in ('create_section', 'create_property'):
        dest = g(op[1])
        sibs = _kids(dest, 's' if kind == 'create_section' else 'p')
        if any(s._name == op[2] for s in sibs):
            f.add('name-clash-at-destination')
    elif kind == 'append':
        f |= _attach_features(env, g(op[1]), g(op[2]))
    elif kind == 'insert':
        f |= _attach_features(env, g(op[1]), g(op[3]))
        if 'wrong-object-type' not in f:
            n = len(_kids(g(op[1]), 's' if isinstance(g(op[3]), BaseSection) else 'p'))
            if f:
                pass                # the index is incidental when the attachment itself is special
            elif op[2] < 0:
                f.add('negative-index')
            elif op[2] > n:
                f.add('index-beyond-end')
    elif kind == 'extend':
        dest = g(op[1])
        items = [g(x) for x in op[2]]
        for it in items:
            f |= _attach_features(env, dest, it)
        for i in range(len(items)):
            for j in range(i + 1, len(items)):
                a, b = items[i], items[j]
                if a is b:
                    f.add('same-object-twice-inside-argument')
                elif type(a) is type(b) and a._name == b._name:
                    f.add('duplicate-name-inside-argument')
    elif kind == 'remove':
        dest, ch = g(op[1]), g(op[2])
        if ch._parent is not dest:
            f.add('not-a-child')
    elif kind == 'set_parent':
        ch = g(op[1])
        if op[2] is None:
            f.add('to-none')
            if ch._parent is None:
                f.add('child-detached')
        else:
            f |= _attach_features(env, g(op[2]), ch)
    elif kind in ('setitem_sec', 'setitem_prop'):
        dest, val = g(op[1]), g(op[3])
        lst = _kids(dest, 's' if kind == 'setitem_sec' else 'p')
        i = op[2]
        if i >= len(lst):
            f.add('index-out-of-range')
        if (kind == 'setitem_sec') != isinstance(val, BaseSection):
            f.add('wrong-object-type')
        else:
            if i < len(lst) and lst[i] is val:
                f.add('replaces-itself')
            f |= _attach_features(env, dest, val, replace_index=i if i < len(lst) else None)
    elif kind == 'reorder':
        o = g(op[1])
        if o._parent is None:
            f.add('object-detached')
        else:
            n = len(_kids(o._parent, 's' if isinstance(o, BaseSection) else 'p'))
            if op[2] < 0:
                f.add('negative-index')
            elif op[2] >= n:
                f.add('index-beyond-end')
    elif kind == 'rename':
        o = g(op[1])
        new = o._name if op[2] == 'own' else op[2]
        if not new:
            f.add('empty-new-name')
        elif new == o._name:
            f.add('own-name')
        elif o._parent is not None:
            sibs = _kids(o._parent, 's' if isinstance(o, BaseSection) else 'p')
            if any(s is not o and s._name == new for s in sibs):
                f.add('name-clash-among-siblings')
    elif kind == 'clone_attach':
        src, dest = g(op[1]), g(op[2])
        sibs = _kids(dest, 's' if isinstance(src, BaseSection) else 'p')
        if any(s._name == src._name for s in sibs):
            f.add('name-clash-at-destination')
        if dest is src:
            f.add('destination-is-source')
        elif isinstance(src, BaseSection) and id(dest) in _descendants(src):
            f.add('destination-inside-source')
    elif kind == 'merge':
        a, b = g(op[1]), g(op[2])
        if type(a) is not type(b):
            f.add('wrong-object-type')
        elif a is b:
            f.add('self-merge')
        elif isinstance(a, BaseSection):
            if id(b) in _descendants(a):
                f.add('source-inside-destination')
            if id(a) in _descendants(b):
                f.add('destination-inside-source')
    elif kind == 'new_id':
        f.add('id-' + op[2])
    elif kind == 'ctor_doc':
        f.add('id-' + op[1])
    elif kind == 'set_link':
        a = g(op[1])
        f |= _life_features([a])
        if a._parent is None:
            f.add('linking-section-detached')
        if op[2] is None:
            f.add('link-cleared')
        elif op[2] == 'nowhere':
            f.add('unresolvable-link')
        else:
            t = g(op[2])
            ra, rt = h.roots_of([a])[0], h.roots_of([t])[0]
            if t is a or any(t is x for x in _ancestors(a)):
                f.add('link-to-itself-or-own-ancestor')
            elif not (isinstance(ra, BaseDocument) and ra is rt):
                f.add('unresolvable-link')
            elif id(t) in _descendants(a):
                f.add('link-into-own-subtree')
    elif kind in ('merge_link', 'clean', 'finalize'):
        top = g(op[1])
        below = [top] if isinstance(top, BaseSection) else []
        if kind != 'merge_link':
            stack = list(_kids(top, 's'))
            steps = 0
            while stack and steps < 200:
                steps += 1
                n = stack.pop()
                if isinstance(n, BaseSection) and not any(n is x for x in below):
                    below.append(n)
                    stack.extend(_kids(n, 's'))
        f |= _life_features(below)
    elif kind == 'unmerge':
        a, b = g(op[1]), g(op[2])
        f |= _life_features([a])
        if a is b:
            f.add('self-unmerge')
        elif getattr(a, '_merged', None) is b:
            f.add('unmerge-of-the-merged-section')
        else:
            f.add('unmerge-of-another-section')
    elif kind == 'adopt':
        o = made_obj(env, op[1])
        if o is None:
            f.add('no-library-made-object')
        else:
            f.add('library-made-copy')
            if getattr(o, '_merged', None) is not None:
                f.add('copy-marked-as-taken-over')
            if op[2] is None:
                f.add('to-none')
                if o._parent is None:
                    f.add('child-detached')
            else:
                f |= _attach_features(env, g(op[2]), o)
    return '+'.join(sorted(f)) if f else 'plain'


# ---------------------------------------------------------------------------------------------
# one contract evaluation:  {Inv} op {Inv}, on raise unchanged
# ---------------------------------------------------------------------------------------------

def evaluate(history, op):
    """Rebuild the pre-state from fresh objects, apply op, check the contract.
    Returns (violations, post_state_key | None, outcome) ; violations = [(clause, detail)]."""
    env = replay(history)
    feat = features(op, env)
    before = population(env)                    # the objects known before the call: these must be unchanged on raise
    pre = pre_snapshot_of(before)
    n_extras = len(env['_extras'])
    try:
        with guard(10.0):
            outcome, exc = run_op(op, env)
    except Timeout:
        return [('operation-terminates', 'operation did not return within 10 s')], None, 'timeout', feat
    if outcome == 'n/a':
        return [], None, 'n/a', feat
    violations = []
    harvest(env)                                # what this operation created or made reachable joins the population
    problems = invariant(env)
    for o in env['_extras'][n_extras:]:         # objects created by this very operation, attached or not
        if isinstance(o, BaseDocument):
            problems += [p for p in h.wellformed(o, max_nodes=50) if 'document id' in p]
        elif isinstance(o, (BaseSection, BaseProperty)):
            problems += h._name_id_problems(o)
    if problems:
        violations.append((primary_clause(problems),
                           'after %s (%s): %s' % (outcome, type(exc).__name__ if exc else 'ok',
                                                  '; '.join(problems[:3]))))
    if outcome == 'exc':
        if problems and any(categorize(p) in STRUCTURAL for p in problems):
            # the pre-state satisfied Inv, the post-state is not even a forest: it changed
            ch = 'the state is no longer well-formed (%s)' % problems[0]
        else:
            ch = changed_on_raise_of(pre, before)
        if ch:
            violations.append(('unchanged-on-raise',
                               'raised %s: %s but %s' % (type(exc).__name__, str(exc)[:80], ch)))
    key = None
    if not problems:
        key = canon(env)
    return violations, key, outcome, feat


CONFIGS = {
    'K0-all-detached': (),
    'K1-chain': (('append', 'D', 'S0'), ('append', 'S0', 'S1'), ('append', 'S1', 'S2'),
                 ('append', 'S0', 'P0'), ('append', 'S0', 'P1')),
    'K2-two-branches': (('append', 'D', 'S0'), ('append', 'D', 'S1'), ('append', 'S1', 'S2'),
                        ('append', 'S0', 'P0'), ('append', 'S1', 'P1')),
    'K3-no-document': (('append', 'S0', 'S1'), ('append', 'S0', 'P0'), ('append', 'S2', 'P1')),
    # three sibling sections (the third one named by its id) so that positions 0..2 all exist
    'K4-three-siblings': (('rename', 'S2', None), ('extend', 'D', ('S0', 'S1', 'S2')),
                          ('extend', 'S1', ('P0', 'P1'))),
}


def reproduces(history, op, clause, kind):
    """Does op at the end of history (from fresh objects) violate `clause`, with a valid pre-state?"""
    env = replay(history)
    if invariant(env):
        return False
    violations, _, _, _ = evaluate(history, op)
    return any(c == clause for c, _ in violations)


def minimize(history, op, clause):
    """Greedy 1-minimal prefix: drop operations while the same clause still fails at `op`."""
    hist = list(history)
    changed = True
    while changed:
        changed = False
        for i in range(len(hist)):
            cand = hist[:i] + hist[i + 1:]
            if reproduces(cand, op, clause, op[0]):
                hist = cand
                changed = True
                break
    return hist


def op_json(op):
    return [list(x) if isinstance(x, tuple) else x for x in op]


# ---------------------------------------------------------------------------------------------
# index sweep: every index-taking operation x every index x every position x list lengths 0..4 (5)
# ---------------------------------------------------------------------------------------------
#
# The pool of the state search has at most three sibling Sections / two sibling Properties and a handful of
# indices.  The operations that take a list position (reorder, insert, item assignment on the child lists) are
# therefore swept separately: child lists of n = 0..4 (thorough: 5) Sections / Properties, produced by several
# editing histories (appended, constructed with parent=, extended, inserted at the front, clone of such a
# container, merged in from a template), the object concerned at EVERY position, EVERY integer index from
# -2n-2 to 2n+2 and a few non-integers.  Contract per call:
#
#     requires  Inv(pre-state)
#     ensures   Inv(post-state)                               (each object listed exactly once, parent agreement)
#     on raise  every root unchanged
#     reorder accepted  =>  the siblings without the object keep their order and the object sits where
#                           list.insert(index, object) puts it into that shorter list
#
# Nothing is demanded about which indices are accepted.

SWEEP_HOSTS = (('document', 's'), ('section-in-document', 's'), ('section-in-document', 'p'),
               ('detached-section', 's'), ('detached-section', 'p'))
SWEEP_MODES = ('appended', 'constructed-with-parent', 'extended', 'inserted-at-front', 'clone-of-container',
               'merged-in-from-template')
NON_INTEGER_INDICES = ('1', None, 1.5, True)


def index_class(i, n):
    """Why is this index special for a list of n elements (independent of the library)."""
    if isinstance(i, bool):
        return 'bool-index'
    if not isinstance(i, int):
        return 'index-not-an-integer'
    if i >= 0:
        return 'index-in-range' if i < n else ('index-at-end' if i == n else 'index-beyond-end')
    if i > -n:
        return 'negative-index-in-range'
    return 'negative-index-at-front' if i == -n and n else 'negative-index-before-front'


def _sweep_child(kind, name, rich=True):
    if kind == 's':
        c = odml.Section(name=name, type='t')
        if rich:
            odml.Property(name='gp', values=[1], parent=c)
        return c
    return odml.Property(name=name, values=[len(name)])


def _sweep_scene(host, kind, n, mode, rich=True):
    """(container, tracked objects): a child list of n objects c0..c(n-1) built by the history `mode`
    (in a Document the Section 'top' is one more sibling)."""
    with h.quiet():
        doc = top = None
        if host != 'detached-section':
            doc = odml.Document(author='A')
            top = odml.Section(name='top', type='t', parent=doc)
        cont = doc if host == 'document' else odml.Section(name='host', type='t')
        kids = [_sweep_child(kind, 'c%d' % j, rich and j == 0) for j in range(n)] \
            if mode != 'constructed-with-parent' else []
        if mode == 'appended':
            for c in kids:
                cont.append(c)
        elif mode == 'constructed-with-parent':
            for j in range(n):
                if kind == 's':
                    odml.Section(name='c%d' % j, type='t', parent=cont)
                else:
                    odml.Property(name='c%d' % j, values=[j], parent=cont)
        elif mode == 'extended':
            cont.extend(kids)
        elif mode == 'inserted-at-front':
            for c in reversed(kids):
                cont.insert(0, c)
        elif mode == 'clone-of-container':
            for c in kids:
                cont.append(c)
            cont = cont.clone()
        elif mode == 'merged-in-from-template':
            tmpl = odml.Section(name='template', type='t')
            for c in kids:
                tmpl.append(c)
            cont.merge(tmpl)
        else:
            raise AssertionError(mode)
        if host == 'section-in-document':
            top.append(cont)
    return cont, [x for x in (doc, top, cont) if x is not None]


def _sweep_operand(what, kind, cont, objs, k):
    """The object handed to insert / item assignment."""
    with h.quiet():
        if what == 'fresh':
            o = _sweep_child(kind, 'f')
        elif what == 'attached-elsewhere':
            d2 = odml.Document(author='B')
            other = odml.Section(name='other', type='t', parent=d2)
            o = _sweep_child(kind, 'e')
            other.append(o)
            _sweep_child(kind, 'e2').parent = other
            objs.extend([d2, other])
        else:
            return _kids(cont, kind)[k]
    objs.append(o)
    return o


def _rescan(objs):
    known = set(id(x) for x in objs)
    stack = list(objs)
    steps = 0
    while stack and steps < 2000:
        steps += 1
        n = stack.pop()
        kids = []
        if isinstance(n, (BaseDocument, BaseSection)):
            kids += _kids(n, 's')
        if isinstance(n, BaseSection):
            kids += _kids(n, 'p')
        for c in kids:
            if id(c) not in known and isinstance(c, (BaseSection, BaseProperty)):
                known.add(id(c))
                objs.append(c)
                stack.append(c)


def expected_after_reorder(before, obj, index):
    """Own model of 'take the object out, list.insert(index, object) into the rest' (no list.insert used)."""
    rest = [x for x in before if x is not obj]
    m = len(rest)
    i = int(index)
    pos = min(i, m) if i >= 0 else max(0, m + i)
    return rest[:pos] + [obj] + rest[pos:]


def index_sweep(col, tier):
    """Returns {(clause, op, feature): [count, size, witness, detail]}."""
    quick = tier == 'quick'
    max_n = 4 if quick else 5
    raw = {}

    def one(host, kind, n, mode, op, what, k, index):
        cont, objs = _sweep_scene(host, kind, n, mode)
        lst = _kids(cont, kind)
        n_real = len(lst)
        if op == 'reorder':
            obj = lst[k]
        else:
            obj = _sweep_operand(what, kind, cont, objs, k)
        _rescan(objs)
        bad_pre = invariant_of(objs, queries=None)
        assert not bad_pre, (host, kind, n, mode, bad_pre)
        pre = pre_snapshot_of(objs)
        before = list(lst)
        if op == 'reorder':
            def thunk():
                obj.reorder(index)
        elif op == 'insert':
            def thunk():
                cont.insert(index, obj)
        elif kind == 's':
            def thunk():
                cont.sections[index] = obj
        else:
            def thunk():
                cont.properties[index] = obj
        outcome, exc = 'ret', None
        violations = []
        try:
            with guard(10.0):
                with h.quiet():
                    try:
                        thunk()
                    except Timeout:
                        raise
                    except Exception as e:      # noqa
                        outcome, exc = 'exc', e
        except Timeout:
            outcome = 'timeout'
            violations.append(('operation-terminates', 'operation did not return within 10 s'))
        _rescan(objs)
        problems = invariant_of(objs, queries=None) if outcome != 'timeout' else []
        if problems:
            violations.append((primary_clause(problems),
                               'after %s (%s): %s' % (outcome, type(exc).__name__ if exc else 'ok',
                                                      '; '.join(problems[:3]))))
        if outcome == 'exc':
            if problems and any(categorize(p) in STRUCTURAL for p in problems):
                ch = 'the state is no longer well-formed (%s)' % problems[0]
            else:
                ch = changed_on_raise_of(pre, objs)
            if ch:
                violations.append(('unchanged-on-raise',
                                   'raised %s: %s but %s' % (type(exc).__name__, str(exc)[:80], ch)))
        if outcome == 'ret' and op == 'reorder' and not problems and isinstance(index, int):
            want = expected_after_reorder(before, obj, index)
            got = _kids(cont, kind)
            if len(got) != len(want) or any(a is not b for a, b in zip(got, want)):
                violations.append(('reorder-position',
                                   'children %s, reorder(%r) of %r gave %s; taking the object out and inserting it at '
                                   'that index gives %s' % ([x._name for x in before], index, obj._name,
                                                           [getattr(x, '_name', '?') for x in got],
                                                           [x._name for x in want])))
        f = set()
        if op != 'reorder':
            f.add({'fresh': 'fresh-object', 'attached-elsewhere': 'child-attached-elsewhere',
                   'child-of-this-list': 'child-already-in-destination'}[what])
            if op == 'setitem' and what == 'child-of-this-list' and isinstance(index, int) and \
                    -n_real <= index < n_real and lst[index] is obj:
                f.add('replaces-itself')
        if isinstance(index, str) and op == 'setitem':
            f.add('name-as-index')
        else:
            ic = index_class(index, n_real)
            if op == 'setitem' and ic in ('index-at-end', 'index-beyond-end', 'negative-index-before-front'):
                ic = 'index-out-of-range'
            f.add(ic)
        feat = '+'.join(sorted(f))
        col.case(cls_key=('index-sweep', op, host, kind, feat, outcome))
        for clause, detail in violations:
            key = (clause, op, feat)
            witness = {'container': host, 'child-list': 'sections' if kind == 's' else 'properties',
                       'children': n_real, 'built': mode, 'op': '%s(%r)' % (op, index),
                       'object': ('child at position %d' % k) if (op == 'reorder' or what == 'child-of-this-list')
                       else what}
            size = (n_real, len(repr(witness)))
            if key not in raw:
                raw[key] = [0, size, witness, detail]
            raw[key][0] += 1
            if size < raw[key][1]:
                raw[key][1:] = [size, witness, detail]

    for host, kind in SWEEP_HOSTS:
        extra = 1 if host == 'document' else 0                  # 'top' is one more sibling in the Document's list
        for mode in SWEEP_MODES:
            if host == 'document' and mode in ('clone-of-container', 'merged-in-from-template'):
                continue
            for n in range(0, max_n + 1 - extra):
                # quick: every list length for the appended lists, the other histories on lists of 3
                reduced = quick and mode != 'appended'
                if reduced and (n + extra != 3 or host == 'detached-section'):
                    continue
                size = n + extra
                indices = list(range(-2 * size - 2, 2 * size + 3)) + list(NON_INTEGER_INDICES)
                for index in indices:
                    for k in range(size):
                        one(host, kind, n, mode, 'reorder', None, k, index)
                        one(host, kind, n, mode, 'setitem', 'child-of-this-list', k, index)
                        if not quick or k in (0, size - 1):
                            one(host, kind, n, mode, 'insert', 'child-of-this-list', k, index)
                    for what in ('fresh', 'attached-elsewhere'):
                        if reduced and what == 'fresh':
                            continue
                        one(host, kind, n, mode, 'insert', what, 0, index)
                        if size:
                            one(host, kind, n, mode, 'setitem', what, 0, index)
                if size:
                    for what in ('fresh', 'attached-elsewhere'):
                        one(host, kind, n, mode, 'setitem', what, 0, 'c0' if n else 'top')
    return raw


PLANS = {
    # (start configuration, number of operations explored exhaustively from it)
    'quick': (('K0-all-detached', 2), ('K2-two-branches', 2), ('K1-chain', 1), ('K3-no-document', 1),
              ('K4-three-siblings', 1)),
    'thorough': (('K0-all-detached', 3), ('K2-two-branches', 2), ('K1-chain', 2), ('K3-no-document', 2),
                 ('K4-three-siblings', 2)),
}


def run_histories(tier='quick', seed=0, plan=None, walks=None, max_evaluations=None, sweep=True):
    quick = tier == 'quick'
    if plan is None:
        plan = PLANS['quick' if quick else 'thorough']
    if walks is None:
        walks = 0 if quick else 2500
    if max_evaluations is None:
        max_evaluations = 75000 if quick else 720000
    col = h.Collector(
        NAME,
        rule='explicit-state search: every one of the %d concrete operations of the C03 list (pool: 1 Document, '
             '3 Sections named a,b,a, 2 Properties named a,b) is applied to every distinct Inv-state reachable '
             'by fewer than n operations from a start configuration, for (configuration, n) in %s - equivalent '
             'to all operation sequences of length <= n from that configuration, histories reaching the same '
             'canonical state being merged; each start configuration is itself a history from fresh detached '
             'objects; one evaluation = one contract check {Inv} op {Inv; unchanged on raise} on a pre-state '
             'rebuilt from fresh objects; the operations include link assignment (to each pool Section, itself, nowhere, '
             'None), merge() of a recorded link, unmerge, clean of every container, Document.finalize and parent assignment '
             'of the oldest Section / Property the library made itself (copy by merge / link resolution / clone); Inv is '
             'evaluated on the whole population of the history (pool, objects returned by operations, every object seen '
             'in any child list after any step - kept after it is dropped from its list): reports a parent => listed '
             'exactly once in that parent, document == root of the parent chain, queries terminate; on raise every root '
             'of that population unchanged; distinct = (operation kind, pre-state feature, outcome)%s; plus the index '
             'sweep: reorder / insert / item assignment with every integer index from -2n-2 to 2n+2 (and 4 non-integers) '
             'on child lists of n = 0..%d Sections / Properties (of a Document, a Section in a document, a detached '
             'Section; built by append, parent=, extend, insert at the front, clone of the container, merge from a '
             'template%s), the object concerned (the reordered child; for insert / item assignment a fresh object, one '
             'attached elsewhere, a child of the same list) at every position; oracle Inv on every exit, unchanged on '
             'raise, and for an accepted reorder the order that taking the object out and inserting it at the index gives'
             % (len(OPS), list(plan),
                '; plus %d seeded random walks of up to 8 Inv-preserving operations from all-detached' % walks
                if walks else '', 4 if quick else 5,
                '; quick: histories other than append on lists of 3 of the Document and of the Section in a document, '
                'insert of a child of the same list at the first and last position only' if quick else ''),
        exhaustive=True)
    raw = {}          # (clause, kind, feature) -> [count, history, op, detail]

    def record(violations, hist, op, feat):
        for clause, detail in violations:
            k = (clause, op[0], relevant_feature(clause, feat))
            if k not in raw:
                raw[k] = [0, tuple(hist), op, detail]
            raw[k][0] += 1
            if len(hist) < len(raw[k][1]):
                raw[k][1:] = [tuple(hist), op, detail]

    seen = {}                                   # canonical state -> largest remaining depth it was expanded with
    max_depth = max(d for _, d in plan)
    buckets = {d: [] for d in range(max_depth + 1)}
    for cname, d in plan:
        hist = CONFIGS[cname]
        env = replay(hist)
        assert not invariant(env), cname
        key = canon(env)
        if seen.get(key, 0) < d:
            seen[key] = d
            buckets[d].append(hist)
    states_expanded = 0
    truncated = False
    sampled = None
    for remaining in range(max_depth, 0, -1):
        todo = buckets[remaining]
        room = max(0, max_evaluations - col.evaluations) // len(OPS)
        if remaining == 1 and len(todo) > room:
            # budget: a seeded sample of the states of the last level instead of a prefix of them
            rnd = random.Random(seed)
            keep = set(rnd.sample(range(len(todo)), room))
            sampled = (room, len(todo))
            todo = [x for i, x in enumerate(todo) if i in keep]
            truncated = True
        for hist in todo:
            if col.evaluations >= max_evaluations:
                truncated = True
                break
            states_expanded += 1
            for op in OPS:
                violations, key, outcome, feat = evaluate(hist, op)
                if outcome == 'n/a':
                    continue                # 'adopt' without a library-made object: nothing was evaluated
                col.case(cls_key=(op[0], feat, outcome),
                         sample='%s ; %s' % (list(hist), op) if len(hist) > 5 else None)
                if violations:
                    record(violations, hist + (op,), op, feat)
                if key is not None and remaining > 1 and seen.get(key, 0) < remaining - 1:
                    seen[key] = remaining - 1
                    buckets[remaining - 1].append(hist + (op,))
    if truncated:
        col.exhaustive = False

    if walks:
        rnd = random.Random(seed)
        for _ in range(walks):
            hist = ()
            for _attempt in range(16):
                if len(hist) >= 8:
                    break
                op = rnd.choice(OPS)
                violations, key, outcome, feat = evaluate(hist, op)
                if outcome == 'n/a':
                    continue
                col.case(cls_key=(op[0], feat, outcome))
                if violations:
                    record(violations, hist + (op,), op, feat)
                if key is not None:
                    hist = hist + (op,)     # only Inv-preserving steps extend the history (requires Inv)

    # shortest witness from fresh objects, final classification on the minimised pre-state
    final = {}
    for (clause, kind, feat), (count, hist, op, detail) in sorted(raw.items(), key=repr):
        prefix = minimize(list(hist[:-1]), op, clause)
        env = replay(prefix)
        feat2 = relevant_feature(clause, features(op, env))
        vio = [d for c, d in evaluate(tuple(prefix), op)[0] if c == clause]
        k = (clause, kind, feat2)
        entry = final.setdefault(k, {'count': 0, 'witness': None, 'detail': None, 'raw': []})
        entry['count'] += count
        entry['raw'].append(feat)
        if entry['witness'] is None or len(prefix) + 1 < len(entry['witness']):
            entry['witness'] = [op_json(o) for o in prefix] + [op_json(op)]
            entry['detail'] = vio[0] if vio else detail
    for (clause, kind, feat), e in sorted(final.items(), key=repr):
        prop = 'C06' if clause == 'unchanged-on-raise' else \
            ('C04' if clause in ('sibling-section-names-unique', 'sibling-property-names-unique',
                                 'name-not-empty', 'id-canonical-uuid') else 'C03')
        col.fail(check='%s/%s' % (NAME, clause),
                 cls={'clause': clause, 'op': kind, 'feature': feat, 'property': prop},
                 witness={'pool': 'D=Document(); S0,S1,S2=Section(a),Section(b),Section(a); '
                                  'P0,P1=Property(a),Property(b); all detached',
                          'ops': e['witness']},
                 detail='%s  [%d failing (state, operation) pairs; pre-state features seen: %s]'
                        % (e['detail'], e['count'], ', '.join(sorted(set(e['raw'])))[:300]))
    # index sweep (own evaluations, own failure classes)
    sweep_evals = 0
    if sweep:
        before_sweep = col.evaluations
        for (clause, kind, feat), (count, _, witness, detail) in sorted(index_sweep(col, tier).items(), key=repr):
            prop = 'C06' if clause == 'unchanged-on-raise' else \
                ('C04' if clause in ('sibling-section-names-unique', 'sibling-property-names-unique',
                                     'name-not-empty', 'id-canonical-uuid') else 'C03')
            col.fail(check='%s/%s' % (NAME, clause),
                     cls={'clause': clause, 'op': kind, 'feature': feat, 'property': prop, 'part': 'index-sweep'},
                     witness=witness,
                     detail='%s  [%d failing evaluations of this class in the index sweep]' % (detail, count))
        sweep_evals = col.evaluations - before_sweep
    res = col.result()
    res['index_sweep_evaluations'] = sweep_evals
    res['states'] = len(seen)
    res['states_expanded'] = states_expanded
    if sampled:
        res['last_level_sampled'] = '%d of %d states of the last level expanded (seeded sample, evaluation budget)' % sampled
    res['operations'] = len(OPS)
    return res


# =============================================================================================
# C06 for bulk / multi-step operations: position of the refused element x reason of the refusal
# =============================================================================================
#
# Contract (from the statement of C06, plus Inv of C03/C04 on every exit):
#
#     requires  Inv(pre-state)
#     on raise  for every root reachable from any object of the scene or of the argument:
#               signature(root) == old(signature(root)), same roots in the same order
#     ensures   Inv(post-state)                                     (normal and exceptional exit)
#
# Nothing is demanded about WHETHER a call raises: an argument this module calls 'refusable' that the
# library accepts is only a failure if the post-state violates Inv (C03/C04 say which states may exist).
#
# The run_histories alphabet only has the six pool objects, lists of length <= 2 and no fresh /
# foreign / non-odml elements.  Here every operation that works in several steps (validate, detach,
# attach, take over attributes ...) gets an argument in which ONE refusable element sits at EVERY
# position of a list of length 1..3 (4..5 in the random extension), for EVERY reason the statements
# name, while the other positions hold elements that would change the destination on their own.

BNAME = 'C06.bulk_refusals'

DESTS = ('section-in-document', 'detached-section', 'document')

REFUSAL_REASONS = ('wrong-object-type', 'name-clash-at-destination', 'destination-is-self',
                   'destination-in-own-subtree', 'duplicate-name-inside-argument',
                   'same-object-twice-inside-argument')


class Scene(object):
    """Two documents and a detached tree, rebuilt from fresh objects for every evaluation.

    D:  top(def) > mid > dest(def) > [Section k(def) > [Section g, Property g=[1]], Section k2,
                                      Property k=[1,2] mV (def), Property k2=['x']]
                       > sib > [Section e > [Section r, Property q], Property e]
        top2, lt > [Section c1 > [Section cc], Property lp=[7]] (a link target / merge template), lok > [Section z,
        Property zp] (another one), targets that cannot be merged into dest: lbad > [Section k of ANOTHER type],
        lbadp > [Property k=['abc']]; targets that clash only with what dest has taken over from lt:
        lmsec > [Section c1 of ANOTHER type], lmprop > [Property lp=['high']], lmdeep > [c1 > [cc of ANOTHER type]]
    D2: other > [Section x > [Property q], Property x]
    lone (detached root, same children as dest)
    """

    def __init__(self, lone=True, link=True):
        self.objs = []
        with h.quiet():
            self.D = self._add(odml.Document(author='A', version='1'))
            self.D2 = self._add(odml.Document(author='B'))
            self.top = self.sec('top', 't', self.D, definition='top def')
            self.mid = self.sec('mid', 't', self.top)
            self.dest = self.sec('dest', 'td', self.mid, definition='dest def')
            self.sib = self.sec('sib', 't', self.mid)
            self.top2 = self.sec('top2', 't', self.D)
            if link:
                self.lt = self.sec('lt', 'td', self.D, reference='lt ref')
                self.sec('cc', 't', self.sec('c1', 't', self.lt))
                self.prop('lp', self.lt, values=[7])
                self.lok = self.sec('lok', 'td', self.D, definition='another def')
                self.sec('z', 't', self.lok)
                self.prop('zp', self.lok, values=[1])
            if link == 'targets':
                self.lbad = self.sec('lbad', 'td', self.D)
                self.sec('k', 'OTHER', self.lbad)
                # targets that clash with Property content of dest, and with what dest takes over from lt only
                self.prop('k', self.sec('lbadp', 'td', self.D), values=['abc'], dtype='string')
                self.sec('c1', 'OTHER', self.sec('lmsec', 'td', self.D))
                self.prop('lp', self.sec('lmprop', 'td', self.D), values=['high'], dtype='string')
                self.sec('cc', 'OTHER', self.sec('c1', 't', self.sec('lmdeep', 'td', self.D)))
            self.other = self.sec('other', 't', self.D2)
            if lone is not None:
                self.lone = self.sec('lone', 'tl', None, reference='lone ref')
            for cont in (self.dest, self.lone) if lone else (self.dest,):
                k = self.sec('k', 't', cont, definition='kd')
                self.sec('g', 't', k)
                self.prop('g', k, values=[1], dtype='int')
                self.sec('k2', 't', cont)
                self.prop('k', cont, values=[1, 2], dtype='int', unit='mV', definition='kdef')
                self.prop('k2', cont, values=['x'], dtype='string')
            self.e_s = self.sec('e', 't', self.sib)
            self.sec('r', 't', self.e_s)
            self.prop('q', self.e_s, values=[2.5])
            self.e_p = self.prop('e', self.sib, values=['ev'])
            self.x_s = self.sec('x', 't', self.other)
            self.prop('q', self.x_s, values=[True])
            self.x_p = self.prop('x', self.other, values=['xv'], unit='s')

    def _add(self, o):
        self.objs.append(o)
        return o

    def sec(self, name, type_, parent, **kw):
        s = self._add(odml.Section(name=name, type=type_, **kw))
        if parent is not None:
            parent.append(s)
        return s

    def prop(self, name, parent, **kw):
        p = self._add(odml.Property(name=name, **kw))
        if parent is not None:
            parent.append(p)
        return p

    def destination(self, dk):
        return {'section-in-document': self.dest, 'detached-section': self.lone, 'document': self.D}[dk]

    def track(self, o):
        """Objects built for an argument are part of 'the documents involved' as well."""
        if isinstance(o, (BaseDocument, BaseSection, BaseProperty)) and not any(o is x for x in self.objs):
            self.objs.append(o)
            self.rescan()
        return o

    def rescan(self):
        """Add every Section / Property that is listed below a tracked object (bounded walk)."""
        known = set(id(x) for x in self.objs)
        stack = list(self.objs)
        steps = 0
        while stack and steps < 2000:
            steps += 1
            n = stack.pop()
            kids = []
            if isinstance(n, (BaseDocument, BaseSection)):
                kids += _kids(n, 's')
            if isinstance(n, BaseSection):
                kids += _kids(n, 'p')
            for c in kids:
                if id(c) not in known and isinstance(c, (BaseSection, BaseProperty)):
                    known.add(id(c))
                    self.objs.append(c)
                    stack.append(c)


# ----- elements of an argument --------------------------------------------------------------

# elements that change the destination when they are added on their own
PRE_SECTION = ('fresh-section', 'section-attached-elsewhere', 'section-of-other-document', 'grandchild-section',
               'child-section')
PRE_PROPERTY = ('fresh-property', 'property-attached-elsewhere', 'property-of-other-document',
                'grandchild-property', 'child-property')
CORE_PRE = {'section': ('fresh-section', 'property-attached-elsewhere', 'section-of-other-document', 'child-property'),
            'document': ('fresh-section', 'section-attached-elsewhere', 'section-of-other-document')}


def core_of(dk):
    return CORE_PRE['document' if dk == 'document' else 'section']


def pre_roles(dk):
    return PRE_SECTION if dk == 'document' else \
        tuple(x for pair in zip(PRE_SECTION, PRE_PROPERTY) for x in pair)


def bad_roles(dk):
    """(reason the statements give for a refusal, variant).  'needs a partner' variants refer to another element."""
    out = [('wrong-object-type', 'other-document'), ('wrong-object-type', 'none'), ('wrong-object-type', 'str'),
           ('wrong-object-type', 'int'), ('wrong-object-type', 'nested-list'),
           ('name-clash-at-destination', 'fresh-section'), ('name-clash-at-destination', 'section-attached-elsewhere'),
           ('duplicate-name-inside-argument', 'fresh-twin-of-other-element'),
           ('duplicate-name-inside-argument', 'attached-twin-of-other-element'),
           ('same-object-twice-inside-argument', 'other-element-again')]
    if dk == 'document':
        out += [('wrong-object-type', 'fresh-property'), ('wrong-object-type', 'property-attached-elsewhere'),
                ('wrong-object-type', 'the-document-itself')]
    else:
        out += [('name-clash-at-destination', 'fresh-property'),
                ('name-clash-at-destination', 'property-attached-elsewhere'),
                ('destination-is-self', 'destination')]
    if dk == 'section-in-document':
        out += [('destination-in-own-subtree', 'parent'), ('destination-in-own-subtree', 'grandparent'),
                ('wrong-object-type', 'own-document')]
    return out


NEEDS_PARTNER = ('duplicate-name-inside-argument', 'same-object-twice-inside-argument')


def _first_child(dest, kind):
    return _kids(dest, kind)[0]


def resolve_pre(sc, dk, role):
    dest = sc.destination(dk)
    with h.quiet():
        if role == 'fresh-section':
            s = odml.Section(name='f', type='t', definition='fresh')
            odml.Section(name='fs', type='t', parent=s)
            odml.Property(name='fp', values=[1.5], parent=s)
            return sc.track(s)
        if role == 'fresh-property':
            return sc.track(odml.Property(name='f', values=['fv'], unit='u'))
    if role == 'section-attached-elsewhere':
        return sc.e_s
    if role == 'property-attached-elsewhere':
        return sc.e_p
    if role == 'section-of-other-document':
        return sc.x_s
    if role == 'property-of-other-document':
        return sc.x_p
    if role == 'child-section':
        return _first_child(dest, 's')
    if role == 'child-property':
        return _first_child(dest, 'p')
    if role == 'grandchild-section':
        return _first_child(_first_child(dest, 's'), 's')
    if role == 'grandchild-property':
        return _first_child(_first_child(dest, 's'), 'p')
    raise AssertionError(role)


def resolve_bad(sc, dk, bad, partner):
    reason, variant = bad
    dest = sc.destination(dk)
    with h.quiet():
        holder = None
        if 'attached' in variant and reason != 'wrong-object-type':
            holder = sc.track(odml.Section(name='holder%d' % len(sc.objs), type='t', parent=sc.D2))     # 'elsewhere' for built objects
        if reason == 'wrong-object-type':
            if variant == 'other-document':
                return sc.D2
            if variant in ('own-document', 'the-document-itself'):
                return sc.D
            if variant == 'none':
                return None
            if variant == 'str':
                return 'abc'
            if variant == 'int':
                return 7
            if variant == 'nested-list':
                return [sc.track(odml.Section(name='nested', type='t'))]
            if variant == 'fresh-property':
                return sc.track(odml.Property(name='wp', values=[1]))
            if variant == 'property-attached-elsewhere':
                return sc.e_p
        if reason == 'name-clash-at-destination':
            if variant.endswith('section'):
                name = _first_child(dest, 's')._name
                s = sc.track(odml.Section(name=name, type='clash', definition='clashing'))
                sc.track(odml.Property(name='cp', values=[1], parent=s))
                return s
            if variant == 'section-attached-elsewhere':
                name = _first_child(dest, 's')._name
                s = sc.track(odml.Section(name=name, type='clash', parent=holder))
                sc.track(odml.Property(name='cp', values=[1], parent=s))
                return s
            name = _first_child(dest, 'p')._name
            return sc.track(odml.Property(name=name, values=['clash'],
                                          parent=holder))
        if reason == 'duplicate-name-inside-argument':
            par = holder
            if isinstance(partner, BaseSection):
                return sc.track(odml.Section(name=partner._name, type='twin', parent=par))
            return sc.track(odml.Property(name=partner._name, values=['twin'], parent=par))
        if reason == 'same-object-twice-inside-argument':
            return partner
        if reason == 'destination-is-self':
            return dest
        if reason == 'destination-in-own-subtree':
            return dest._parent if variant == 'parent' else dest._parent._parent
    raise AssertionError(bad)


def argument_features(dest, items):
    """Independent classification of an argument list from the pre-state (private fields only):
    (feature string, index of the first refusable element | None, kinds of the elements, class of a failure)."""
    reasons = set()
    kinds = set()
    first = None
    per = []
    for it in items:
        f = _attach_features(None, dest, it)
        per.append(set(x for x in f if x in REFUSAL_REASONS))
        kinds |= set(x for x in f if x not in REFUSAL_REASONS)
    for i in range(len(items)):
        for j in range(i + 1, len(items)):
            a, b = items[i], items[j]
            if not isinstance(a, (BaseSection, BaseProperty)) or not isinstance(b, (BaseSection, BaseProperty)):
                continue
            if a is b:
                per[j].add('same-object-twice-inside-argument')
            elif isinstance(a, BaseSection) == isinstance(b, BaseSection) and a._name == b._name:
                per[j].add('duplicate-name-inside-argument')
    for i, r in enumerate(per):
        if r and first is None:
            first = i
        reasons |= r
    if not reasons:
        return 'nothing-refusable', None, kinds, None
    tail = '+refused-element-not-first' if first else ''
    # class of a failure: the reasons of the FIRST refusable element only (stable when several are refusable)
    return '+'.join(sorted(reasons)) + tail, first, kinds, '+'.join(sorted(per[first])) + tail


class _Bulk(object):
    """Accumulates evaluations and failures of run_bulk_refusals."""

    def __init__(self, col):
        self.col = col
        self.raw = {}

    def evaluate(self, sc, thunk, op, feat, dest_label, witness, sample=None, cls_feat=None):
        """One contract evaluation on the scene `sc` (already containing the argument objects).
        feat: every pre-state feature (class of the evaluation); cls_feat: the part of it that names a reason
        for a refusal (class of a failure; default: feat)."""
        objs = list(sc.objs)
        bad_pre = invariant_of(objs, queries=None)
        assert not bad_pre, (witness, bad_pre)          # requires Inv(pre-state): a harness bug otherwise
        pre = pre_snapshot_of(objs)
        violations = []
        outcome, exc = 'ret', None
        try:
            with guard(10.0):
                with h.quiet():
                    try:
                        thunk()
                    except Timeout:
                        raise
                    except Exception as e:      # noqa
                        outcome, exc = 'exc', e
        except Timeout:
            outcome = 'timeout'
            violations.append(('operation-terminates', 'operation did not return within 10 s'))
        sc.rescan()                             # whatever became reachable below a tracked object
        objs = list(sc.objs)
        problems = invariant_of(objs, queries='roots') if outcome != 'timeout' else []
        if problems:
            violations.append((primary_clause(problems),
                               'after %s (%s): %s' % (outcome, type(exc).__name__ if exc else 'ok',
                                                      '; '.join(problems[:3]))))
        if outcome == 'exc':
            if problems and any(categorize(p) in STRUCTURAL for p in problems):
                ch = 'the state is no longer well-formed (%s)' % problems[0]
            else:
                ch = changed_on_raise_of(pre, objs)
            if ch:
                violations.append(('unchanged-on-raise',
                                   'raised %s: %s but %s' % (type(exc).__name__, str(exc)[:80], ch)))
        self.col.case(cls_key=(op, dest_label, feat, outcome), sample=sample)
        for clause, detail in violations:
            k = (clause, op, dest_label, cls_feat or feat)
            size = len(repr(witness))
            if k not in self.raw:
                self.raw[k] = [0, size, witness, detail]
            self.raw[k][0] += 1
            if size < self.raw[k][1]:
                self.raw[k][1:] = [size, witness, detail]
        return outcome

    def report(self):
        for (clause, op, dest_label, feat), (count, _, witness, detail) in sorted(self.raw.items(), key=repr):
            prop = 'C06' if clause == 'unchanged-on-raise' else \
                ('C04' if clause in ('sibling-section-names-unique', 'sibling-property-names-unique',
                                     'name-not-empty', 'id-canonical-uuid') else 'C03')
            self.col.fail(check='%s/%s' % (BNAME, clause),
                          cls={'clause': clause, 'op': op, 'destination': dest_label, 'feature': feat,
                               'property': prop},
                          witness=dict(witness, scene=Scene.__doc__.split('\n\n', 1)[1].strip()),
                          detail='%s  [%d failing evaluations of this class]' % (detail, count))


def dest_label(dk):
    return 'Document' if dk == 'document' else 'Section'


# ----- phase A: extend ------------------------------------------------------------------------

def _lists(dk, quick):
    """(roles of the unrefusable elements, position of the refusable one | None, bad role | None)."""
    pre = pre_roles(dk)
    core = CORE_PRE['document' if dk == 'document' else 'section']
    bads = bad_roles(dk)
    for n_fill in (0, 1, 2):
        if quick and n_fill == 2 and dk == 'detached-section':
            continue                                             # quick: length 3 on the other two destinations
        pool = core if (quick and n_fill == 2) else pre
        for fill in itertools.permutations(pool, n_fill):
            if fill:
                yield fill, None, None                       # control: nothing refusable by construction
            for pos in range(n_fill + 1):
                for bad in bads:
                    if bad[0] in NEEDS_PARTNER and not fill:
                        continue
                    yield fill, pos, bad


def build_argument(sc, dk, fill, pos, bad):
    items = [resolve_pre(sc, dk, r) for r in fill]
    if bad is not None:
        items.insert(pos, resolve_bad(sc, dk, bad, items[0] if items else None))
    return items


def _arg_witness(dk, op, fill, pos, bad, extra=None):
    arg = list(fill)
    if bad is not None:
        arg.insert(pos, '%s (%s)' % bad)
    w = {'destination': dk, 'op': op, 'argument': arg}
    if extra:
        w.update(extra)
    return w


def phase_extend(bulk, tier, seed):
    quick = tier == 'quick'
    containers = ('list',) if quick else ('list', 'tuple')
    for dk in DESTS:
        for fill, pos, bad in _lists(dk, quick):
            for cont in containers:
                if cont == 'tuple' and len(fill) == 2 and not set(fill) <= set(core_of(dk)):
                    continue                                  # the tuple form: lengths 1..2, length 3 over the core elements
                sc = Scene(lone=(dk == 'detached-section'), link=False)
                dest = sc.destination(dk)
                items = build_argument(sc, dk, fill, pos, bad)
                feat, first, kinds, cls_feat = argument_features(dest, items)
                arg = items if cont == 'list' else tuple(items)
                bulk.evaluate(sc, lambda: dest.extend(arg), 'extend', feat + '|' + '+'.join(sorted(kinds)),
                              dest_label(dk), _arg_witness(dk, 'extend', fill, pos, bad, {'container': cont}),
                              sample='%s.extend(%s)' % (dk, _arg_witness(dk, 'extend', fill, pos, bad)['argument']),
                              cls_feat=cls_feat or feat)
    if quick:
        return
    # random extension: longer lists, one or two refusable elements anywhere
    rnd = random.Random('bulk-%s' % seed)
    for _ in range(4000):
        dk = rnd.choice(DESTS)
        pre = list(pre_roles(dk))
        rnd.shuffle(pre)
        fill = tuple(pre[:rnd.choice((2, 3, 4))])
        sc = Scene(lone=(dk == 'detached-section'), link=False)
        dest = sc.destination(dk)
        items = [resolve_pre(sc, dk, r) for r in fill]
        labels = list(fill)
        for _b in range(rnd.choice((1, 1, 2))):
            bad = rnd.choice(bad_roles(dk))
            at = rnd.randrange(len(items) + 1)
            partner = rnd.choice([x for x in items if isinstance(x, (BaseSection, BaseProperty))])
            items.insert(at, resolve_bad(sc, dk, bad, partner))
            labels.insert(at, '%s (%s)' % bad)
        feat, first, kinds, cls_feat = argument_features(dest, items)
        bulk.evaluate(sc, lambda: dest.extend(items), 'extend', feat + '|' + '+'.join(sorted(kinds)), dest_label(dk),
                      {'destination': dk, 'op': 'extend', 'argument': labels, 'container': 'list'},
                      cls_feat=cls_feat or feat)


# ----- phase B: operations taking one object -----------------------------------------------------

def _single_ops(dk):
    ops = [('append',), ('insert', 0), ('insert', 1), ('insert', -1), ('insert', 99), ('set_parent',),
           ('append-a-list',), ('extend-with-the-object',)]
    for i in (0, 1, -1, 5):
        ops.append(('setitem_sec', i))
        if dk != 'document':
            ops.append(('setitem_prop', i))
    ops.append(('setitem_sec', 'slice'))
    return ops


def _index_feature(i, n):
    if i == 'slice':
        return 'slice-index'
    if i >= n or i < -n:
        return 'index-out-of-range'
    return None


def phase_single(bulk, tier, seed):
    for dk in DESTS:
        roles = [(r, None) for r in pre_roles(dk)] + [(None, b) for b in bad_roles(dk) if b[0] not in NEEDS_PARTNER]
        for op in _single_ops(dk):
            for role, bad in roles:
                sc = Scene(lone=(dk == 'detached-section'), link=False)
                dest = sc.destination(dk)
                x = resolve_pre(sc, dk, role) if role else resolve_bad(sc, dk, bad, None)
                kind = op[0]
                f = set()
                if kind in ('setitem_sec', 'setitem_prop'):
                    lst = _kids(dest, 's' if kind == 'setitem_sec' else 'p')
                    idx = _index_feature(op[1], len(lst))
                    if idx:
                        f.add(idx)
                    if (kind == 'setitem_sec') != isinstance(x, BaseSection):
                        f.add('wrong-object-type')
                    else:
                        ri = None if idx else op[1] % len(lst)
                        if ri is not None and lst[ri] is x:
                            f.add('replaces-itself')
                        f |= _attach_features(None, dest, x, replace_index=ri)
                else:
                    f |= _attach_features(None, dest, x)
                    if kind == 'append-a-list':
                        f.add('list-instead-of-object')
                    if kind == 'extend-with-the-object':
                        # a Section is iterable (its children), anything else is not an argument for extend
                        f = set(['section-iterated-as-its-children' if isinstance(x, BaseSection)
                                 else 'object-instead-of-list'])
                    if kind == 'insert' and not f & set(REFUSAL_REASONS):
                        n = len(_kids(dest, 's' if isinstance(x, BaseSection) else 'p'))
                        if op[1] < 0:
                            f.add('negative-index')
                        elif op[1] > n:
                            f.add('index-beyond-end')
                if kind == 'set_parent' and not isinstance(x, (BaseSection, BaseProperty)):
                    continue                                  # nothing to assign to
                feat = relevant_feature('unchanged-on-raise', '+'.join(sorted(f)) if f else 'plain')
                if kind == 'append':
                    thunk = lambda: dest.append(x)
                elif kind == 'append-a-list':
                    thunk = lambda: dest.append([x])
                elif kind == 'extend-with-the-object':
                    thunk = lambda: dest.extend(x)
                elif kind == 'insert':
                    thunk = lambda: dest.insert(op[1], x)
                elif kind == 'set_parent':
                    def thunk():
                        x.parent = dest
                elif kind == 'setitem_sec':
                    def thunk():
                        if op[1] == 'slice':
                            dest.sections[0:1] = [x]
                        else:
                            dest.sections[op[1]] = x
                else:
                    def thunk():
                        dest.properties[op[1]] = x
                label = kind if len(op) == 1 else '%s[%s]' % (kind, op[1])
                bulk.evaluate(sc, thunk, kind, feat, dest_label(dk),
                              {'destination': dk, 'op': label, 'argument': role or '%s (%s)' % bad})


# ----- phase C: constructors with parent=, create_section / create_property -------------------------

BAD_SECTION_KW = (('invalid-cardinality-argument', {'sec_cardinality': (2, 1)}),
                  ('invalid-cardinality-argument', {'prop_cardinality': 'many'}),
                  ('invalid-cardinality-argument', {'prop_cardinality': (-1, 2)}),
                  ('id-garbage', {'oid': 'not-a-uuid'}),
                  ('unresolvable-link-argument', {'link': '/no/such/section'}))
BAD_PROPERTY_KW = (('invalid-cardinality-argument', {'val_cardinality': (2, 1)}),
                   ('unconvertible-value-argument', {'values': 'x', 'dtype': 'int'}),
                   ('unconvertible-value-argument', {'values': [1, 2, 'x'], 'dtype': 'int'}),
                   ('unconvertible-value-argument', {'values': ['2020-01-02', '2020-13-01'], 'dtype': 'date'}),
                   ('unknown-dtype-argument', {'values': [1], 'dtype': 'quantity'}),
                   ('id-garbage', {'oid': 'not-a-uuid'}))
CTOR_REFUSALS = {'wrong-object-type', 'name-clash-at-destination', 'invalid-cardinality-argument',
                 'unconvertible-value-argument'}
PARENTS = ('section-in-document', 'detached-section', 'document', 'a-property', 'a-str', 'an-int')


def _parent_obj(sc, pk):
    if pk in DESTS:
        return sc.destination(pk)
    return {'a-property': sc.e_p, 'a-str': 'abc', 'an-int': 7}[pk]


def phase_ctor(bulk, tier, seed):
    for what, bad_kw in (('ctor_sec', BAD_SECTION_KW), ('ctor_prop', BAD_PROPERTY_KW)):
        combos = [()] + [(b,) for b in bad_kw] + \
            [c for c in itertools.combinations(bad_kw, 2) if not set(c[0][1]) & set(c[1][1])]
        for pk in PARENTS:
            for name_kind in ('new-name', 'name-of-a-child', 'no-name'):
                for combo in combos:
                    sc = Scene(lone=(pk == 'detached-section'), link=False)
                    par = _parent_obj(sc, pk)
                    f = set(lab for lab, _ in combo)
                    ok_parent = isinstance(par, BaseSection) or (what == 'ctor_sec' and isinstance(par, BaseDocument))
                    if not ok_parent:
                        f.add('wrong-object-type')
                    name = {'new-name': 'brandnew', 'no-name': None}.get(name_kind)
                    if name_kind == 'name-of-a-child':
                        if not ok_parent:
                            continue
                        name = _first_child(par, 's' if what == 'ctor_sec' else 'p')._name
                        f.add('name-clash-at-destination')
                    kw = {}
                    for _, d in combo:
                        kw.update(d)
                    if what == 'ctor_sec':
                        thunk = lambda: odml.Section(name=name, type='t', parent=par, definition='new', **kw)
                    else:
                        kw.setdefault('values', [1, 2])
                        thunk = lambda: odml.Property(name=name, parent=par, unit='mV', **kw)
                    feat = '+'.join(sorted(f)) if f else 'plain'
                    bulk.evaluate(sc, thunk, what, feat, 'Document' if pk == 'document' else
                                  ('Section' if pk in DESTS else 'not-a-container'),
                                  {'op': what, 'parent': pk, 'name': name_kind, 'arguments': repr(kw)},
                                  cls_feat='+'.join(sorted(f & CTOR_REFUSALS)) or feat)
    for dk in DESTS:
        for name_kind in ('new-name', 'name-of-a-child'):
            sc = Scene(lone=(dk == 'detached-section'), link=False)
            dest = sc.destination(dk)
            name = 'brandnew' if name_kind == 'new-name' else _first_child(dest, 's')._name
            feat = 'plain' if name_kind == 'new-name' else 'name-clash-at-destination'
            bulk.evaluate(sc, lambda: dest.create_section(name, 't'), 'create_section', feat, dest_label(dk),
                          {'op': 'create_section', 'destination': dk, 'name': name_kind})
            if dk == 'document':
                continue
            for lab, kw in ((None, {}),) + tuple(b for b in BAD_PROPERTY_KW if 'val_cardinality' not in b[1]):
                sc = Scene(lone=(dk == 'detached-section'), link=False)
                dest = sc.destination(dk)
                name = 'brandnew' if name_kind == 'new-name' else _first_child(dest, 'p')._name
                f = set([lab] if lab else []) | set([] if name_kind == 'new-name' else ['name-clash-at-destination'])
                bulk.evaluate(sc, lambda: dest.create_property(name, **kw), 'create_property',
                              '+'.join(sorted(f)) if f else 'plain', dest_label(dk),
                              {'op': 'create_property', 'destination': dk, 'name': name_kind, 'arguments': repr(kw)},
                              cls_feat='+'.join(sorted(f & CTOR_REFUSALS)) or None)


# ----- phase D: merge - the children of the source are the argument list ----------------------------

def _m_new_section():
    s = odml.Section(name='n1', type='t', definition='brand new')
    odml.Property(name='np', values=[5], parent=s)
    return s


def _m_matching_section():
    s = odml.Section(name='k', type='t')
    odml.Property(name='fresh', values=[1], parent=s)
    odml.Section(name='deeper', type='t', parent=s)
    return s


def _m_nested_prop_conflict():
    s = odml.Section(name='k', type='t')
    odml.Property(name='added-before', values=[1], parent=s)
    odml.Property(name='g', values=['abc'], dtype='string', parent=s)
    return s


def _m_nested_type_clash():
    s = odml.Section(name='k', type='t', reference='taken over before')
    odml.Section(name='added-before', type='t', parent=s)
    odml.Section(name='g', type='OTHER', parent=s)
    return s


MERGE_GOOD = (
    ('new-section', _m_new_section),
    ('new-property', lambda: odml.Property(name='n1', values=['a'])),
    ('property-with-new-values', lambda: odml.Property(name='k', values=[3], dtype='int', unit='mV')),
    ('matching-section-with-new-content', _m_matching_section),
    ('property-filling-attributes', lambda: odml.Property(name='k2', values=['y'], dtype='string', definition='filled')),
    ('property-with-multi-line-text', lambda: odml.Property(name='k2', values=['two\nlines', 'x'], dtype='string')),
)
MERGE_BAD = (
    ('property-dtype-conflict', lambda: odml.Property(name='k', values=['abc'], dtype='string')),
    ('property-unit-conflict', lambda: odml.Property(name='k', values=[9], dtype='int', unit='s')),
    ('property-definition-conflict', lambda: odml.Property(name='k', values=[9], dtype='int', unit='mV',
                                                           definition='another definition')),
    ('section-same-name-other-type', lambda: odml.Section(name='k2', type='OTHER')),
    ('section-definition-conflict', lambda: odml.Section(name='k', type='t', definition='another definition')),
    ('nested-property-dtype-conflict', _m_nested_prop_conflict),
    ('nested-section-same-name-other-type', _m_nested_type_clash),
)


def phase_merge(bulk, tier, seed):
    quick = tier == 'quick'
    goods = dict(MERGE_GOOD)
    bads = dict(MERGE_BAD)
    core = ('new-section', 'property-with-new-values', 'matching-section-with-new-content')
    cases = []
    for n_fill in (0, 1, 2):
        pool = core if (quick and n_fill == 2) else [g for g, _ in MERGE_GOOD]
        for fill in itertools.permutations(pool, n_fill):
            if fill:
                cases.append((fill, None, None))
            for pos in range(n_fill + 1):
                for bad, _ in MERGE_BAD:
                    cases.append((fill, pos, bad))
    wrong = (('wrong-object-type', 'a-property'), ('wrong-object-type', 'a-document'), ('wrong-object-type', 'none'),
             ('self-merge', 'destination'))
    for dk in ('section-in-document', 'detached-section'):
        for src_home in ('detached', 'in-other-document'):
            if quick and (dk, src_home) == ('detached-section', 'in-other-document'):
                continue
            for strict in (True, False):
                if quick and not strict and (dk, src_home) != ('section-in-document', 'detached'):
                    continue
                for fill, pos, bad in cases:
                    sc = Scene(lone=(dk == 'detached-section'), link=False)
                    dest = sc.destination(dk)
                    labels = list(fill)
                    if bad:
                        labels.insert(pos, bad)
                    with h.quiet():
                        kids = [(goods.get(l) or bads[l])() for l in labels]
                        if len(set((isinstance(k, BaseSection), k._name) for k in kids)) != len(kids):
                            continue                          # two children of one name cannot live in one source
                        src = odml.Section(name='src', type='td', reference='src ref')
                        for k in kids:
                            src.append(k)
                        if src_home == 'in-other-document':
                            sc.other.append(src)
                    sc.track(src)
                    feat = 'nothing-refusable' if not bad else \
                        '%s%s' % (bad, '+conflicting-child-not-first' if pos else '')
                    bulk.evaluate(sc, lambda: dest.merge(src, strict=strict), 'merge', feat + '|strict=%s' % strict,
                                  'Section', {'op': 'merge', 'destination': dk, 'source-children': labels,
                                              'source': src_home, 'strict': strict}, cls_feat=feat)
        for reason, variant in wrong:
            sc = Scene(lone=(dk == 'detached-section'), link=False)
            dest = sc.destination(dk)
            src = {'a-property': sc.e_p, 'a-document': sc.D2, 'none': None, 'destination': dest}[variant]
            bulk.evaluate(sc, lambda: dest.merge(src), 'merge', reason, 'Section',
                          {'op': 'merge', 'destination': dk, 'source': variant})


# ----- phase E: value lists of a Property that lives in a document -----------------------------------

VALUE_LISTS = {
    # dtype: (values the Property starts with, acceptable new values, values the dtype cannot take)
    'int': ([1], [5, '7'], ['abc', {'a': 1}]),
    'float': ([1.5], [2.5, '3.5'], ['abc', {'a': 1}]),
    'boolean': ([True], [False, 'true'], ['maybe', 7]),
    'date': ([_dt.date(2020, 1, 2)], [_dt.date(1999, 12, 31), '2001-02-03'], ['2020-13-01', 'abc']),
    'time': ([_dt.time(1, 2, 3)], [_dt.time(4, 5, 6), '07:08:09'], ['25:00:00', 'abc']),
    'datetime': ([_dt.datetime(2020, 1, 2, 3, 4, 5)], ['2001-02-03 04:05:06'], ['2020-01-02 25:00:00', 'abc']),
    '2-tuple': (['(1;2)'], ['(3;4)', '(5;6)'], ['(1;2;3)', 'abc']),
}


def phase_values(bulk, tier, seed):
    for dtype, (start, good, bad) in VALUE_LISTS.items():
        if tier == 'quick' and dtype in ('float', 'time', 'datetime'):
            continue
        lists = []
        for b in bad:
            lists.append(('unconvertible-value-argument', [b]))
            for g in good:
                lists.append(('unconvertible-value-argument+refused-element-not-first', [g, b]))
                lists.append(('unconvertible-value-argument', [b, g]))
            for g1, g2 in itertools.permutations(good, 2):
                lists.append(('unconvertible-value-argument+refused-element-not-first', [g1, g2, b]))
                lists.append(('unconvertible-value-argument+refused-element-not-first', [g1, b, g2]))
                lists.append(('unconvertible-value-argument', [b, g1, g2]))
        lists.append(('nothing-refusable', list(good)))
        for feat, lst in lists:
            for op in ('values=', 'extend', 'extend-nonstrict', 'append', 'insert', 'setitem', 'ctor', 'create_property',
                       'merge', 'dtype='):
                if op in ('append', 'setitem', 'insert') and len(lst) != 1:
                    continue
                if op == 'dtype=' and feat != 'nothing-refusable' and len(lst) != 1:
                    continue
                sc = Scene(lone=False, link=False)
                with h.quiet():
                    p = sc.track(odml.Property(name='v', dtype=dtype, values=list(start), unit='u', parent=sc.dest))
                arg = list(lst)
                f = feat
                if op == 'values=':
                    def thunk():
                        p.values = arg
                elif op == 'extend':
                    thunk = lambda: p.extend(arg)
                elif op == 'extend-nonstrict':
                    thunk = lambda: p.extend(arg, strict=False)
                elif op == 'append':
                    thunk = lambda: p.append(arg[0])
                elif op == 'insert':
                    thunk = lambda: p.insert(0, arg[0])
                elif op == 'setitem':
                    def thunk():
                        p[0] = arg[0]
                elif op == 'ctor':
                    thunk = lambda: odml.Property(name='w', dtype=dtype, values=arg, parent=sc.dest)
                elif op == 'create_property':
                    thunk = lambda: sc.dest.create_property('w', values=arg, dtype=dtype)
                elif op == 'merge':
                    # the source holds the list under another dtype: string -> dtype conversion is refused for the bad item
                    with h.quiet():
                        src = sc.track(odml.Property(name='v', dtype='string', values=[str(x) for x in arg], unit='u'))
                    thunk = lambda: p.merge(src)
                    f = feat.replace('unconvertible-value-argument', 'source-of-other-dtype')
                    if feat == 'nothing-refusable':
                        f = 'source-of-other-dtype'
                else:
                    # re-typing a Property whose values the new dtype cannot take: all or nothing
                    with h.quiet():
                        p2 = sc.track(odml.Property(name='v2', dtype='string', values=[str(x) for x in arg],
                                                    parent=sc.dest))

                    def thunk():
                        p2.dtype = dtype
                    f = feat.replace('unconvertible-value-argument', 'values-unconvertible-to-new-dtype')
                bulk.evaluate(sc, thunk, 'values:' + op, '%s|%s' % (f, dtype), 'Property',
                              {'op': op, 'dtype': dtype, 'start': repr(start), 'argument': repr(lst)})


# ----- earlier life of the Section an operation is applied to ----------------------------------------
#
# "at any point of an editing history": the Section concerned may have been merged, unmerged, cloned, cleaned or
# finalized before.  Every life below is produced through the public API on the scene (link=True) and leaves dest
# (or its clone) with some combination of: link text recorded or not, link resolved or not, content taken over
# from lt present / removed / edited.

LIVES = ('no-link', 'link-resolved', 'include-recorded',
         'merged-explicitly', 'merged-explicitly-nonstrict', 'merged-then-unmerged', 'merged-then-cleaned',
         'merged-explicitly-twice', 'merged-explicitly-then-edited',
         'link-resolved-then-cleaned', 'link-resolved-then-document-cleaned', 'link-resolved-then-edited',
         'link-recorded-while-detached', 'link-recorded-then-finalized', 'link-resolved-cleaned-finalized',
         'clone-of-linking-section', 'clone-of-explicitly-merged-section',
         'merged-explicitly-child-moved-away', 'link-resolved-child-moved-away',
         'merged-explicitly-then-template-edited', 'link-resolved-then-template-edited',
         'link-resolved-then-template-removed')
# what a life leaves behind outside the Section itself (part of the class of a failure)
LIFE_EXTRA_FACT = {'merged-explicitly-child-moved-away': 'taken-over-child-moved-to-another-parent',
                   'link-resolved-child-moved-away': 'taken-over-child-moved-to-another-parent',
                   'merged-explicitly-then-template-edited': 'template-edited-afterwards',
                   'link-resolved-then-template-edited': 'template-edited-afterwards',
                   'link-resolved-then-template-removed': 'template-removed-from-the-document'}
MERGED_LIVES = tuple(x for x in LIVES if x not in ('no-link', 'include-recorded'))


def live(sc, life):
    """Give sc.dest the earlier life `life`; returns the Section the operation under test is applied to."""
    sec = sc.dest
    with h.quiet():
        if life == 'no-link':
            pass
        elif life == 'link-resolved':
            sec.link = '/lt'
        elif life == 'include-recorded':
            sec._include = 'http://example.invalid/terms.xml#sec'     # as a loader records it; nothing is fetched
        elif life == 'merged-explicitly':
            sec.merge(sc.lt)
        elif life == 'merged-explicitly-nonstrict':
            sec.merge(sc.lt, strict=False)
        elif life == 'merged-then-unmerged':
            sec.merge(sc.lt)
            sec.unmerge(sc.lt)
        elif life == 'merged-then-cleaned':
            sec.merge(sc.lt)
            sec.clean()
        elif life == 'merged-explicitly-twice':
            sec.merge(sc.lok, strict=False)
            sec.merge(sc.lt)
        elif life == 'merged-explicitly-then-edited':
            sec.merge(sc.lt)
            sec.sections['c1'].definition = 'edited after the merge'
            sec.properties['lp'].values = [8]
        elif life == 'link-resolved-then-cleaned':
            sec.link = '/lt'
            sec.clean()
        elif life == 'link-resolved-then-document-cleaned':
            sec.link = '/lt'
            sc.D.clean()
        elif life == 'link-resolved-then-edited':
            sec.link = '/lt'
            sec.sections['c1'].definition = 'edited after the link was resolved'
            sec.properties['lp'].values = [8]
        elif life in ('link-recorded-while-detached', 'link-recorded-then-finalized'):
            sc.mid.remove(sec)
            sec.link = '/lt'                                        # detached: the text is recorded only
            sc.mid.insert(0, sec)
            if life == 'link-recorded-then-finalized':
                sc.D.finalize()
        elif life == 'link-resolved-cleaned-finalized':
            sec.link = '/lt'
            sc.D.clean()
            sc.D.finalize()
        elif life in ('merged-explicitly-child-moved-away', 'link-resolved-child-moved-away'):
            if life.startswith('merged'):
                sec.merge(sc.lt)
            else:
                sec.link = '/lt'
            sc.top2.append(sec.sections['c1'])
        elif life in ('merged-explicitly-then-template-edited', 'link-resolved-then-template-edited',
                      'link-resolved-then-template-removed'):
            if life.startswith('merged'):
                sec.merge(sc.lt)
            else:
                sec.link = '/lt'
            if life.endswith('removed'):
                sc.D.remove(sc.lt)
            else:
                sc.lt.sections['c1'].name = 'c1x'
                sc.lt.properties['lp'].values = [7, 70]
                odml.Section(name='late', type='t', parent=sc.lt)
        elif life in ('clone-of-linking-section', 'clone-of-explicitly-merged-section'):
            if life == 'clone-of-linking-section':
                sec.link = '/lt'
            else:
                sec.merge(sc.lt)
            sec = sc.track(sec.clone())
            sc.top2.append(sec)
        else:
            raise AssertionError(life)
    sc.rescan()
    return sec


def life_facts(sec, life=None):
    """What the earlier life left behind, read from private fields before the call (class of a failure)."""
    facts = [LIFE_EXTRA_FACT[life]] if life in LIFE_EXTRA_FACT else []
    if getattr(sec, '_include', None) is not None:
        facts.append('include-recorded')
    if sec._link is not None:
        facts.append('link-recorded')
    merged = getattr(sec, '_merged', None)
    if merged is not None:
        facts.append('merged')
    for c in _kids(sec, 's'):
        src = getattr(c, '_merged', None)
        if src is not None and (merged is None or src._parent is not merged):
            facts.append('child-marked-as-copy-of-an-earlier-merge')
            break
    return '+'.join(sorted(facts)) if facts else 'not-merged'


# ----- phase F: link assignment (clean the old resolution, set, resolve by merging) -------------------

LINK_TARGETS = (('unresolvable-link', '/no/such/section'), ('unresolvable-link', '../../nowhere'),
                ('unresolvable-link', 'lt'), ('link-is-not-a-path', 5),
                ('link-target-cannot-be-merged', '/lbad'), ('link-target-cannot-be-merged', '/lbadp'),
                ('link-target-clashes-with-taken-over-content', '/lmsec'),
                ('link-target-clashes-with-taken-over-content', '/lmprop'),
                ('link-target-clashes-with-taken-over-content', '/lmdeep'),
                ('link-to-itself', '.'), ('link-to-own-parent', '..'),
                ('nothing-refusable', '/lt'), ('nothing-refusable', '/lok'),
                ('nothing-refusable', '/top/mid/sib'), ('nothing-refusable', None), ('nothing-refusable', ''))


def phase_link(bulk, tier, seed):
    for state in LIVES:
        for feat, target in LINK_TARGETS:
            sc = Scene(lone=None, link='targets')
            sec = live(sc, state)
            if target == '.':
                target = sec.get_path()

            def thunk():
                sec.link = target
            f = feat if state != 'include-recorded' else 'link-and-include-exclusive'
            bulk.evaluate(sc, thunk, 'set_link', '%s|%s' % (f, state), 'Section',
                          {'op': 'dest.link = %r' % (target,), 'state': state},
                          cls_feat='%s|%s' % (f, life_facts(sec, state)))


# ----- phase H: every other refusable operation on a Section with an earlier life ----------------------

def _clash_section(sc, name, type_='clash', holder=None):
    s = sc.track(odml.Section(name=name, type=type_, definition='clashing'))
    sc.track(odml.Property(name='cp', values=[1], parent=s))
    if holder is not None:
        holder.append(s)
    return s


def _clash_property(sc, name, holder=None):
    p = sc.track(odml.Property(name=name, values=['clash'], unit='u'))
    if holder is not None:
        holder.append(p)
    return p


def _good_section(sc):
    s = sc.track(odml.Section(name='fresh', type='t', definition='fresh'))
    sc.track(odml.Property(name='fp', values=[1.5], parent=s))
    return s


def _merge_source(sc, bad, bad_first, with_good):
    src = sc.track(odml.Section(name='src', type='td'))
    kids = []
    if bad == 'property-unconvertible':
        kids.append(odml.Property(name='lp', values=['high'], dtype='string'))
    elif bad == 'section-same-name-other-type':
        kids.append(odml.Section(name='c1', type='OTHER'))
    elif bad == 'nested-section-same-name-other-type':
        c = odml.Section(name='c1', type='t')
        odml.Section(name='added-before', type='t', parent=c)
        odml.Section(name='cc', type='OTHER', parent=c)
        kids.append(c)
    elif bad == 'own-section-same-name-other-type':
        kids.append(odml.Section(name='k', type='OTHER'))
    if with_good:
        good = [odml.Section(name='n1', type='t', definition='brand new'), odml.Property(name='np', values=[5])]
        kids = kids + good if bad_first else good + kids
    for k in kids:
        src.append(k)
    sc.rescan()
    return src


def life_operations():
    """(operation label, class of the argument, builder(sc, sec) -> thunk | None).  A builder returns None when the
    scene does not offer the objects it needs (e.g. nothing is left of the taken-over content)."""
    ops = []

    def add(op, feat, builder, core=False):
        ops.append((op, feat, builder, core))

    for origin, sname, pname in (('taken-over', 'c1', 'lp'), ('own', 'k', 'k')):
        clash_s = 'name-clash-at-destination:%s-section' % origin
        clash_p = 'name-clash-at-destination:%s-property' % origin
        for elsewhere in (False, True):
            tail = '+child-attached-elsewhere' if elsewhere else ''

            def mk_s(sc, sname=sname, elsewhere=elsewhere):
                return _clash_section(sc, sname, holder=sc.other if elsewhere else None)

            def mk_p(sc, pname=pname, elsewhere=elsewhere):
                return _clash_property(sc, pname, holder=sc.other if elsewhere else None)

            for kind, mk, clash in (('s', mk_s, clash_s), ('p', mk_p, clash_p)):
                def b_append(sc, sec, mk=mk):
                    x = mk(sc)
                    return lambda: sec.append(x)

                def b_insert(sc, sec, mk=mk):
                    x = mk(sc)
                    return lambda: sec.insert(1, x)

                def b_parent(sc, sec, mk=mk):
                    x = mk(sc)

                    def thunk():
                        x.parent = sec
                    return thunk

                def b_extend_first(sc, sec, mk=mk):
                    arg = [mk(sc), _good_section(sc)]
                    return lambda: sec.extend(arg)

                def b_extend_last(sc, sec, mk=mk):
                    arg = [_good_section(sc), sc.e_p, mk(sc)]
                    return lambda: sec.extend(arg)

                def b_setitem(sc, sec, mk=mk, kind=kind):
                    x = mk(sc)
                    lst = _kids(sec, kind)
                    others = [i for i, c in enumerate(lst) if c._name != x._name]
                    if not others:
                        return None
                    i = others[-1]

                    def thunk():
                        if kind == 's':
                            sec.sections[i] = x
                        else:
                            sec.properties[i] = x
                    return thunk

                core = origin == 'taken-over'
                add('append', clash + tail, b_append, core and not elsewhere)
                add('insert', clash + tail, b_insert)
                add('set_parent', clash + tail, b_parent, core and elsewhere and kind == 'p')
                add('extend', clash + tail, b_extend_first)
                add('extend', clash + tail + '+refused-element-not-first', b_extend_last, core and elsewhere and kind == 's')
                add('setitem_sec' if kind == 's' else 'setitem_prop', clash + tail, b_setitem,
                    core and not elsewhere and kind == 's')

        add('ctor_sec', clash_s, lambda sc, sec, n=sname: (lambda: odml.Section(name=n, type='x', parent=sec, definition='new')),
            origin == 'taken-over')
        add('ctor_prop', clash_p, lambda sc, sec, n=pname: (lambda: odml.Property(name=n, values=[1], parent=sec)))
        add('create_section', clash_s, lambda sc, sec, n=sname: (lambda: sec.create_section(n, 'x')))
        add('create_property', clash_p, lambda sc, sec, n=pname: (lambda: sec.create_property(n, values=[1])),
            origin == 'taken-over')
        add('ctor_sec', clash_s + '+invalid-cardinality-argument',
            lambda sc, sec, n=sname: (lambda: odml.Section(name=n, type='x', parent=sec, sec_cardinality=(2, 1))))

    # renaming: a taken-over child gets the name of an own child and the other way round
    def b_rename(kind, old, new):
        def builder(sc, sec):
            found = [c for c in _kids(sec, kind) if c._name == old]
            if not found:
                return None

            def thunk():
                found[0].name = new
            return thunk
        return builder
    add('set:name', 'name-clash-among-siblings:taken-over-section-renamed', b_rename('s', 'c1', 'k'), True)
    add('set:name', 'name-clash-among-siblings:own-section-renamed', b_rename('s', 'k', 'c1'))
    add('set:name', 'name-clash-among-siblings:taken-over-property-renamed', b_rename('p', 'lp', 'k'))
    add('set:name', 'name-clash-among-siblings:own-property-renamed', b_rename('p', 'k', 'lp'), True)

    # attributes / values of the taken-over objects and of the Section itself
    def on_child(kind, name, action):
        def builder(sc, sec):
            found = [c for c in _kids(sec, kind) if c._name == name]
            if not found:
                return None
            return lambda: action(found[0])
        return builder

    def _set(attr, v):
        def action(o):
            setattr(o, attr, v)
        return action
    add('values:values=', 'unconvertible-value-argument:taken-over-property', on_child('p', 'lp', _set('values', [1, 'x'])),
        True)
    add('values:extend', 'unconvertible-value-argument:taken-over-property', on_child('p', 'lp', lambda o: o.extend([2, 'x'])))
    add('values:dtype=', 'values-unconvertible-to-new-dtype:taken-over-property', on_child('p', 'lp', _set('dtype', 'date')))
    add('set:val_cardinality', 'invalid-cardinality-argument:taken-over-property',
        on_child('p', 'lp', _set('val_cardinality', (2, 1))))
    add('set:sec_cardinality', 'invalid-cardinality-argument:taken-over-section',
        on_child('s', 'c1', _set('sec_cardinality', (2, 1))))
    add('new_id', 'id-garbage:taken-over-section', on_child('s', 'c1', lambda o: o.new_id('not-a-uuid')))
    add('reorder', 'index-not-an-integer:taken-over-section', on_child('s', 'c1', lambda o: o.reorder('x')))
    add('reorder', 'index-not-an-integer:taken-over-property', on_child('p', 'lp', lambda o: o.reorder(None)))
    add('set:prop_cardinality', 'invalid-cardinality-argument', lambda sc, sec: (lambda: setattr(sec, 'prop_cardinality', 'x')))
    add('new_id', 'id-garbage', lambda sc, sec: (lambda: sec.new_id('not-a-uuid')))

    # wrong types
    add('append', 'wrong-object-type', lambda sc, sec: (lambda: sec.append(sc.D2)))
    add('extend', 'wrong-object-type+refused-element-not-first',
        lambda sc, sec: (lambda arg=[_good_section(sc), None]: sec.extend(arg)))
    add('merge', 'wrong-object-type', lambda sc, sec: (lambda: sec.merge(sc.e_p)))
    add('merge', 'self-merge', lambda sc, sec: (lambda: sec.merge(sec)))
    add('append', 'destination-in-own-subtree:taken-over-section',
        on_child('s', 'c1', lambda o: o.append(o._parent)))

    # merging once more: the source clashes with content of the earlier merge
    for bad in ('property-unconvertible', 'section-same-name-other-type', 'nested-section-same-name-other-type',
                'own-section-same-name-other-type'):
        for strict in (True, False):
            for bad_first, with_good in ((True, False), (True, True), (False, True)):
                def b_merge(sc, sec, bad=bad, strict=strict, bad_first=bad_first, with_good=with_good):
                    src = _merge_source(sc, bad, bad_first, with_good)
                    return lambda: sec.merge(src, strict=strict)
                add('merge', 'source-clashes-with-%s-content:%s%s'
                    % ('own' if bad.startswith('own') else 'taken-over', bad, '' if bad_first else '+conflicting-child-not-first'),
                    b_merge, strict and not bad_first and not bad.startswith('own'))

    # undoing: unmerge with something that cannot be unmerged, clean of the Section / the Document
    add('unmerge', 'wrong-object-type:none', lambda sc, sec: (lambda: sec.unmerge(None)), True)
    add('unmerge', 'wrong-object-type:int', lambda sc, sec: (lambda: sec.unmerge(7)))
    add('unmerge', 'self-unmerge', lambda sc, sec: (lambda: sec.unmerge(sec)))
    add('clean', 'nothing-refusable:section', lambda sc, sec: (lambda: sec.clean()), True)
    add('clean', 'nothing-refusable:document', lambda sc, sec: (lambda: sc.D.clean()), True)
    add('merge', 'nothing-refusable:resolve-recorded-link', lambda sc, sec: (lambda: sec.merge()), True)
    return ops


LIFE_OPS = life_operations()


FULL_LIVES_QUICK = ('merged-explicitly', 'link-resolved', 'clone-of-linking-section')


def phase_lives(bulk, tier, seed):
    for state in LIVES:
        for op, feat, builder, core in LIFE_OPS:
            if tier == 'quick' and not core and state not in FULL_LIVES_QUICK:
                continue                    # quick: the whole battery on three lives, its core on the others
            sc = Scene(lone=None, link=True)
            sec = live(sc, state)
            with h.quiet():
                thunk = builder(sc, sec)
            if thunk is None:
                continue
            sc.rescan()
            facts = life_facts(sec, state)
            bulk.evaluate(sc, thunk, op, '%s|%s' % (feat, state), 'Section',
                          {'op': op, 'argument': feat, 'state': state}, cls_feat='%s|%s' % (feat, facts))


# ----- phase G: attributes with a validated format -----------------------------------------------------

def phase_attributes(bulk, tier, seed):
    cases = (
        ('invalid-date', 'Document', 'date', lambda sc: sc.D, ('not-a-date', '2020-13-01', 20200102)),
        ('nothing-refusable', 'Document', 'date', lambda sc: sc.D, ('2020-01-02', None)),
        ('invalid-cardinality-argument', 'Section', 'sec_cardinality', lambda sc: sc.dest, ((2, 1), 'x', (-1, None))),
        ('invalid-cardinality-argument', 'Section', 'prop_cardinality', lambda sc: sc.dest, ((2, 1), 'x', (1, 2, 3))),
        ('invalid-cardinality-argument', 'Property', 'val_cardinality',
         lambda sc: _first_child(sc.dest, 'p'), ((2, 1), 'x', (None, -1))),
        ('id-garbage', 'Section', 'new_id', lambda sc: sc.dest, ('not-a-uuid', VALID_ID[:-4])),
        ('name-clash-among-siblings', 'Section', 'name', lambda sc: _first_child(sc.dest, 's'), ('k2',)),
        ('name-clash-among-siblings', 'Property', 'name', lambda sc: _first_child(sc.dest, 'p'), ('k2',)),
    )
    for feat, owner, attr, pick, values in cases:
        for v in values:
            sc = Scene(lone=False, link=False)
            with h.quiet():
                sc.D.date = '2019-09-09'
                sc.dest.sec_cardinality = (0, 9)
                sc.dest.prop_cardinality = (0, 9)
                _first_child(sc.dest, 'p').val_cardinality = (0, 9)
            o = pick(sc)
            if attr == 'new_id':
                thunk = lambda: o.new_id(v)
            else:
                def thunk():
                    setattr(o, attr, v)
            bulk.evaluate(sc, thunk, 'set:' + attr, feat, owner, {'op': '%s.%s = %r' % (owner, attr, v)})
            if attr == 'date' and feat == 'invalid-date':
                sc = Scene(lone=False, link=False)
                bulk.evaluate(sc, lambda: odml.Document(author='x', date=v), 'ctor_doc', feat, 'Document',
                              {'op': 'Document(date=%r)' % (v,)})


PHASES = (('extend', phase_extend), ('single', phase_single), ('ctor', phase_ctor), ('merge', phase_merge),
          ('values', phase_values), ('link', phase_link), ('attributes', phase_attributes), ('lives', phase_lives))


def run_bulk_refusals(tier='quick', seed=0, phases=None):
    col = h.Collector(
        BNAME,
        rule='every multi-step editing operation on a fresh scene (two documents + a detached tree; destination: a Section '
             '3 levels deep, a detached Section, the Document): (A) extend with every argument of length 1..3 (list%s) in '
             'which one refusable element (wrong type: Document / None / str / int / nested list / Property into a Document; '
             'name clash with a child, fresh or attached elsewhere; duplicate name of / same object as another element; '
             'the destination itself, its parent, its grandparent) sits at every position and the other positions hold '
             'every permutation of elements that change the destination on their own (fresh, attached elsewhere in the '
             'document, from another document, grandchild, child; Section and Property)%s; (B) append / insert at 4 '
             'indices / parent assignment / item assignment at 4 indices and a slice on both child lists with each such '
             'object; (C) Section(...) and Property(...) with parent= x {new, clashing, no name} x every subset of <= 2 '
             'refused arguments x 6 parents, create_section / create_property; (D) Section.merge whose source has 1..3 '
             'children, one in conflict at every position, strict on/off, source detached / in another document; (E) value '
             'lists of length 1..3 with the unconvertible item at every position x %d dtypes x 10 entry points; (F) link '
             'assignment of %d targets (unresolvable, not a path, unmergeable with own content, clashing only with content '
             'taken over from the former template - Section of another type / unconvertible Property values / two levels '
             'down -, itself, its parent, mergeable, None, empty) to a Section with each of %d earlier lives (no link, link '
             'resolved, include recorded, merged explicitly strict / non-strict / twice / then edited, merged then unmerged / '
             'cleaned, link resolved then cleaned / document cleaned / edited, link recorded while detached / then '
             'finalized, cleaned and finalized again, clone of a linking / of an explicitly merged Section, taken-over '
             'child moved to another parent, template edited / removed afterwards); (G) date / cardinality / id / name '
             'assignment; (H) on a Section with each of these lives: %d further operations (append / insert / parent '
             'assignment / extend at both positions / item assignment / constructors / create_* whose object clashes with a '
             'taken-over or an own child, fresh or attached elsewhere; renaming across taken-over and own children; '
             'values, dtype, cardinality, id, reorder of taken-over objects; wrong types; merge of a source clashing with '
             'taken-over or own content at both positions, strict on/off; unmerge of a non-Section / itself; clean of the '
             'Section and of the Document; merge() of the recorded link)%s; '
             'contract per evaluation: {Inv} op {Inv; every root unchanged on raise}; distinct = (operation, destination, '
             'pre-state feature, outcome)'
             % ((('', '; quick: length 3 over 4 core elements, not on the detached Section') if tier == 'quick' else
                 (' and tuple (tuple: length 3 over 4 core elements)', '; plus 4000 seeded random lists of length 3..6 with 1-2 refusable elements')) +
                (4 if tier == 'quick' else 7, len(LINK_TARGETS), len(LIVES), len(LIFE_OPS),
                 ' (quick: all of them on %d lives, %d core operations on the others)'
                 % (len(FULL_LIVES_QUICK), sum(1 for o in LIFE_OPS if o[3])) if tier == 'quick' else '')),
        exhaustive=True)
    bulk = _Bulk(col)
    per_phase = {}
    for name, fn in PHASES:
        if phases and name not in phases:
            continue
        before = col.evaluations
        fn(bulk, tier, seed)
        per_phase[name] = col.evaluations - before
    bulk.report()
    res = col.result()
    res['evaluations_per_phase'] = per_phase
    return res
