"""
Bounded run-time contract check for C03 / C04 / C06 (tree well-formedness, unique names,
valid names/ids, "a refused operation changes nothing") over editing histories.

Contract checked on every operation `op` of the list below (run-time twin of the deductive
contract  requires Inv(old)  ensures Inv(new)  on raise: heap == old(heap)):

    requires  Inv(pre-state)                      -- only states satisfying Inv are expanded
    ensures   Inv(post-state)                     -- on normal AND exceptional exit
    on raise  snap(root) == old(snap(root)) for every root, same set of roots, nothing new reachable

Inv (written from the statements of C03/C04, reads private fields only):
    harness.wellformed(root) == [] for every root reachable from the pool,
    harness.attached_ok(obj) == [] for every pool object,
    obj.document is the root of obj's parent chain when that root is a Document,
    get_path / document / itersections / iterproperties terminate.

Exploration: explicit-state breadth first search.  A state is the object graph reachable from a
pool of 1 Document, 3 Sections (names a, b, a) and 2 Properties (names a, b); two histories that
lead to the same canonical state (same shape, same pool identities, same names/ids-classes/
values) are merged, which is equivalent to enumerating all operation sequences because the
behaviour of every operation is a function of that state.  Every state is rebuilt from fresh
objects by replaying its (shortest) history before each operation is applied.
"""
from __future__ import annotations

import random
import signal

from rcc import harness as h

odml = h.odml
BaseSection, BaseProperty, BaseDocument = h.BaseSection, h.BaseProperty, h.BaseDocument

NAME = 'C03.histories'

POOL = ('D', 'S0', 'S1', 'S2', 'P0', 'P1')
SECS = ('S0', 'S1', 'S2')
PROPS = ('P0', 'P1')
CONTS = ('D', 'S0', 'S1', 'S2')
INIT_NAMES = {'S0': 'a', 'S1': 'b', 'S2': 'a', 'P0': 'a', 'P1': 'b'}

VALID_ID = '12345678-1234-4234-8234-123456789abc'
ID_KINDS = {
    'valid': VALID_ID,
    'upper': VALID_ID.upper(),
    'braced': '{' + VALID_ID + '}',
    'truncated': VALID_ID[:-4],
    'garbage': 'not-a-uuid',
}


class Timeout(Exception):
    pass


def _alarm(signum, frame):
    raise Timeout()


class guard(object):
    """Bounded steps for real code: SIGALRM based wall clock bound (no threads)."""

    def __init__(self, seconds=5.0):
        self.seconds = seconds
        self.ok = True

    def __enter__(self):
        try:
            self.old = signal.signal(signal.SIGALRM, _alarm)
            signal.setitimer(signal.ITIMER_REAL, self.seconds)
        except ValueError:          # not in main thread: run unguarded
            self.ok = False
        return self

    def __exit__(self, *exc):
        if self.ok:
            signal.setitimer(signal.ITIMER_REAL, 0)
            signal.signal(signal.SIGALRM, self.old)
        return False


# ---------------------------------------------------------------------------------------------
# environment (pool of fresh objects) and operations
# ---------------------------------------------------------------------------------------------

def fresh_env():
    with h.quiet():
        env = {'D': odml.Document()}
        for lab in SECS:
            env[lab] = odml.Section(name=INIT_NAMES[lab], type='t')
        for lab in PROPS:
            env[lab] = odml.Property(name=INIT_NAMES[lab])
    env['_extras'] = []
    return env


def all_ops():
    ops = []
    # constructors with parent=
    for name in 'ab':
        for par in CONTS:
            for card in ('ok', 'badcard'):
                ops.append(('ctor_sec', name, par, card))
        for par in SECS:
            for mode in ('ok', 'badcard', 'badvalue'):
                ops.append(('ctor_prop', name, par, mode))
    # constructors with an id argument (C04: a malformed id passed at creation is replaced by a fresh one)
    for kind in ('valid', 'upper', 'braced', 'truncated', 'garbage'):
        ops.append(('ctor_sec', 'b', 'D', 'oid-' + kind))
        ops.append(('ctor_prop', 'b', 'S0', 'oid-' + kind))
        ops.append(('ctor_doc', kind))
    ops.append(('ctor_sec', 'a', 'P0', 'ok'))          # wrong parent type
    ops.append(('ctor_prop', 'a', 'D', 'ok'))          # wrong parent type
    # create_section / create_property
    for name in 'ab':
        for par in CONTS:
            ops.append(('create_section', par, name))
        for par in SECS:
            ops.append(('create_property', par, name))
    # append
    for par in CONTS:
        for ch in SECS:
            ops.append(('append', par, ch))
    for par in SECS:
        for ch in PROPS:
            ops.append(('append', par, ch))
    ops.append(('append', 'D', 'P0'))                  # wrong type
    ops.append(('append', 'S0', 'D'))                  # wrong type
    # insert
    for pos in (0, 1, -1, 5):
        for par in CONTS:
            for ch in SECS:
                ops.append(('insert', par, pos, ch))
        for par in SECS:
            for ch in PROPS:
                ops.append(('insert', par, pos, ch))
    ops.append(('insert', 'D', 0, 'P0'))               # wrong type
    # extend: singletons and all ordered pairs (incl. the same object twice)
    for par in CONTS:
        items = SECS if par == 'D' else SECS + PROPS
        for x in items:
            ops.append(('extend', par, (x,)))
            for y in items:
                ops.append(('extend', par, (x, y)))
    ops.append(('extend', 'D', ('S1', 'P0')))          # wrong type after a valid item
    # remove
    for par in CONTS:
        for ch in SECS:
            ops.append(('remove', par, ch))
    for par in SECS:
        for ch in PROPS:
            ops.append(('remove', par, ch))
    # parent assignment
    for ch in SECS:
        for par in CONTS + (None,):
            ops.append(('set_parent', ch, par))
    for ch in PROPS:
        for par in SECS + (None,):
            ops.append(('set_parent', ch, par))
    ops.append(('set_parent', 'S0', 'P0'))             # wrong type
    ops.append(('set_parent', 'P0', 'D'))              # wrong type
    # item assignment on the child lists
    for par in CONTS:
        for i in (0, 1):
            for ch in SECS:
                ops.append(('setitem_sec', par, i, ch))
    for par in SECS:
        for i in (0, 1):
            for ch in PROPS:
                ops.append(('setitem_prop', par, i, ch))
    ops.append(('setitem_sec', 'D', 0, 'P0'))          # wrong type
    ops.append(('setitem_prop', 'S0', 0, 'S1'))        # wrong type
    # reorder
    for o in SECS + PROPS:
        for i in (-1, 0, 1, 2):
            ops.append(('reorder', o, i))
    # rename
    for o in SECS + PROPS:
        for new in ('a', 'b', None, '', 'own'):
            ops.append(('rename', o, new))
    # clone followed by attach
    for src in SECS:
        for par in CONTS:
            ops.append(('clone_attach', src, par))
    for src in PROPS:
        for par in SECS:
            ops.append(('clone_attach', src, par))
    # merge
    for a in SECS:
        for b in SECS:
            ops.append(('merge', a, b))
    for a in PROPS:
        for b in PROPS:
            ops.append(('merge', a, b))
    ops.append(('merge', 'S0', 'P0'))                  # wrong type
    # new_id
    for o in ('D', 'S0', 'P0'):
        for kind in ('valid', 'upper', 'braced', 'truncated', 'garbage'):
            ops.append(('new_id', o, kind))
    return ops


OPS = all_ops()


def apply_op(op, env):
    """Run one operation through the public API. Objects it creates are appended to env['_extras']."""
    kind = op[0]
    g = env.__getitem__
    ex = env['_extras']
    if kind == 'ctor_sec':
        _, name, par, card = op
        kw = {'sec_cardinality': (2, 1)} if card == 'badcard' else {}
        if card.startswith('oid-'):
            kw = {'oid': ID_KINDS[card[4:]]}
        ex.append(odml.Section(name=name, type='t', parent=g(par), **kw))
    elif kind == 'ctor_doc':
        ex.append(odml.Document(oid=ID_KINDS[op[1]]))
    elif kind == 'ctor_prop':
        _, name, par, mode = op
        kw = {}
        if mode == 'badcard':
            kw = {'val_cardinality': (2, 1)}
        elif mode == 'badvalue':
            kw = {'values': 'x', 'dtype': 'int'}
        elif mode.startswith('oid-'):
            kw = {'oid': ID_KINDS[mode[4:]]}
        ex.append(odml.Property(name=name, parent=g(par), **kw))
    elif kind == 'create_section':
        ex.append(g(op[1]).create_section(op[2], 't'))
    elif kind == 'create_property':
        ex.append(g(op[1]).create_property(op[2]))
    elif kind == 'append':
        g(op[1]).append(g(op[2]))
    elif kind == 'insert':
        g(op[1]).insert(op[2], g(op[3]))
    elif kind == 'extend':
        g(op[1]).extend([g(x) for x in op[2]])
    elif kind == 'remove':
        g(op[1]).remove(g(op[2]))
    elif kind == 'set_parent':
        g(op[1]).parent = None if op[2] is None else g(op[2])
    elif kind == 'setitem_sec':
        g(op[1]).sections[op[2]] = g(op[3])
    elif kind == 'setitem_prop':
        g(op[1]).properties[op[2]] = g(op[3])
    elif kind == 'reorder':
        g(op[1]).reorder(op[2])
    elif kind == 'rename':
        o = g(op[1])
        o.name = o.name if op[2] == 'own' else op[2]
    elif kind == 'clone_attach':
        c = g(op[1]).clone()
        ex.append(c)
        g(op[2]).append(c)
    elif kind == 'merge':
        g(op[1]).merge(g(op[2]))
    elif kind == 'new_id':
        g(op[1]).new_id(ID_KINDS[op[2]])
    else:
        raise AssertionError(op)


def run_op(op, env):
    with h.quiet():
        try:
            apply_op(op, env)
            return 'ret', None
        except Timeout:
            raise
        except Exception as exc:       # noqa
            return 'exc', exc


def replay(history):
    """Fresh pool + replay of a history; returns env (no checks)."""
    env = fresh_env()
    for op in history:
        run_op(op, env)
    return env


# ---------------------------------------------------------------------------------------------
# independent view of the state (private fields only)
# ---------------------------------------------------------------------------------------------

def pool_objs(env):
    return [env[lab] for lab in POOL]


def _kids(node, kind):
    if kind == 's':
        return list(list.__iter__(node._sections))
    return list(list.__iter__(getattr(node, '_props', [])))


def _descendants(node, limit=200):
    """ids of all sections/properties below node (bounded)."""
    out = set()
    stack = [node]
    steps = 0
    while stack and steps < limit:
        steps += 1
        n = stack.pop()
        for c in _kids(n, 's'):
            if id(c) not in out:
                out.add(id(c))
                stack.append(c)
        for p in _kids(n, 'p'):
            out.add(id(p))
    return out


def _ancestors(node, limit=50):
    out = []
    n = getattr(node, '_parent', None)
    while n is not None and len(out) < limit:
        out.append(n)
        n = getattr(n, '_parent', None)
    return out


def canon(env):
    """Canonical, hashable description of the whole state (identities -> pool labels)."""
    labels = {id(env[lab]): lab for lab in POOL}

    def name_cls(o):
        if o._name == o._id:
            return '<id>'
        return o._name

    def lab(o):
        if o is None:
            return None
        return labels.get(id(o), 'X')

    def prop(p):
        return ('P', lab(p), name_cls(p), lab(p._parent), h._val(p._values), p._dtype, p._definition,
                p._reference, p._unit, p._uncertainty, p._value_origin)

    def sec(s, depth):
        if depth > 12:
            return ('deep',)
        return ('S', lab(s), name_cls(s), lab(s._parent), s._definition, s._reference,
                lab(getattr(s, '_merged', None)),
                tuple(prop(p) if isinstance(p, BaseProperty) else ('?',) for p in _kids(s, 'p')),
                tuple(sec(c, depth + 1) if isinstance(c, BaseSection) else ('?',) for c in _kids(s, 's')))

    out = []
    for r in h.roots_of(pool_objs(env)):
        if isinstance(r, BaseDocument):
            out.append(('D', lab(r), tuple(sec(c, 0) if isinstance(c, BaseSection) else ('?',)
                                           for c in _kids(r, 's'))))
        elif isinstance(r, BaseSection):
            out.append(sec(r, 0))
        else:
            out.append(prop(r))
    return tuple(out)


# clause categories, most specific first
CATEGORIES = (
    ('is its own ancestor', 'section-is-own-ancestor'),
    ('cycle?', 'section-is-own-ancestor'),
    ('parent-chain-cycle', 'section-is-own-ancestor'),
    ('listed twice', 'parent-child-links-consistent'),
    ('but parent is', 'parent-child-links-consistent'),
    ('but is listed there', 'parent-child-links-consistent'),
    ('duplicate section names', 'sibling-section-names-unique'),
    ('duplicate property names', 'sibling-property-names-unique'),
    ('non-section', 'child-list-content-type'),
    ('non-property', 'child-list-content-type'),
    ('empty name', 'name-not-empty'),
    ('id ', 'id-canonical-uuid'),
    ('document id', 'id-canonical-uuid'),
    ('document is', 'document-is-root-of-parent-chain'),
    ('did not terminate', 'queries-terminate'),
    ('query raised', 'queries-terminate'),
)


STRUCTURAL = ('section-is-own-ancestor', 'parent-child-links-consistent', 'child-list-content-type')

# which pre-state features can matter for which clause (others are incidental and dropped from the class)
_RAISE_CAUSES = ('wrong-object-type', 'invalid-cardinality-argument', 'unconvertible-value-argument',
                 'name-clash-at-destination', 'name-clash-among-siblings', 'duplicate-name-inside-argument',
                 'same-object-twice-inside-argument', 'index-out-of-range', 'replaces-itself', 'not-a-child',
                 'object-detached', 'id-truncated', 'id-garbage', 'id-upper', 'id-braced', 'id-valid')
_CYCLE_CAUSES = ('destination-is-self', 'destination-in-own-subtree', 'destination-inside-source',
                 'destination-is-source', 'self-merge', 'source-inside-destination')
_LINK_CAUSES = ('child-attached-elsewhere', 'child-already-in-destination', 'same-object-twice-inside-argument',
                'replaces-itself', 'name-clash-at-destination', 'negative-index', 'index-beyond-end',
                'index-out-of-range') + _CYCLE_CAUSES
_NAME_CAUSES = ('name-clash-at-destination', 'name-clash-among-siblings', 'duplicate-name-inside-argument',
                'same-object-twice-inside-argument', 'empty-new-name')
RELEVANT = {
    'unchanged-on-raise': _RAISE_CAUSES,
    'section-is-own-ancestor': _CYCLE_CAUSES,
    'parent-child-links-consistent': _LINK_CAUSES,
    'sibling-section-names-unique': _NAME_CAUSES,
    'sibling-property-names-unique': _NAME_CAUSES,
}


def relevant_feature(clause, feat):
    """Keep the features that can matter for the violated clause; all of them if none is known to."""
    parts = feat.split('+')
    keep = [p for p in parts if p in RELEVANT.get(clause, ())]
    return '+'.join(keep) if keep else feat


def categorize(problem):
    for key, cat in CATEGORIES:
        if key in problem:
            return cat
    return 'other'


def primary_clause(problems):
    cats = [categorize(p) for p in problems]
    for _, cat in CATEGORIES:
        if cat in cats:
            return cat
    return cats[0]


def invariant(env):
    """Inv(state): list of problems ([] == holds)."""
    pool = pool_objs(env)
    problems = []
    # parent chains must be finite
    for o in pool:
        seen = set()
        n = o
        while getattr(n, '_parent', None) is not None:
            if id(n) in seen:
                problems.append('parent-chain-cycle through %r' % o)
                break
            seen.add(id(n))
            n = n._parent
    roots = h.roots_of(pool)
    for r in roots:
        if isinstance(r, BaseProperty):
            problems += h._name_id_problems(r)
        else:
            problems += h.wellformed(r, max_nodes=500)
    for o in pool:
        if not isinstance(o, BaseDocument):
            problems += h.attached_ok(o)
    if problems:
        return problems
    # the structure is a forest: now the real queries must terminate and document must be the root
    try:
        with guard(5.0):
            with h.quiet():
                for o in pool:
                    root = o
                    while getattr(root, '_parent', None) is not None:
                        root = root._parent
                    if isinstance(root, BaseDocument):
                        d = o.document
                        if d is not root:
                            problems.append('document is %r for %r, root of its parent chain is %r'
                                            % (d, o, root))
                    o.get_path() if hasattr(o, 'get_path') else None
                    if not isinstance(o, BaseProperty):
                        n = 0
                        for _ in o.itersections():
                            n += 1
                            if n > 500:
                                problems.append('itersections did not terminate within 500 steps on %r' % o)
                                break
                        n = 0
                        for _ in o.iterproperties():
                            n += 1
                            if n > 500:
                                problems.append('iterproperties did not terminate within 500 steps on %r' % o)
                                break
    except Timeout:
        problems.append('path/document/traversal query did not terminate within 5 s')
    except Exception as exc:    # noqa
        problems.append('query raised %s: %s' % (type(exc).__name__, exc))
    return problems


def _typed(v):
    """Value with its type, so that 1, 1.0 and True (or a DType member and its name) differ."""
    if isinstance(v, (list, tuple)):
        return (type(v).__name__,) + tuple(_typed(x) for x in v)
    return (type(v).__name__, v if isinstance(v, (int, float, str, type(None))) else repr(v))


def signature(root):
    """Same information as harness.snap(root, ids=True, parent=True) - every field of
    harness.PROP_FIELDS / SEC_FIELDS / DOC_FIELDS, the values, parent / merged / child identities in list
    order - as one flat list (one entry per reachable object), several times cheaper to build.
    Only used on Inv-states (finite trees) and on post-states that passed the structural checks."""
    out = []
    stack = [root]
    steps = 0
    while stack:
        steps += 1
        if steps > 2000:
            out.append('unbounded')
            break
        n = stack.pop()
        if isinstance(n, BaseProperty):
            out.append((id(n), id(n._parent) if n._parent is not None else None,
                        tuple(_typed(getattr(n, f, '<unset>')) for f in h.PROP_FIELDS), _typed(n._values)))
        elif isinstance(n, BaseSection):
            secs, props = _kids(n, 's'), _kids(n, 'p')
            out.append((id(n), id(n._parent) if n._parent is not None else None,
                        id(n._merged) if getattr(n, '_merged', None) is not None else None,
                        tuple(_typed(getattr(n, f, '<unset>')) for f in h.SEC_FIELDS),
                        tuple(id(c) for c in secs), tuple(id(c) for c in props)))
            stack.extend(props)
            stack.extend(secs)
        elif isinstance(n, BaseDocument):
            secs = _kids(n, 's')
            out.append((id(n), tuple(_typed(getattr(n, f, '<unset>')) for f in h.DOC_FIELDS),
                        tuple(id(c) for c in secs)))
            stack.extend(secs)
        else:
            out.append((id(n), 'foreign', repr(n)))
    return out


def pre_snapshot(env):
    roots = h.roots_of(pool_objs(env))
    return [(r, signature(r)) for r in roots]


def changed_on_raise(pre, env):
    """C06: compare all roots with the snapshots taken before the call. None == unchanged."""
    roots = h.roots_of(pool_objs(env))
    if len(roots) != len(pre) or any(a is not b[0] for a, b in zip(roots, pre)):
        return 'the set of roots changed: %d roots before, %d after (an object was detached, attached ' \
               'or a new parent became reachable)' % (len(pre), len(roots))
    for r, before in pre:
        after = signature(r)
        if after != before:
            if len(after) != len(before):
                return 'root %r: %d objects reachable before, %d after' % (r, len(before), len(after))
            for x, y in zip(before, after):
                if x != y:
                    return 'root %r: an object below it changed from %r to %r' % (r, x[1:], y[1:])
    return None


# ---------------------------------------------------------------------------------------------
# pre-state features (why is this input special) - computed from private fields before the call
# ---------------------------------------------------------------------------------------------

def _attach_features(env, dest, child, replace_index=None):
    """Features of attaching `child` to container `dest` (both real objects)."""
    f = set()
    is_sec = isinstance(child, BaseSection)
    is_prop = isinstance(child, BaseProperty)
    if not (is_sec or is_prop) or not isinstance(dest, (BaseDocument, BaseSection)) or \
            (is_prop and not isinstance(dest, BaseSection)):
        return {'wrong-object-type'}
    if child is dest:
        f.add('destination-is-self')
    elif is_sec and id(dest) in _descendants(child):
        f.add('destination-in-own-subtree')
    par = child._parent
    if par is dest:
        f.add('child-already-in-destination')
    elif par is not None:
        f.add('child-attached-elsewhere')
    sibs = _kids(dest, 's' if is_sec else 'p')
    for i, s in enumerate(sibs):
        if s is child:
            continue
        if replace_index is not None and i == replace_index:
            continue
        if s._name == child._name:
            f.add('name-clash-at-destination')
    return f


def features(op, env):
    kind = op[0]
    g = env.__getitem__
    f = set()
    if kind in ('ctor_sec', 'ctor_prop'):
        _, name, par, mode = op
        dest = g(par)
        if (kind == 'ctor_sec' and not isinstance(dest, (BaseDocument, BaseSection))) or \
                (kind == 'ctor_prop' and not isinstance(dest, BaseSection)):
            f.add('wrong-object-type')
        else:
            sibs = _kids(dest, 's' if kind == 'ctor_sec' else 'p')
            if any(s._name == name for s in sibs):
                f.add('name-clash-at-destination')
        if mode.startswith('oid-'):
            f.add('id-' + mode[4:])
        if mode == 'badcard':
            f.add('invalid-cardinality-argument')
        if mode == 'badvalue':
            f.add('unconvertible-value-argument')
    elif kind in ('create_section', 'create_property'):
        dest = g(op[1])
        sibs = _kids(dest, 's' if kind == 'create_section' else 'p')
        if any(s._name == op[2] for s in sibs):
            f.add('name-clash-at-destination')
    elif kind == 'append':
        f |= _attach_features(env, g(op[1]), g(op[2]))
    elif kind == 'insert':
        f |= _attach_features(env, g(op[1]), g(op[3]))
        if 'wrong-object-type' not in f:
            n = len(_kids(g(op[1]), 's' if isinstance(g(op[3]), BaseSection) else 'p'))
            if f:
                pass                # the index is incidental when the attachment itself is special
            elif op[2] < 0:
                f.add('negative-index')
            elif op[2] > n:
                f.add('index-beyond-end')
    elif kind == 'extend':
        dest = g(op[1])
        items = [g(x) for x in op[2]]
        for it in items:
            f |= _attach_features(env, dest, it)
        for i in range(len(items)):
            for j in range(i + 1, len(items)):
                a, b = items[i], items[j]
                if a is b:
                    f.add('same-object-twice-inside-argument')
                elif type(a) is type(b) and a._name == b._name:
                    f.add('duplicate-name-inside-argument')
    elif kind == 'remove':
        dest, ch = g(op[1]), g(op[2])
        if ch._parent is not dest:
            f.add('not-a-child')
    elif kind == 'set_parent':
        ch = g(op[1])
        if op[2] is None:
            f.add('to-none')
            if ch._parent is None:
                f.add('child-detached')
        else:
            f |= _attach_features(env, g(op[2]), ch)
    elif kind in ('setitem_sec', 'setitem_prop'):
        dest, val = g(op[1]), g(op[3])
        lst = _kids(dest, 's' if kind == 'setitem_sec' else 'p')
        i = op[2]
        if i >= len(lst):
            f.add('index-out-of-range')
        if (kind == 'setitem_sec') != isinstance(val, BaseSection):
            f.add('wrong-object-type')
        else:
            if i < len(lst) and lst[i] is val:
                f.add('replaces-itself')
            f |= _attach_features(env, dest, val, replace_index=i if i < len(lst) else None)
    elif kind == 'reorder':
        o = g(op[1])
        if o._parent is None:
            f.add('object-detached')
        else:
            n = len(_kids(o._parent, 's' if isinstance(o, BaseSection) else 'p'))
            if op[2] < 0:
                f.add('negative-index')
            elif op[2] >= n:
                f.add('index-beyond-end')
    elif kind == 'rename':
        o = g(op[1])
        new = o._name if op[2] == 'own' else op[2]
        if not new:
            f.add('empty-new-name')
        elif new == o._name:
            f.add('own-name')
        elif o._parent is not None:
            sibs = _kids(o._parent, 's' if isinstance(o, BaseSection) else 'p')
            if any(s is not o and s._name == new for s in sibs):
                f.add('name-clash-among-siblings')
    elif kind == 'clone_attach':
        src, dest = g(op[1]), g(op[2])
        sibs = _kids(dest, 's' if isinstance(src, BaseSection) else 'p')
        if any(s._name == src._name for s in sibs):
            f.add('name-clash-at-destination')
        if dest is src:
            f.add('destination-is-source')
        elif isinstance(src, BaseSection) and id(dest) in _descendants(src):
            f.add('destination-inside-source')
    elif kind == 'merge':
        a, b = g(op[1]), g(op[2])
        if type(a) is not type(b):
            f.add('wrong-object-type')
        elif a is b:
            f.add('self-merge')
        elif isinstance(a, BaseSection):
            if id(b) in _descendants(a):
                f.add('source-inside-destination')
            if id(a) in _descendants(b):
                f.add('destination-inside-source')
    elif kind == 'new_id':
        f.add('id-' + op[2])
    elif kind == 'ctor_doc':
        f.add('id-' + op[1])
    return '+'.join(sorted(f)) if f else 'plain'


# ---------------------------------------------------------------------------------------------
# one contract evaluation:  {Inv} op {Inv}, on raise unchanged
# ---------------------------------------------------------------------------------------------

def evaluate(history, op):
    """Rebuild the pre-state from fresh objects, apply op, check the contract.
    Returns (violations, post_state_key | None, outcome) ; violations = [(clause, detail)]."""
    env = replay(history)
    feat = features(op, env)
    pre = pre_snapshot(env)
    n_extras = len(env['_extras'])
    try:
        with guard(10.0):
            outcome, exc = run_op(op, env)
    except Timeout:
        return [('operation-terminates', 'operation did not return within 10 s')], None, 'timeout', feat
    violations = []
    problems = invariant(env)
    for o in env['_extras'][n_extras:]:         # objects created by this very operation, attached or not
        if isinstance(o, BaseDocument):
            problems += [p for p in h.wellformed(o, max_nodes=50) if 'document id' in p]
        elif isinstance(o, (BaseSection, BaseProperty)):
            problems += h._name_id_problems(o)
    if problems:
        violations.append((primary_clause(problems),
                           'after %s (%s): %s' % (outcome, type(exc).__name__ if exc else 'ok',
                                                  '; '.join(problems[:3]))))
    if outcome == 'exc':
        if problems and any(categorize(p) in STRUCTURAL for p in problems):
            # the pre-state satisfied Inv, the post-state is not even a forest: it changed
            ch = 'the state is no longer well-formed (%s)' % problems[0]
        else:
            ch = changed_on_raise(pre, env)
        if ch:
            violations.append(('unchanged-on-raise',
                               'raised %s: %s but %s' % (type(exc).__name__, str(exc)[:80], ch)))
    key = None
    if not problems:
        key = canon(env)
    return violations, key, outcome, feat


CONFIGS = {
    'K0-all-detached': (),
    'K1-chain': (('append', 'D', 'S0'), ('append', 'S0', 'S1'), ('append', 'S1', 'S2'),
                 ('append', 'S0', 'P0'), ('append', 'S0', 'P1')),
    'K2-two-branches': (('append', 'D', 'S0'), ('append', 'D', 'S1'), ('append', 'S1', 'S2'),
                        ('append', 'S0', 'P0'), ('append', 'S1', 'P1')),
    'K3-no-document': (('append', 'S0', 'S1'), ('append', 'S0', 'P0'), ('append', 'S2', 'P1')),
    # three sibling sections (the third one named by its id) so that positions 0..2 all exist
    'K4-three-siblings': (('rename', 'S2', None), ('extend', 'D', ('S0', 'S1', 'S2')),
                          ('extend', 'S1', ('P0', 'P1'))),
}


def reproduces(history, op, clause, kind):
    """Does op at the end of history (from fresh objects) violate `clause`, with a valid pre-state?"""
    env = replay(history)
    if invariant(env):
        return False
    violations, _, _, _ = evaluate(history, op)
    return any(c == clause for c, _ in violations)


def minimize(history, op, clause):
    """Greedy 1-minimal prefix: drop operations while the same clause still fails at `op`."""
    hist = list(history)
    changed = True
    while changed:
        changed = False
        for i in range(len(hist)):
            cand = hist[:i] + hist[i + 1:]
            if reproduces(cand, op, clause, op[0]):
                hist = cand
                changed = True
                break
    return hist


def op_json(op):
    return [list(x) if isinstance(x, tuple) else x for x in op]


PLANS = {
    # (start configuration, number of operations explored exhaustively from it)
    'quick': (('K0-all-detached', 2), ('K2-two-branches', 2), ('K1-chain', 1), ('K3-no-document', 1),
              ('K4-three-siblings', 1)),
    'thorough': (('K0-all-detached', 3), ('K2-two-branches', 2), ('K1-chain', 2), ('K3-no-document', 2),
                 ('K4-three-siblings', 2)),
}


def run_histories(tier='quick', seed=0, plan=None, walks=None, max_evaluations=None):
    quick = tier == 'quick'
    if plan is None:
        plan = PLANS['quick' if quick else 'thorough']
    if walks is None:
        walks = 0 if quick else 2500
    if max_evaluations is None:
        max_evaluations = 75000 if quick else 720000
    col = h.Collector(
        NAME,
        rule='explicit-state search: every one of the %d concrete operations of the C03 list (pool: 1 Document, '
             '3 Sections named a,b,a, 2 Properties named a,b) is applied to every distinct Inv-state reachable '
             'by fewer than n operations from a start configuration, for (configuration, n) in %s - equivalent '
             'to all operation sequences of length <= n from that configuration, histories reaching the same '
             'canonical state being merged; each start configuration is itself a history from fresh detached '
             'objects; one evaluation = one contract check {Inv} op {Inv; unchanged on raise} on a pre-state '
             'rebuilt from fresh objects; distinct = (operation kind, pre-state feature, outcome)%s'
             % (len(OPS), list(plan),
                '; plus %d seeded random walks of up to 8 Inv-preserving operations from all-detached' % walks
                if walks else ''),
        exhaustive=True)
    raw = {}          # (clause, kind, feature) -> [count, history, op, detail]

    def record(violations, hist, op, feat):
        for clause, detail in violations:
            k = (clause, op[0], relevant_feature(clause, feat))
            if k not in raw:
                raw[k] = [0, tuple(hist), op, detail]
            raw[k][0] += 1
            if len(hist) < len(raw[k][1]):
                raw[k][1:] = [tuple(hist), op, detail]

    seen = {}                                   # canonical state -> largest remaining depth it was expanded with
    max_depth = max(d for _, d in plan)
    buckets = {d: [] for d in range(max_depth + 1)}
    for cname, d in plan:
        hist = CONFIGS[cname]
        env = replay(hist)
        assert not invariant(env), cname
        key = canon(env)
        if seen.get(key, 0) < d:
            seen[key] = d
            buckets[d].append(hist)
    states_expanded = 0
    truncated = False
    sampled = None
    for remaining in range(max_depth, 0, -1):
        todo = buckets[remaining]
        room = max(0, max_evaluations - col.evaluations) // len(OPS)
        if remaining == 1 and len(todo) > room:
            # budget: a seeded sample of the states of the last level instead of a prefix of them
            rnd = random.Random(seed)
            keep = set(rnd.sample(range(len(todo)), room))
            sampled = (room, len(todo))
            todo = [x for i, x in enumerate(todo) if i in keep]
            truncated = True
        for hist in todo:
            if col.evaluations >= max_evaluations:
                truncated = True
                break
            states_expanded += 1
            for op in OPS:
                violations, key, outcome, feat = evaluate(hist, op)
                col.case(cls_key=(op[0], feat, outcome),
                         sample='%s ; %s' % (list(hist), op) if len(hist) > 5 else None)
                if violations:
                    record(violations, hist + (op,), op, feat)
                if key is not None and remaining > 1 and seen.get(key, 0) < remaining - 1:
                    seen[key] = remaining - 1
                    buckets[remaining - 1].append(hist + (op,))
    if truncated:
        col.exhaustive = False

    if walks:
        rnd = random.Random(seed)
        for _ in range(walks):
            hist = ()
            for _attempt in range(16):
                if len(hist) >= 8:
                    break
                op = rnd.choice(OPS)
                violations, key, outcome, feat = evaluate(hist, op)
                col.case(cls_key=(op[0], feat, outcome))
                if violations:
                    record(violations, hist + (op,), op, feat)
                if key is not None:
                    hist = hist + (op,)     # only Inv-preserving steps extend the history (requires Inv)

    # shortest witness from fresh objects, final classification on the minimised pre-state
    final = {}
    for (clause, kind, feat), (count, hist, op, detail) in sorted(raw.items(), key=repr):
        prefix = minimize(list(hist[:-1]), op, clause)
        env = replay(prefix)
        feat2 = relevant_feature(clause, features(op, env))
        vio = [d for c, d in evaluate(tuple(prefix), op)[0] if c == clause]
        k = (clause, kind, feat2)
        entry = final.setdefault(k, {'count': 0, 'witness': None, 'detail': None, 'raw': []})
        entry['count'] += count
        entry['raw'].append(feat)
        if entry['witness'] is None or len(prefix) + 1 < len(entry['witness']):
            entry['witness'] = [op_json(o) for o in prefix] + [op_json(op)]
            entry['detail'] = vio[0] if vio else detail
    for (clause, kind, feat), e in sorted(final.items(), key=repr):
        prop = 'C06' if clause == 'unchanged-on-raise' else \
            ('C04' if clause in ('sibling-section-names-unique', 'sibling-property-names-unique',
                                 'name-not-empty', 'id-canonical-uuid') else 'C03')
        col.fail(check='%s/%s' % (NAME, clause),
                 cls={'clause': clause, 'op': kind, 'feature': feat, 'property': prop},
                 witness={'pool': 'D=Document(); S0,S1,S2=Section(a),Section(b),Section(a); '
                                  'P0,P1=Property(a),Property(b); all detached',
                          'ops': e['witness']},
                 detail='%s  [%d failing (state, operation) pairs; pre-state features seen: %s]'
                        % (e['detail'], e['count'], ', '.join(sorted(set(e['raw'])))[:300]))
    res = col.result()
    res['states'] = len(seen)
    res['states_expanded'] = states_expanded
    if sampled:
        res['last_level_sampled'] = '%d of %d states of the last level expanded (seeded sample, evaluation budget)' % sampled
    res['operations'] = len(OPS)
    return res
