"""
C19 - "Validation observes only: no side effects, repeatable, custom rules stay private"
bounded run-time contract check on the real code.

run_observes(tier, seed)
    frame:      harness.snap (private fields, ids, object identities, parent pointers, child order) of the
                whole object graph around the validated object is equal before and after Validation(obj),
                Document.validate(), Validation.report(), Validation.run_validation() and validation[obj]
                (also when the validation raises);
    repeatable: the multiset {(id(err.obj), validation_id, rank, msg)} of a validation equals that of a second
                Validation(obj), of run_validation() on the same instance and of the run made by report();
    other process: a document that can be saved is written once (XML; thorough also JSON, YAML), loaded here
                and loaded by two fresh /venv/bin/python processes (different hash seeds); the three multisets
                {(path, validation_id, rank, msg)} of Validation(loaded document) are equal.

run_custom_private(tier, seed)
    histories (every sequence up to a bound over an alphabet of operations, then seeded random longer ones) of
    default validations, custom validations with added rules (Validation(obj, validate=False, reset=True)
    .register_custom_handler), object creation, cardinality changes, saving and loading in all four formats.
    After every operation: the class-level registry Validation._handlers (same dict object, key -> set of
    handler functions, compared by qualified name and by function identity) is what it was at import;
    custom operations: the instance reports exactly one marker issue per object of the registered class and
    nothing else; a second custom instance created meanwhile reports only its own rule; a fresh reset=True
    instance reports nothing; default validations never contain a marker issue.
    The alphabet also contains 'custom-library-rules': every rule function the library itself exports
    (discovered by introspection, see run_stateless) registered as the added rule of a reset=True instance for
    every class of object; the run is repeated on the same instance and on a fresh one and must report the same
    collection, also when the operation comes back later in the history and the document is still unchanged.

run_stateless(tier, seed)
    "validating the same unchanged objects again reports the same collection" for EVERY public callable of
    odml.validation that accepts an odML object (found by introspection: defined in the module, public name,
    callable with one positional argument, returns a collection of issues or a Validation for at least one of a
    Document / Section / Property), used in every way the public API offers:
    direct:   called twice on every object of the validated scope (second pass after all first calls);
    handler:  registered as the added rule of a Validation(reset=True) for 'odML', 'section', 'property' and for all
              classes it returned for together: run, run again on the same instance, run on a fresh instance;
    later:    the direct calls and a fresh-instance run are repeated after the objects of two OTHER documents went
              through the same rules;
    other process: the saved document is loaded here and in a fresh interpreter (another hash seed) and every
              (rule, class) run is compared by object path;
    frame:    the object graph (harness.snap) and the default registry are the same after all of that.
    Which of "direct first" and "handler first" is used alternates per document, so that the very first contact of
    a rule with an object happens through both entry points.
"""
from __future__ import annotations

import collections
import hashlib
import inspect
import itertools
import json
import os
import random
import shutil
import subprocess
import sys

from rcc import harness as h
from rcc import b_C08 as g          # document generators of the C08 module (invalid-on-purpose documents)

odml = h.odml
from odml import validation as V            # noqa: E402
from odml.validation import Validation      # noqa: E402

PYTHON = '/venv/bin/python'
VERIF = os.path.dirname(os.path.dirname(os.path.abspath(__file__)))


def scratch(tag):
    d = os.path.join(h.WORK, 'c0819', 'run_%s_%d' % (tag, os.getpid()))
    os.makedirs(d, exist_ok=True)
    return d


def kind_of(e):
    return getattr(e.validation_id, 'name', repr(e.validation_id))


def ms_identity(errors):
    return collections.Counter((id(e.obj), kind_of(e), e.rank, e.msg) for e in errors)


def opath(o):
    if g.is_doc(o):
        return '/'
    suffix, n = '', o
    if g.is_prop(o):
        suffix, n = ':' + str(o._name), o._parent
    parts = []
    guard = 0
    while n is not None and not g.is_doc(n) and guard < 1000:
        parts.insert(0, str(n._name))
        n = n._parent
        guard += 1
    return '/' + '/'.join(parts) + suffix


def ms_path(errors):
    return sorted([opath(e.obj), kind_of(e), str(e.rank), str(e.msg)] for e in errors)


def digest(doc):
    """Identity-free fingerprint of a loaded document (ids included): are two loads the same objects?"""
    return hashlib.sha1(repr(h.snap(doc, ids=True, parent=False)).encode('utf-8', 'replace')).hexdigest()


def ms_diff(a, b):
    a, b = collections.Counter(a), collections.Counter(b)
    only_a = list((a - b).elements())[:3]
    only_b = list((b - a).elements())[:3]
    return 'only in first: %r; only in second: %r' % (only_a, only_b)


# ---------------------------------------------------------------------------------------------
# the other process
# ---------------------------------------------------------------------------------------------

def _child_main():
    """stdin: [[file, backend], ...]  stdout: {file: multiset | ['EXC', type, text]}"""
    real = sys.stdout
    sys.stdout = sys.stderr
    out = {}
    for path, backend in json.load(sys.stdin):
        with h.quiet():
            try:
                doc = odml.load(path, backend)
                out[path] = [digest(doc), ms_path(Validation(doc).errors)]
            except Exception as exc:    # noqa
                out[path] = ['EXC', type(exc).__name__, str(exc)[:200]]
    real.write(json.dumps(out))


def other_process(files, hashseed, entry='_child_main'):
    env = dict(os.environ)
    env['ODML_REPO'] = h.REPO
    env['PYTHONHASHSEED'] = str(hashseed)
    res = subprocess.run([PYTHON, '-c', 'from rcc import b_C19; b_C19.%s()' % entry], cwd=VERIF, env=env,
                         input=json.dumps(files).encode(), stdout=subprocess.PIPE, stderr=subprocess.PIPE,
                         timeout=900)
    if res.returncode != 0:
        raise RuntimeError('child failed: %s' % res.stderr.decode()[-1500:])
    return json.loads(res.stdout.decode())


# ---------------------------------------------------------------------------------------------
# run_observes
# ---------------------------------------------------------------------------------------------

def doc_stream(tier, seed):
    n4 = 4 if tier == 'quick' else 5
    for doc in h.gen_docs(tier, seed, max_secs=n4, per_shape=3 if tier == 'quick' else 8):
        secs, props = h.walk(doc)
        yield 'gen_docs', (len(secs), len(props)), doc
    for params, doc in g.gen_dependency(tier):
        yield 'dependency', params, doc
    for params, doc in g.gen_ids(tier):
        yield 'ids', params, doc
    for params, doc in g.gen_required(tier):
        yield 'required', params, doc
    for k, (params, doc) in enumerate(g.gen_cardinality(tier)):
        if tier != 'quick' or k % 3 == 0:
            yield 'cardinality', params, doc
    for params, doc in g.gen_dup_names(tier):
        yield 'duplicate-names', params, doc
    for params, doc in g.gen_values(tier):
        yield 'values', params, doc
    for params, doc in g.gen_mixed(tier, seed):
        yield 'mixed', params, doc
    for params, doc in gen_string_lookalikes():
        yield 'string-lookalikes', params, doc


def gen_string_lookalikes():
    """string Properties whose values look like other dtypes, with ties and mixtures: the one default rule
    that aggregates over a *set* of guesses - its outcome must not depend on set iteration order
    (i.e. on the hash seed of the process)"""
    import odml
    pools = [['12', '12.5'], ['2011-12-01', '11:45:00'], ['1', '2', '2.5'], ['(1;2)', 'true'], ['12', '13'],
             ['1.5', '2.5', 'x'], ['12:00:00', '2011-12-01 11:45:00'], ['True', '7'], ['a\nb', '3'],
             ['3', '4.5', '2011-12-01', '11:45:00'], ['7', '7.5', '8', '8.5']]
    for k, vals in enumerate(pools):
        with h.quiet():
            doc = odml.Document()
            sec = odml.Section('s', 't', parent=doc)
            odml.Property('p%d' % k, values=list(vals), dtype='string', parent=sec)
            odml.Property('q%d' % k, values=list(reversed(vals)), dtype='string', parent=sec)
        yield ('lookalike', k), doc


def scope_objects(root):
    if g.is_prop(root):
        return [root]
    secs, props = h.walk(root)
    return ([root] if not g.is_doc(root) else [root]) + secs + props


def run_observes(tier, seed):
    name = 'C19.observes'
    col = g.ClassCapped(
        name,
        rule='one case = one validated root (Document via Document.validate(), every Section and Property in place '
             'via Validation(obj), parentless keep_id clones) of one generated document (harness.gen_docs over all '
             'forest shapes plus the invalid-on-purpose documents of the C08 module: dependency matrix, shared ids, '
             'missing attributes, cardinality matrix, duplicate names, forced values, random mixtures), put through '
             'validate / report / run_validation / [obj] / validate again with a snapshot comparison after each step; '
             'plus one case per (saved document, format) for the comparison with two other processes; distinct = '
             '(generator, parameters, root kind, attached?, issue kinds reported)',
        exhaustive=False)
    work = scratch('obs_%s_%s' % (tier, seed))
    files = []          # (path, backend, label, multiset-here, description, digest-here)
    not_comparable = 0
    try:
        ndoc = 0
        for cat, params, doc in doc_stream(tier, seed):
            ndoc += 1
            for root, how in g.targets_of(doc):
                _observe_one(col, name, cat, params, root, how)
            # the other process: only documents the library agrees to save (no errors)
            backends = ['xml'] if tier == 'quick' else ['xml', 'json', 'yaml']
            if tier == 'quick' and cat in ('cardinality', 'dependency') and ndoc % 4:
                continue
            for backend in backends:
                path = os.path.join(work, 'd%05d.%s' % (ndoc, backend))
                r = h.call(odml.save, doc, path, backend)
                if r[0] != 'ret' or not os.path.exists(path):
                    continue
                r = h.call(odml.load, path, backend)
                if r[0] != 'ret':
                    continue
                v = h.call(Validation, r[1])
                if v[0] != 'ret':
                    continue
                files.append((path, backend, '%s %r' % (cat, params), ms_path(v[1].errors), g.describe(doc),
                              digest(r[1])))
        if files:
            jobs = [[f[0], f[1]] for f in files]
            outs = [other_process(jobs, hs) for hs in (1, 2)]
            for path, backend, label, here, desc, dig in files:
                kinds = frozenset(x[1] for x in here)
                if any(isinstance(out.get(path), list) and len(out[path]) == 2 and out[path][0] != dig for out in outs):
                    # the loader did not produce the same objects there (it gives unparsable Properties fresh
                    # random ids): not "the same unchanged objects", nothing to compare
                    not_comparable += 1
                    continue
                col.case(cls_key=('other-process', backend, label.split(' ')[0], kinds),
                         sample='other process: %s (%s)' % (label, backend))
                for k, out in enumerate(outs):
                    there = out.get(path)
                    if there is None or (there and there[0] == 'EXC'):
                        col.fail(check=name + '/other-process-same-issues',
                                 cls={'clause': 'other-process-same-issues', 'feature': 'load-or-validation-raises-only-there'},
                                 witness={'case': label, 'format': backend, 'graph': desc},
                                 detail='process %d: %r, here the validation of the loaded file returned' % (k + 1, there))
                        continue
                    there = [list(x) for x in there[1]]
                    if there != here:
                        hk = collections.Counter(tuple(x) for x in here)
                        tk = collections.Counter(tuple(x) for x in there)
                        dk = sorted(set(x[1] for x in list((hk - tk).elements()) + list((tk - hk).elements())))
                        col.fail(check=name + '/other-process-same-issues',
                                 cls={'clause': 'other-process-same-issues', 'feature': 'kinds ' + '+'.join(dk)},
                                 witness={'case': label, 'format': backend, 'graph': desc},
                                 detail='multiset of (path, kind, rank, msg) differs between this process and process %d '
                                        '(hash seed %d): %s' % (k + 1, k + 1, ms_diff([tuple(x) for x in here],
                                                                                      [tuple(x) for x in there])))
    finally:
        shutil.rmtree(work, ignore_errors=True)
    res = col.result()
    res['other_process_files'] = len(files)
    res['other_process_not_comparable'] = not_comparable
    return res


def _observe_one(col, name, cat, params, root, how):
    container = h.roots_of([root])[0]
    label = '%s %r' % (cat, params)
    wit = {'case': label, 'validated': g.obj_label(root), 'via': how, 'graph': g.describe(container)}
    rk = 'doc' if g.is_doc(root) else ('sec' if g.is_sec(root) else 'prop')
    attached = getattr(root, '_parent', None) is not None

    state = [h.snap(container)]

    def frame(step, _unused=None):
        after = h.snap(container)
        if after != state[0]:
            col.fail(check=name + '/frame',
                     cls={'clause': 'frame', 'feature': 'changed by ' + step},
                     witness=wit, detail='%s changed the object graph: %s' % (step, h.diff(state[0], after)))
            state[0] = after            # blame every change on the step that made it
            return False
        return True

    before = None
    res = h.call(root.validate) if how == 'Document.validate' else h.call(Validation, root)
    frame(how + ('(raising)' if res[0] == 'exc' else ''), before)
    if res[0] == 'exc':
        # termination is C08's clause; here: nothing changed, and the second attempt behaves the same
        res2 = h.call(Validation, root)
        col.case(cls_key=(cat, params, rk, attached, 'raises'), sample=None)
        if res2[0] != 'exc' or type(res2[1]) is not type(res[1]) or str(res2[1]) != str(res[1]):
            col.fail(check=name + '/repeatable', cls={'clause': 'repeatable', 'feature': 'raises-once-returns-once'},
                     witness=wit, detail='first run raised %r, second %r' % (res[1], res2[1]))
        frame('second ' + how + '(raising)', before)
        return
    val = res[1]
    m1 = ms_identity(val.errors)
    kinds = frozenset(k for (_, k, _, _) in m1)
    col.case(cls_key=(cat, params, rk, attached, kinds), sample='%s -> %s %s' % (label, how, g.obj_label(root)))

    def same(step, m):
        if m != m1:
            dk = sorted(set(x[1] for x in list((m - m1).elements()) + list((m1 - m).elements())))
            col.fail(check=name + '/repeatable',
                     cls={'clause': 'repeatable', 'feature': '%s: kinds %s' % (step, '+'.join(dk))},
                     witness=wit,
                     detail='%s reports a different collection: %s' % (step, ms_diff(
                         [x[1:] for x in m1.elements()], [x[1:] for x in m.elements()])))

    r = h.call(val.report)
    frame('report()', before)
    if r[0] == 'ret':
        same('report()', ms_identity(val.errors))
    else:
        col.fail(check=name + '/repeatable', cls={'clause': 'repeatable', 'feature': 'report() raises after successful validation'},
                 witness=wit, detail='report() raised %r although the same validation had just returned' % (r[1],))
    r = h.call(val.run_validation)
    frame('run_validation()', before)
    if r[0] == 'ret':
        same('run_validation()', ms_identity(val.errors))
    for o in scope_objects(root):
        h.call(val.__getitem__, o)
    frame('validation[obj]', before)
    for e in val.errors[:5]:
        h.call(repr, e)
        h.call(lambda: e.path)
    frame('repr(issue) / issue.path', before)
    r = h.call(Validation, root)
    frame('second Validation(obj)', before)
    if r[0] == 'ret':
        same('second Validation(obj)', ms_identity(r[1].errors))
    else:
        col.fail(check=name + '/repeatable', cls={'clause': 'repeatable', 'feature': 'second run raises'},
                 witness=wit, detail='second Validation(obj) raised %r, the first returned' % (r[1],))
    if g.is_doc(root):
        r = h.call(root.validate)
        if r[0] == 'ret':
            same('Document.validate() after Validation(doc)', ms_identity(r[1].errors))
        frame('Document.validate()', before)


# ---------------------------------------------------------------------------------------------
# the library's own callables that take an odML object (shared by run_custom_private and run_stateless)
# ---------------------------------------------------------------------------------------------

CATEGORIES = ('odML', 'section', 'property')


def category_of(o):
    return 'odML' if g.is_doc(o) else ('section' if g.is_sec(o) else 'property')


def _hashable(x):
    try:
        hash(x)
        return x
    except TypeError:
        return repr(x)


def issue_ms(errors):
    """multiset of (validation_id, rank, msg, id(obj))"""
    return collections.Counter((kind_of(e), _hashable(e.rank), _hashable(e.msg), id(e.obj)) for e in errors)


def exc_key(exc):
    return type(exc).__name__, str(exc)[:200]


def apply_direct(fn, obj):
    """('ret', multiset, is_rule) | ('exc', (type, text)) | ('n/a',): fn(obj) read as a collection of issues.
    is_rule: the callable handed back an iterable of issues (usable as a handler), not a Validation."""
    def go():
        r = fn(obj)
        if isinstance(r, Validation):
            return False, list(r.errors)
        return True, list(r)
    r = h.call(go)
    if r[0] == 'exc':
        return 'exc', exc_key(r[1])
    is_rule, items = r[1]
    if not all(isinstance(e, V.ValidationError) for e in items):
        return ('n/a',)
    return 'ret', issue_ms(items), is_rule


def _probe_objects():
    with h.quiet():
        doc = odml.Document(author='probe')
        sec = odml.Section('probe', 'probe', parent=doc)
        odml.Section('probesub', 'probe', parent=sec)
        prop = odml.Property('probe', values=['v'], parent=sec)
    return doc, [doc, sec, prop]


_DISCOVERED = []


def discover_callables():
    """[(name, callable, is_rule)]: everything public that odml.validation itself defines, that can be called with one
    positional argument and that answers with a collection of issues for at least one kind of odML object.
    Nothing is listed by hand: a rule added to the library tomorrow is picked up."""
    if _DISCOVERED:
        return _DISCOVERED
    keep, probes = _probe_objects()
    for nm in sorted(vars(V)):
        fn = getattr(V, nm)
        if nm.startswith('_') or not callable(fn) or getattr(fn, '__module__', None) != V.__name__:
            continue
        try:
            inspect.signature(fn).bind(None)
        except (TypeError, ValueError):
            continue
        answers = [apply_direct(fn, o) for o in probes]
        good = [a for a in answers if a[0] == 'ret']
        if good:
            _DISCOVERED.append((nm, fn, all(a[2] for a in good)))
    del keep
    return _DISCOVERED


def custom_run(root, fn, cats, val=None):
    """(instance, outcome) of a reset=True Validation of root with fn as the added rule for the classes `cats`;
    outcome = ('ret', multiset) | ('exc', (type, text))"""
    if val is None:
        val = Validation(root, validate=False, reset=True)
        for c in cats:
            val.register_custom_handler(c, fn)
    r = h.call(val.run_validation)
    if r[0] == 'exc':
        return val, ('exc', exc_key(r[1]))
    return val, ('ret', issue_ms(val.errors))


def outcome_diff(a, b):
    if a[0] == 'ret' and b[0] == 'ret':
        x, y = a[1], b[1]
        return 'only in first: %r; only in second: %r' % ([k[:3] for k in (x - y).elements()][:3],
                                                          [k[:3] for k in (y - x).elements()][:3])
    return 'first: %r; second: %r' % (a[:2] if a[0] != 'ret' else 'returned %d issues' % sum(a[1].values()),
                                      b[:2] if b[0] != 'ret' else 'returned %d issues' % sum(b[1].values()))


def outcome_feature(a, b):
    if a[0] == 'ret' and b[0] == 'ret':
        return 'other issues'       # which kinds differ depends on the input, not on the defect: the rule name classifies
    if a[0] != b[0]:
        return 'raises-once-returns-once'
    return 'raises-differently'


def same_outcome(a, b):
    return a[:2] == b[:2]


# ---------------------------------------------------------------------------------------------
# run_custom_private
# ---------------------------------------------------------------------------------------------

MARK = 'c19-marker-'


def make_rule(tag):
    def rule(obj):
        yield V.ValidationError(obj, MARK + tag, V.LABEL_WARNING, V.IssueID.custom_validation)
    rule.__name__ = 'c19_rule_' + tag
    rule.__qualname__ = 'c19_rule_' + tag
    return rule


def registry():
    reg = Validation.__dict__.get('_handlers')
    names = {k: frozenset('%s.%s' % (f.__module__, getattr(f, '__qualname__', repr(f))) for f in v)
             for k, v in reg.items()}
    idents = {k: frozenset(id(f) for f in v) for k, v in reg.items()}
    return id(reg), names, idents


def base_docs(seed):
    rnd = random.Random(seed)
    docs = []
    # 0: small, clean
    d = g.D()
    s = g.S('s', parent=d)
    g.P('p', values=[1], parent=s)
    docs.append(d)
    # 1: warnings of several kinds, no errors
    d = g.D()
    s = g.S('a', 'n.s.', parent=d)
    g.P(None, values=['x'], parent=s)
    sub = g.S('b', parent=s)
    g.P('q', values=[1, 2, 3], parent=sub)
    g.setattr_q(sub, 'prop_cardinality', (2, None))
    g.setattr_q(s, 'sec_cardinality', (None, 1))
    g.S('c', parent=d)
    docs.append(d)
    # 2: a generated rich one with 4 sections
    shapes = [sh for sh in h.tree_shapes(4)]
    docs.append(h.build_doc(shapes[-3], rnd, rich=True, props_per_sec=(1, 2)))
    return docs


class Ctx(object):
    def __init__(self, doc, work, rnd):
        self.doc = doc
        self.work = work
        self.rnd = rnd
        self.k = 0
        self.live = []      # custom instances created so far in this history
        self.memo = {}      # (library rule, class) -> (snapshot of the document, outcome) of its last custom run


def count_scope(root):
    secs, props = h.walk(root)
    if g.is_sec(root):
        secs = [root] + secs
    return {'odML': 1 if g.is_doc(root) else 0, 'section': len(secs), 'property': len(props)}


def markers(errors):
    return collections.Counter(e.msg for e in errors if isinstance(e.msg, str) and e.msg.startswith(MARK))


def op_default_doc(cx):
    r = h.call(Validation, cx.doc)
    return [('default', r)]


def op_doc_validate(cx):
    return [('default', h.call(cx.doc.validate))]


def op_default_sec(cx):
    secs, _ = h.walk(cx.doc)
    return [('default', h.call(Validation, secs[len(secs) // 2]))] if secs else []


def op_default_prop(cx):
    _, props = h.walk(cx.doc)
    return [('default', h.call(Validation, props[0]))] if props else []


def _custom(cx, keys, via='run_validation', root=None):
    root = cx.doc if root is None else root
    cx.k += 1
    tag = 'r%d' % cx.k
    rule = make_rule(tag)
    val = Validation(root, validate=False, reset=True)
    for key in keys:
        val.register_custom_handler(key, rule)
    r = h.call(getattr(val, via))
    cx.live.append((val, tag, keys, root))
    return [('custom', (val, tag, keys, root, r))]


def op_custom_section(cx):
    return _custom(cx, ['section'])


def op_custom_property(cx):
    return _custom(cx, ['property'])


def op_custom_document(cx):
    return _custom(cx, ['odML'])


def op_custom_all_report(cx):
    return _custom(cx, ['odML', 'section', 'property'], via='report')


def op_custom_unknown_key(cx):
    return _custom(cx, ['no-such-class'])


def op_custom_on_section(cx):
    secs, _ = h.walk(cx.doc)
    return _custom(cx, ['section'], root=secs[0]) if secs else []


def op_custom_library_rule(cx):
    # the documented on-demand rule; no repository is set anywhere, so no terminology is fetched
    val = Validation(cx.doc, validate=False, reset=True)
    val.register_custom_handler('section', V.section_repository_present)
    r = h.call(val.run_validation)
    return [('custom-lib', (val, r))]


def op_custom_library_rules(cx):
    """every rule function the library exports, as the added rule of a reset=True instance, for every class of
    object: run, run again, run on a fresh instance; remembered for the next time the operation comes up"""
    out = []
    now = h.snap(cx.doc)
    for nm, fn, is_rule in discover_callables():
        if not is_rule:
            continue
        for cat in CATEGORIES:
            val, o1 = custom_run(cx.doc, fn, [cat])
            _, o2 = custom_run(cx.doc, fn, [cat], val)
            _, o3 = custom_run(cx.doc, fn, [cat])
            before = cx.memo.get((nm, cat))
            earlier = before[1] if before is not None and before[0] == now else None
            cx.memo[(nm, cat)] = (now, o1)
            out.append(('library-rule', (nm, cat, o1, o2, o3, earlier, val)))
    return out


def op_rerun_live(cx):
    out = []
    for val, tag, keys, root in cx.live[-2:]:
        r = h.call(val.run_validation)
        out.append(('custom', (val, tag, keys, root, r)))
    return out


def op_create(cx):
    with h.quiet():
        d = odml.Document(author='x')
        s = odml.Section('n%d' % cx.k, 'tt', parent=d, sec_cardinality=(1, 2), prop_cardinality=2)
        odml.Section(parent=s)
        odml.Property('pp', values=[1, 2], parent=s, val_cardinality=(None, 1))
        odml.Property(parent=s)
        secs, _ = h.walk(cx.doc)
        cx.k += 1
        if secs:
            odml.Section('added%d' % cx.k, 'tt', parent=secs[0])
            odml.Property('added%d' % cx.k, values=['v'], parent=secs[0])
    return []


def op_cardinality(cx):
    secs, props = h.walk(cx.doc)
    with h.quiet():
        for s in secs[:2]:
            s.set_sections_cardinality(1, 3)
            s.set_properties_cardinality(None, 1)
            s.sec_cardinality = (2, None)
            s.prop_cardinality = 3
            s.sec_cardinality = None
        for p in props[:2]:
            p.set_values_cardinality(2, 4)
            p.val_cardinality = (None, 1)
            p.val_cardinality = None
    return []


def _save_load(cx, backend):
    cx.k += 1
    path = os.path.join(cx.work, 'h%d.%s' % (cx.k, backend))
    out = []
    r = h.call(odml.save, cx.doc, path, backend)
    if r[0] == 'ret' and os.path.exists(path):
        r = h.call(odml.load, path, backend)
        if r[0] == 'ret':
            out.append(('default', h.call(Validation, r[1])))
        try:
            os.remove(path)
        except OSError:
            pass
    return out


def op_save_load_xml(cx):
    return _save_load(cx, 'xml')


def op_save_load_json(cx):
    return _save_load(cx, 'json')


def op_save_load_yaml(cx):
    return _save_load(cx, 'yaml')


def op_save_load_rdf(cx):
    return _save_load(cx, 'rdf')


OPS = collections.OrderedDict([
    ('default-doc', op_default_doc), ('doc.validate', op_doc_validate), ('default-section', op_default_sec),
    ('default-property', op_default_prop),
    ('custom-section-rule', op_custom_section), ('custom-property-rule', op_custom_property),
    ('custom-document-rule', op_custom_document), ('custom-all-via-report', op_custom_all_report),
    ('custom-unknown-key', op_custom_unknown_key), ('custom-on-section-root', op_custom_on_section),
    ('custom-library-rule', op_custom_library_rule), ('custom-library-rules', op_custom_library_rules),
    ('rerun-live-custom', op_rerun_live),
    ('create-objects', op_create), ('set-cardinalities', op_cardinality),
    ('save-load-xml', op_save_load_xml), ('save-load-json', op_save_load_json),
    ('save-load-yaml', op_save_load_yaml), ('save-load-rdf', op_save_load_rdf),
])


def run_custom_private(tier, seed):
    name = 'C19.custom_private'
    col = g.ClassCapped(
        name,
        rule='one case = one history: a sequence of operations from an alphabet of %d (default validations of a '
             'document / Section / Property, Document.validate, custom validations with a fresh marker rule for '
             'section / property / odML / all three via report() / an unknown key / rooted at a Section / the library\'s '
             'on-demand rule / every rule function the library exports for every class (run, re-run, fresh instance, '
             'compared with the previous occurrence while the document is unchanged), re-running live custom instances, creating objects with cardinalities, setting '
             'cardinalities through methods and setters, save+load in XML, JSON, YAML, RDF) applied to one of 3 base '
             'documents; all sequences up to length 2 (quick) / 3 (thorough), then seeded random sequences of length '
             '4..10; after every operation the registry and the marker contract are checked; distinct = (base document, '
             'operation sequence)' % len(OPS),
        exhaustive=False)
    reg0 = [registry()]
    work = scratch('cust_%s_%s' % (tier, seed))
    rnd = random.Random(seed)
    opnames = list(OPS)
    max_len = 2 if tier == 'quick' else 3
    n_random = 150 if tier == 'quick' else 1500

    def histories():
        b = 0
        for n in range(1, max_len + 1):
            for seq in itertools.product(opnames, repeat=n):
                b += 1
                yield b % 3, seq
        for _ in range(n_random):
            yield rnd.randrange(3), tuple(rnd.choice(opnames) for _ in range(rnd.randint(4, 10)))

    try:
        for bidx, seq in histories():
            doc = base_docs(seed)[bidx]
            cx = Ctx(doc, work, rnd)
            col.case(cls_key=(bidx, seq), sample='doc%d: %s' % (bidx, ' > '.join(seq)))
            wit = {'base_document': bidx, 'history': list(seq)}
            for step, opname in enumerate(seq):
                try:
                    with h.quiet():
                        results = OPS[opname](cx)
                except Exception as exc:       # noqa  - an operation itself failing is not this property's business
                    results = []
                where = 'step %d (%s)' % (step, opname)
                _check_registry(col, name, reg0, wit, opname, where)
                for kind, payload in results:
                    if kind == 'default':
                        if payload[0] == 'ret':
                            mk = markers(payload[1].errors)
                            if mk:
                                col.fail(check=name + '/custom-rule-not-in-default-validation',
                                         cls={'clause': 'custom-rule-not-in-default-validation', 'feature': 'after ' + opname},
                                         witness=wit, detail='%s: a default validation reports custom issues %r' % (where, dict(mk)))
                    elif kind == 'custom':
                        val, tag, keys, root, r = payload
                        if r[0] != 'ret':
                            continue
                        mk = markers(val.errors)
                        exp = sum(count_scope(root).get(k, 0) for k in keys)
                        if g.is_sec(root) and 'property' in keys:
                            exp = None     # Properties directly below a validated Section: C08's finding, not ours
                        others = [e for e in val.errors if not (isinstance(e.msg, str) and e.msg.startswith(MARK))]
                        foreign = [m for m in mk if m != MARK + tag]
                        if foreign:
                            col.fail(check=name + '/custom-rule-this-instance-only',
                                     cls={'clause': 'custom-rule-this-instance-only', 'feature': 'rule of another instance applied'},
                                     witness=wit, detail='%s: instance with rule %s reports %r' % (where, tag, dict(mk)))
                        if others:
                            col.fail(check=name + '/reset-instance-has-no-default-rules',
                                     cls={'clause': 'reset-instance-has-no-default-rules',
                                          'feature': 'kinds ' + '+'.join(sorted(set(kind_of(e) for e in others)))},
                                     witness=wit, detail='%s: reset=True instance reports %r' % (where, others[:3]))
                        if exp is not None and mk.get(MARK + tag, 0) != exp:
                            col.fail(check=name + '/custom-rule-applied-by-its-instance',
                                     cls={'clause': 'custom-rule-applied-by-its-instance', 'feature': 'keys ' + '+'.join(keys)},
                                     witness=wit, detail='%s: rule registered for %r produced %d issues, %d objects of that class in scope'
                                                         % (where, keys, mk.get(MARK + tag, 0), exp))
                        fresh = Validation(root, validate=False, reset=True)
                        rf = h.call(fresh.run_validation)
                        if rf[0] == 'ret' and fresh.errors:
                            col.fail(check=name + '/custom-rule-this-instance-only',
                                     cls={'clause': 'custom-rule-this-instance-only', 'feature': 'fresh reset instance not empty'},
                                     witness=wit, detail='%s: a fresh reset=True instance reports %r' % (where, fresh.errors[:3]))
                        _check_registry(col, name, reg0, wit, opname, where + ' + fresh instance')
                    elif kind == 'library-rule':
                        nm, cat, o1, o2, o3, earlier, val = payload
                        for label, other in (('re-run on the same instance', o2), ('fresh instance', o3),
                                             ('the same operation earlier in the history, document unchanged since', earlier)):
                            if other is not None and not same_outcome(o1, other):
                                col.fail(check=name + '/library-rule-as-custom-rule-repeatable',
                                         cls={'clause': 'library-rule-as-custom-rule-repeatable',
                                              'feature': 'rule %s for %s: %s' % (nm, cat, outcome_feature(o1, other))},
                                         witness=wit, detail='%s: %s registered for %r on a reset=True instance: this run vs %s: %s'
                                                             % (where, nm, cat, label, outcome_diff(o1, other)))
                                break
                        if markers(val.errors):
                            col.fail(check=name + '/custom-rule-this-instance-only',
                                     cls={'clause': 'custom-rule-this-instance-only', 'feature': 'rule of another instance applied'},
                                     witness=wit, detail='%s: instance with library rule %s reports %r' % (where, nm, dict(markers(val.errors))))
            # end of history: a default validation is still marker free and the registry intact
            r = h.call(Validation, doc)
            if r[0] == 'ret' and markers(r[1].errors):
                col.fail(check=name + '/custom-rule-not-in-default-validation',
                         cls={'clause': 'custom-rule-not-in-default-validation', 'feature': 'end of history'},
                         witness=wit, detail='final default validation reports %r' % dict(markers(r[1].errors)))
            _check_registry(col, name, reg0, wit, 'final-default-validation', 'end of history')
    finally:
        shutil.rmtree(work, ignore_errors=True)
    return col.result()


def _check_registry(col, name, reg0, wit, opname, where):
    if '_handlers' not in Validation.__dict__:
        col.fail(check=name + '/default-registry-unchanged', cls={'clause': 'default-registry-unchanged', 'feature': 'registry removed'},
                 witness=wit, detail='%s: Validation has no class attribute _handlers any more' % where)
        return
    reg = registry()
    if reg == reg0[0]:
        return
    reg0, reg0_box = reg0[0], reg0
    reg0_box[0] = reg          # report every change once, then continue from the new state
    if reg[1] != reg0[1]:
        added = {k: sorted(reg[1].get(k, frozenset()) - reg0[1].get(k, frozenset())) for k in reg[1]}
        removed = {k: sorted(reg0[1].get(k, frozenset()) - reg[1].get(k, frozenset())) for k in reg0[1]}
        added = {k: v for k, v in added.items() if v}
        removed = {k: v for k, v in removed.items() if v}
        feature = 'rules %s by %s' % ('added' if added else 'removed', opname)
        detail = '%s: default registry changed: added %r removed %r' % (where, added, removed)
    elif reg[0] != reg0[0]:
        feature, detail = 'registry object replaced by ' + opname, '%s: Validation._handlers is another dict object' % where
    else:
        feature, detail = 'handler functions replaced by ' + opname, '%s: same names, other function objects' % where
    col.fail(check=name + '/default-registry-unchanged', cls={'clause': 'default-registry-unchanged', 'feature': feature},
             witness=wit, detail=detail)


# ---------------------------------------------------------------------------------------------
# run_stateless
# ---------------------------------------------------------------------------------------------

def gen_standalone_trees():
    """Section trees that were never part of a Document (the default rules never look at their ids), nested
    one to three levels, with and without Properties on the root"""
    for depth in (1, 2, 3):
        for root_props in (0, 2):
            for width in (1, 2):
                with h.quiet():
                    root = odml.Section('root', 'setup')
                    for k in range(root_props):
                        odml.Property('rp%d' % k, values=[k], parent=root)
                    level = [root]
                    for d in range(depth):
                        nxt = []
                        for par in level:
                            for w in range(width):
                                s = odml.Section('s%d%d' % (d, w), 'part', parent=par)
                                odml.Property('p1', values=[1, 2], parent=s)
                                odml.Property('p2', values=['x'], parent=s)
                                nxt.append(s)
                        level = nxt[:2]
                yield (depth, root_props, width), root


def stateless_stream(tier, seed):
    """(generator, parameters, container, [(root, how)])"""
    for params, root in gen_standalone_trees():
        secs, _ = h.walk(root)
        yield 'standalone-tree', params, root, [(root, 'Validation')] + [(s, 'Validation') for s in secs[:2]]
    k = 0
    for cat, params, doc in doc_stream(tier, seed + 3):
        k += 1
        if tier == 'quick' and cat in ('cardinality', 'dependency', 'required', 'mixed', 'gen_docs') and k % 3:
            continue
        if tier != 'quick' and ((cat in ('cardinality', 'dependency', 'gen_docs') and k % 2) or (cat == 'mixed' and k % 3)):
            continue
        yield cat, params, doc, g.targets_of(doc)


def traversal_scope(root):
    """the objects a validation of root is about: root and everything below it"""
    if g.is_prop(root):
        return [root]
    secs, props = h.walk(root)
    return [root] + secs + props


def has_repository(container):
    secs, _ = h.walk(container) if not g.is_prop(container) else ([], [])
    return any(getattr(o, '_repository', None) is not None for o in [container] + secs)


def cat_sets(scope):
    present = [c for c in CATEGORIES if any(category_of(o) == c for o in scope)]
    return present


class _Stateless(object):
    """the evaluation of all discovered callables on one root"""

    def __init__(self, col, name, gen, params, container, root, how, direct_first):
        self.col, self.name = col, name
        self.gen, self.params, self.container, self.root = gen, params, container, root
        self.direct_first = direct_first
        self.scope = traversal_scope(root)
        self.rk = 'doc' if g.is_doc(root) else ('sec' if g.is_sec(root) else 'prop')
        self.attached = getattr(root, '_parent', None) is not None
        self.label = '%s %r' % (gen, params)
        self.wit = {'case': self.label, 'validated': g.obj_label(root), 'via': how,
                    'first contact': 'direct call' if direct_first else 'custom handler',
                    'graph': g.describe(container)}
        self.before = h.snap(container)
        self.direct = {}        # rule name -> [outcome per scope object]
        self.custom = {}        # (rule name, classes) -> outcome of the first run

    def fail(self, clause, feature, detail):
        self.col.fail(check='%s/%s' % (self.name, clause), cls={'clause': clause, 'feature': feature},
                      witness=self.wit, detail=detail)

    # -- direct calls ---------------------------------------------------------------------------
    def direct_phase(self, nm, fn):
        first = [apply_direct(fn, o) for o in self.scope]
        second = [apply_direct(fn, o) for o in self.scope]
        self.direct[nm] = first
        self.compare_direct(nm, first, second, 'called twice on the unchanged object')

    def compare_direct(self, nm, first, second, what):
        for o, a, b in zip(self.scope, first, second):
            if a[0] == 'n/a' or b[0] == 'n/a':
                if a[0] != b[0]:
                    self.fail('rule-call-repeatable', 'rule %s on %s: issues-once-something-else-once' % (nm, category_of(o)),
                              '%s(%s) %s: %r vs %r' % (nm, g.obj_label(o), what, a[0], b[0]))
                    return
                continue
            if not same_outcome(a, b):
                self.fail('rule-call-repeatable', 'rule %s on %s: %s' % (nm, category_of(o), outcome_feature(a, b)),
                          '%s(%s) %s: %s' % (nm, g.obj_label(o), what, outcome_diff(a, b)))
                return

    # -- as the added rule of a reset=True instance ----------------------------------------------
    def handler_phase(self, nm, fn):
        present = cat_sets(self.scope)
        returned = []
        for cats in [(c,) for c in present] + ['<all that returned>']:
            if cats == '<all that returned>':
                if len(returned) < 2:
                    continue
                cats = tuple(returned)
            val, o1 = custom_run(self.root, fn, cats)
            _, o2 = custom_run(self.root, fn, cats, val)
            _, o3 = custom_run(self.root, fn, cats)
            self.custom[(nm, cats)] = o1
            if o1[0] == 'ret' and len(cats) == 1:
                returned.append(cats[0])
            for label, other in (('run again on the same instance', o2), ('run on a fresh instance', o3)):
                if not same_outcome(o1, other):
                    self.fail('rule-as-handler-repeatable',
                              'rule %s for %s: %s' % (nm, '+'.join(cats), outcome_feature(o1, other)),
                              '%s registered for %r on Validation(%s, validate=False, reset=True): first run vs %s: %s'
                              % (nm, list(cats), g.obj_label(self.root), label, outcome_diff(o1, other)))
                    break

    def evaluate(self, rules):
        for nm, fn, is_rule in rules:
            if self.direct_first or not is_rule:
                self.direct_phase(nm, fn)
                if is_rule:
                    self.handler_phase(nm, fn)
            else:
                self.handler_phase(nm, fn)
                self.direct_phase(nm, fn)
            kinds = frozenset(k[0] for o in self.direct[nm] if o[0] == 'ret' for k in o[1]) | \
                frozenset(k[0] for o in self.custom.values() if o[0] == 'ret' for k in o[1])
            fits = tuple(sorted(set(category_of(o) for o, a in zip(self.scope, self.direct[nm]) if a[0] == 'ret')))
            if not fits:
                continue        # the callable is not made for anything in this scope (it raised, twice the same): not a case
            self.col.case(cls_key=(self.gen, self.params, self.rk, self.attached, nm, fits, kinds, self.direct_first),
                          sample='%s: %s on %s (%s first)' % (self.label, nm, g.obj_label(self.root),
                                                             'direct' if self.direct_first else 'handler'))
        self.frame(rules)

    # -- later, after other documents went through the same rules -----------------------------------
    def later(self, rules):
        if h.snap(self.container) != self.before:
            return          # reported by frame(); not "the same unchanged objects" any more
        for nm, fn, is_rule in rules:
            again = [apply_direct(fn, o) for o in self.scope]
            self.compare_direct(nm, self.direct[nm], again, 'called again after other documents were validated')
            for (rn, cats), o1 in self.custom.items():
                if rn != nm:
                    continue
                _, o = custom_run(self.root, fn, cats)
                if not same_outcome(o1, o):
                    self.fail('rule-as-handler-repeatable',
                              'rule %s for %s: %s' % (nm, '+'.join(cats), outcome_feature(o1, o)),
                              '%s registered for %r on Validation(%s, validate=False, reset=True): first run vs a fresh '
                              'instance after other documents were validated: %s'
                              % (nm, list(cats), g.obj_label(self.root), outcome_diff(o1, o)))
        self.frame(rules, 'later ')

    # -- frame -----------------------------------------------------------------------------------------
    def frame(self, rules, when=''):
        after = h.snap(self.container)
        if after == self.before:
            return
        first_diff = h.diff(self.before, after)
        self.before = after
        culprit = None
        for nm, fn, is_rule in rules:       # replay to name the rule
            b = h.snap(self.container)
            for o in self.scope:
                apply_direct(fn, o)
            if is_rule:
                for c in cat_sets(self.scope):
                    custom_run(self.root, fn, (c,))
            if h.snap(self.container) != b:
                culprit = nm
                break
        self.before = h.snap(self.container)
        self.fail('frame', 'changed by rule %s' % culprit if culprit else 'changed by a rule run (not reproduced on replay)',
                  '%sdirect calls / custom runs of the library rules changed the object graph: %s' % (when, first_diff))


def _rule_runs_by_path(doc, rules):
    """{rule/class: sorted [path, kind, rank, msg] | ['EXC', type]} for a loaded document"""
    out = {}
    for nm, fn, is_rule in rules:
        if not is_rule:
            continue
        for cat in CATEGORIES:
            val = Validation(doc, validate=False, reset=True)
            val.register_custom_handler(cat, fn)
            r = h.call(val.run_validation)
            out['%s/%s' % (nm, cat)] = ms_path(val.errors) if r[0] == 'ret' else ['EXC', type(r[1]).__name__]
    return out


def _child_rules_main():
    """stdin: [[file, backend], ...]  stdout: {file: [digest, {rule/class: ...}] | ['EXC', type, text]}"""
    real = sys.stdout
    sys.stdout = sys.stderr
    out = {}
    rules = discover_callables()
    for path, backend in json.load(sys.stdin):
        with h.quiet():
            try:
                doc = odml.load(path, backend)
                out[path] = [digest(doc), _rule_runs_by_path(doc, rules)]
            except Exception as exc:    # noqa
                out[path] = ['EXC', type(exc).__name__, str(exc)[:200]]
    real.write(json.dumps(out))


def run_stateless(tier, seed):
    name = 'C19.stateless'
    rules = discover_callables()
    col = g.ClassCapped(
        name,
        rule='one case = one callable of odml.validation (discovered by introspection: %d found - %s) evaluated on one '
             'validated root (the Document, every Section and Property in place, parentless keep_id clones; Section trees '
             'that never had a Document) of one generated document (same generators as C19.observes): called directly twice '
             'on every object of the scope, registered as the added rule of a reset=True instance for each class of object '
             'present and for all classes it returned for (run, run again, fresh instance), everything repeated after two '
             'other documents went through all rules, snapshot of the object graph and the default registry compared; '
             'plus one case per (saved document, rule) for the comparison with another process; distinct = (generator, '
             'parameters, root kind, attached?, callable, classes it returns for, issue kinds, first contact direct/handler)'
             % (len(rules), ', '.join(nm for nm, _, _ in rules)),
        exhaustive=False)
    reg0 = [registry()]
    work = scratch('stl_%s_%s' % (tier, seed))
    files = []
    skipped_repository = 0
    not_comparable = 0
    pending = collections.deque()       # evaluations of earlier documents waiting for their 'later' pass
    try:
        ndoc = 0
        for gen, params, container, targets in stateless_stream(tier, seed):
            if has_repository(container):
                skipped_repository += 1      # a terminology would be fetched: no network in a check
                continue
            ndoc += 1
            evs = []
            for root, how in targets:
                ev = _Stateless(col, name, gen, params, h.roots_of([root])[0], root, how, direct_first=bool(ndoc % 2))
                ev.evaluate(rules)
                evs.append(ev)
                _check_registry(col, name, reg0, ev.wit, 'library rules on ' + ev.rk, 'after all library rules on %s' % g.obj_label(root))
            pending.append(evs)
            if len(pending) > 2:
                for ev in pending.popleft():
                    ev.later(rules)
            # another process
            if g.is_doc(container) and (tier != 'quick' or ndoc % 2 == 0):
                for backend in (['xml'] if tier == 'quick' else ['xml', 'yaml']):
                    path = os.path.join(work, 's%05d.%s' % (ndoc, backend))
                    r = h.call(odml.save, container, path, backend)
                    if r[0] != 'ret' or not os.path.exists(path):
                        continue
                    r = h.call(odml.load, path, backend)
                    if r[0] != 'ret':
                        continue
                    with h.quiet():
                        here = _rule_runs_by_path(r[1], rules)
                    files.append((path, backend, '%s %r' % (gen, params), here, g.describe(container), digest(r[1])))
        while pending:
            for ev in pending.popleft():
                ev.later(rules)
        if files:
            out = other_process([[f[0], f[1]] for f in files], 3, entry='_child_rules_main')
            for path, backend, label, here, desc, dig in files:
                there = out.get(path)
                if isinstance(there, list) and len(there) == 2 and there[0] != dig:
                    not_comparable += 1
                    continue
                for key in sorted(here):
                    nm, cat = key.split('/')
                    kinds = frozenset(x[1] for x in here[key]) if here[key][:1] != ['EXC'] else 'raises'
                    col.case(cls_key=('other-process', backend, label.split(' ')[0], nm, cat, kinds),
                             sample='other process: %s as %s rule on %s (%s)' % (nm, cat, label, backend))
                    wit = {'case': label, 'format': backend, 'rule': nm, 'registered for': cat, 'graph': desc}
                    if there is None or (there and there[0] == 'EXC'):
                        col.fail(check=name + '/other-process-same-issues',
                                 cls={'clause': 'other-process-same-issues', 'feature': 'load-raises-only-there'},
                                 witness=wit, detail='other process: %r, here the file was loaded' % (there,))
                        break
                    t = there[1].get(key)
                    t = [list(x) if isinstance(x, list) else x for x in t] if isinstance(t, list) else t
                    if t != here[key]:
                        if here[key][:1] == ['EXC'] or (isinstance(t, list) and t[:1] == ['EXC']):
                            feature = 'rule %s for %s: raises in one process only' % (nm, cat)
                        else:
                            feature = 'rule %s for %s: other issues' % (nm, cat)
                        col.fail(check=name + '/other-process-same-issues',
                                 cls={'clause': 'other-process-same-issues', 'feature': feature},
                                 witness=wit,
                                 detail='%s registered for %r on a reset=True instance, document loaded from the same file: '
                                        'here %r, in a fresh process (hash seed 3) %r' % (nm, cat, here[key][:3], t[:3] if isinstance(t, list) else t))
    finally:
        shutil.rmtree(work, ignore_errors=True)
    res = col.result()
    res['callables_discovered'] = [nm for nm, _, _ in rules]
    res['other_process_files'] = len(files)
    res['other_process_not_comparable'] = not_comparable
    res['skipped_repository_set'] = skipped_repository
    return res
