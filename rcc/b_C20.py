"""
Bounded stand-in for C20: "Searches over exported RDF return exactly the matching objects".

run_queries : QueryCreator / QueryParser (string and dict way) on the export (no section sub-classing) of small
              document sets, compared with an own evaluation of the query on the source documents.
run_fuzzy   : FuzzyFinder.find in match and fuzzy mode: every non-empty combination of the pairs with hits is
              reported with exactly its hits, most specific first, none without hits; never raises for the
              attribute names of the odML RDF model.

Both also run over the *value-text dimension* (TEXT_FAMILIES): document sets whose attribute texts are families of
mutually confusable values (leading/trailing/doubled/only whitespace, tabs, case variants, prefixes/suffixes, words
of the query language, non-ASCII and normalisation twins, SPARQL/regex/format metacharacters) next to their
stripped/case-folded twins; every requested value - hit, twin of a hit, absent twin - must select exactly the nodes
carrying exactly that text, in the string and the dictionary form and in match and fuzzy mode.

Both also run over the *value-form dimension* (FORM_FAMILIES): the content that is not text - Property.uncertainty,
Document.date, the values of int/float/boolean/date Properties - in all the forms it can take: floats whose
shortest form uses exponent notation (below 1e-4, from 1e16 on, smallest/largest double), negative zero, inf/nan,
integer valued floats next to the same integer, integers beyond 64 bit, an uncertainty handed over as text (with
sign, leading zeros, surrounding blanks, exponent, not a number at all; through the constructor and through the
setter), booleans next to the integers 0/1 and the texts true/True/yes, the first and the last date, dates next to
datetimes, times and texts that begin alike. A node carries the lexical form its content has in the export (texts
verbatim, repr of a float, decimal digits of an int, true/false, ISO 8601; read back from the graph with rdflib -
a different form found there is adopted, not flagged). Requested are: every carried form, other spellings of the
same content that nobody carries (misses), both as text in the string and the dictionary way and - the carried
ones - as the Python object itself in the dictionary; alone, with further attributes of the node, across kinds,
several values of one Property; QueryCreator, FuzzyFinder match mode (also with the id, also with value:[..]) and
FuzzyFinder fuzzy mode (uncertainty/date/id as attributes, the forms as terms).

The oracle is an evaluation on the odml objects (private fields); predicate names are spelled out here and
not taken from odml.format.
"""
from __future__ import annotations

import datetime as dt
import itertools
import random
import re
import unicodedata

from rcc import harness as h

odml = h.odml
from odml.tools.rdf_converter import RDFWriter                                   # noqa: E402
from odml.rdf.query_creator import QueryCreator, QueryParser                     # noqa: E402
from odml.rdf.fuzzy_finder import FuzzyFinder                                    # noqa: E402

NS = 'https://g-node.org/odml-rdf#'

# attributes of the odML RDF model that carry a literal value: query key -> (private field, predicate)
ATTRS = {
    'Doc': {'id': ('_id', 'hasId'), 'author': ('_author', 'hasAuthor'), 'date': ('_date', 'hasDate'),
            'version': ('_version', 'hasDocVersion')},
    'Sec': {'id': ('_id', 'hasId'), 'name': ('_name', 'hasName'), 'definition': ('_definition', 'hasDefinition'),
            'type': ('type', 'hasType'), 'reference': ('_reference', 'hasReference')},
    'Prop': {'id': ('_id', 'hasId'), 'name': ('_name', 'hasName'), 'definition': ('_definition', 'hasDefinition'),
             'dtype': ('_dtype', 'hasDtype'), 'unit': ('_unit', 'hasUnit'),
             'uncertainty': ('_uncertainty', 'hasUncertainty'), 'reference': ('_reference', 'hasReference'),
             'value_origin': ('_value_origin', 'hasValueOrigin')},
}
# attribute names of the model whose content is not a literal (only "never raises" is checked for them)
LINK_ATTRS = {'Doc': ['repository', 'sections'], 'Sec': ['repository', 'sections', 'properties'], 'Prop': ['value']}
KIND_WORD = {'Doc': 'doc', 'Sec': 'sec', 'Prop': 'prop'}
KIND_VAR = {'Doc': 'd', 'Sec': 's', 'Prop': 'p'}
KINDS = ('Doc', 'Sec', 'Prop')
SPECIAL = ('id', 'date', 'uncertainty')
FORBIDDEN = set(',():"')
ABSENT = 'zz-absent'


def as_text(v):
    """The text a user would write for an attribute value = the lexical form an RDF export gives it: texts
    verbatim, integers in decimal digits, floats in their shortest round-trip (repr) form, booleans as
    true/false, dates, times and datetimes in ISO 8601."""
    if v is None:
        return None
    if isinstance(v, bool):
        return 'true' if v else 'false'
    if isinstance(v, (dt.date, dt.datetime, dt.time)):
        return v.isoformat()
    if isinstance(v, float):
        return repr(v)
    return str(v)


class NativeReq(str):
    """A requested value handed over as the native Python object found in the document (possible in the
    dictionary way only); as text it is the lexical form of that object."""

    def __new__(cls, native):
        obj = str.__new__(cls, as_text(native))
        obj.native = native
        return obj


def native_of(v):
    if isinstance(v, tuple):
        return [native_of(x) for x in v]
    return getattr(v, 'native', v)


def has_native(pairs):
    return any(isinstance(x, NativeReq) for _, _, v in pairs for x in (v if isinstance(v, tuple) else (v,)))


# ---------------------------------------------------------------------------------------------
# documents and their index
# ---------------------------------------------------------------------------------------------

def build_doc(rnd, escaping=False):
    with h.quiet():
        doc = odml.Document(author=rnd.choice([None, 'me', 'Ann B.']), version=rnd.choice([None, '1.0', 'v2']),
                            date=rnd.choice([None, dt.date(2020, 5, 17), dt.date(1999, 12, 31)]))

        def add_secs(parent, depth):
            used = set()
            for _ in range(rnd.choice([1, 2]) if depth == 0 else rnd.choice([0, 1, 2])):
                name = rnd.choice(['a', 'ab', 'b', 's 1'])
                while name in used:
                    name += rnd.choice('xy')
                used.add(name)
                sec = odml.Section(name=name, type=rnd.choice(['t', 'setup/daq', 'n.s.x']), parent=parent,
                                   definition=rnd.choice([None, 'def A', "it's", 'def A']),
                                   reference=rnd.choice([None, 'ref', 'ref 2']))
                if escaping and rnd.random() < 0.6:
                    sec.definition = rnd.choice(['back\\slash', 'two\nlines'])
                pused = set()
                for _ in range(rnd.choice([0, 1, 2, 3])):
                    pname = rnd.choice(['a', 'ab', 'p'])
                    while pname in pused:
                        pname += rnd.choice('xy')
                    pused.add(pname)
                    dtype, vals = rnd.choice([('string', ['x', 'y']), ('int', [1, 2]), ('float', [1.5]),
                                              (None, [])])
                    prop = odml.Property(name=pname, dtype=dtype, values=list(vals), parent=sec,
                                         unit=rnd.choice([None, 'mV', 'µm', '%']),
                                         uncertainty=rnd.choice([None, None, 0.5, 2, 0.0, 0.25]),
                                         definition=rnd.choice([None, 'def A', 'pdef']),
                                         reference=rnd.choice([None, 'ref']),
                                         value_origin=rnd.choice([None, 'file.dat']))
                    if escaping and rnd.random() < 0.5:
                        prop.definition = rnd.choice(['back\\slash', 'two\nlines'])
                if depth < 2:
                    add_secs(sec, depth + 1)
        add_secs(doc, 0)
    return doc


class Index(object):
    """Flat view of a document set: per kind a list of nodes (uri, attribute texts, containment)."""

    def __init__(self, docs):
        self.nodes = {'Doc': [], 'Sec': [], 'Prop': []}
        for d in docs:
            du = NS + d._id
            self.nodes['Doc'].append({'uri': du, 'attrs': self._attrs('Doc', d), 'parent': None,
                                      'native': {'date': d._date}})
            stack = [(s, du) for s in list.__iter__(d._sections)]
            while stack:
                s, parent = stack.pop(0)
                su = NS + s._id
                self.nodes['Sec'].append({'uri': su, 'attrs': self._attrs('Sec', s), 'parent': parent,
                                          'top': parent == du})
                for p in list.__iter__(s._props):
                    self.nodes['Prop'].append({'uri': NS + p._id, 'attrs': self._attrs('Prop', p), 'parent': su,
                                               'values': list(p._values), 'dtype': p._dtype,
                                               'vlex': [as_text(x) for x in p._values],
                                               'native': {'uncertainty': p._uncertainty}})
                stack += [(c, su) for c in list.__iter__(s._sections)]
        self.by_uri = {n['uri']: n for k in KINDS for n in self.nodes[k]}

    @staticmethod
    def _attrs(kind, obj):
        return {a: as_text(getattr(obj, f)) for a, (f, _) in ATTRS[kind].items()}

    def evaluate(self, pairs):
        """pairs: iterable of (kind, attr, text). Returns the set of result tuples over the kinds involved
        (in Doc, Sec, Prop order), or None where the statement does not define the relation (Doc+Prop)."""
        per = {k: [(a, v) for kk, a, v in pairs if kk == k] for k in KINDS}
        kinds = tuple(k for k in KINDS if per[k])
        if kinds == ('Doc', 'Prop'):
            return None

        def carries(n, a, v):
            if a == 'value':            # v: tuple of requested value texts, all of them among the values
                return all(t in n.get('vlex', ()) for t in v)
            return n['attrs'].get(a) == v

        def match(kind):
            return [n for n in self.nodes[kind] if all(carries(n, a, v) for a, v in per[kind])]
        if len(kinds) == 1:
            return {(n['uri'],) for n in match(kinds[0])}
        out = set()
        if kinds == ('Doc', 'Sec'):
            du = {n['uri'] for n in match('Doc')}
            return {(s['parent'], s['uri']) for s in match('Sec') if s['parent'] in du}
        su = {n['uri'] for n in match('Sec')}
        if kinds == ('Sec', 'Prop'):
            return {(p['parent'], p['uri']) for p in match('Prop') if p['parent'] in su}
        du = {n['uri'] for n in match('Doc')}
        for p in match('Prop'):
            if p['parent'] in su and self.by_uri[p['parent']]['parent'] in du:
                out.add((self.by_uri[p['parent']]['parent'], p['parent'], p['uri']))
        return out


def doc_sets(tier, seed, n_sets):
    rnd = random.Random(seed * 7919 + 3)
    harness_docs = list(h.gen_docs('quick', seed, per_shape=1))
    for k in range(n_sets):
        n = 1 + k % 3
        docs = [build_doc(rnd, escaping=(k % 4 == 3)) for _ in range(n)]
        if k % 3 == 2:
            docs[-1] = harness_docs[(k * 5 + 4) % len(harness_docs)]
        yield k, docs


def export(docs):
    st, g = h.call(lambda: RDFWriter(list(docs), rdf_subclassing=False).convert_to_rdf())
    return g if st == 'ret' else None


# ---------------------------------------------------------------------------------------------
# queries
# ---------------------------------------------------------------------------------------------

KIND_WORD_LONG = {'Doc': 'document', 'Sec': 'section', 'Prop': 'property'}


def q_string(pairs, long_words=False):
    """The documented one-line form 'doc(author:D. N. Adams) section(name:Stimulus) prop(name:Contrast, unit:%)':
    a value is the text between the colon and the next ',' or ')', verbatim."""
    parts = []
    words = KIND_WORD_LONG if long_words else KIND_WORD
    for k in KINDS:
        mine = [(a, v) for kk, a, v in pairs if kk == k]
        if mine:
            parts.append('%s(%s)' % (words[k], ', '.join(
                '%s:[%s]' % (a, ', '.join(v)) if isinstance(v, tuple) else '%s:%s' % (a, v) for a, v in mine)))
    return ' '.join(parts)


def q_dict(pairs):
    d = {}
    for k, a, v in pairs:
        d.setdefault(k, []).append((a, native_of(v)))
    return d


def run_library(g, pairs, way, long_words=False):
    """-> ('ret', set of tuples over the kinds involved) | ('exc', e)"""
    kinds = [k for k in KINDS if any(kk == k for kk, _, _ in pairs)]

    def go():
        if way == 'str':
            q = QueryCreator().get_query(q_string(pairs, long_words), QueryParser())
        else:
            q = QueryCreator(q_dict(pairs)).get_query()
        rows = set()
        for row in g.query(q):
            d = row.asdict()
            rows.add(tuple(str(d.get(KIND_VAR[k])) for k in kinds))
        return rows
    return h.call(go)


def feature_of(pairs, fam=None):
    """Stable label of what is special about a query (see SPECIAL / escaping); for the document sets of the
    value-text dimension (fam = all texts of the family) the label of the most unusual requested text."""
    feats = []
    labels = [text_feature(v, fam) for _, _, v in pairs]
    first = min(labels, key=TEXT_FEATURES.index)
    if first in TEXT_FEATURES[:3]:
        return first                      # whitespace in a requested text outweighs the kind of attribute
    for k, a, v in pairs:
        if a == 'id':
            feats.append('id-attribute')
        elif a == 'date':
            feats.append('typed-literal-attribute(date|uncertainty)')
        elif a == 'uncertainty':
            feats.append('uncertainty-zero' if v in ('0', '0.0') else 'typed-literal-attribute(date|uncertainty)')
        if '\\' in v or '\n' in v:
            feats.append('value-needs-escaping(backslash|newline)')
    if not feats:
        return first
    return '+'.join(sorted(set(feats)))


# labels of a requested text, most unusual first
TEXT_FEATURES = ['value-with-tab', 'whitespace-only-value', 'value-with-edge-whitespace',
                 'value-with-doubled-inner-blank', 'query-word-or-attribute-name-as-value', 'non-ascii-value',
                 'sparql-regex-or-format-metacharacter-in-value', 'case-variant-of-another-value',
                 'stripped-form-of-another-value', 'part-of-another-value', 'plain']
QUERY_WORDS = {'FIND', 'HAVING', 'find', 'having', 'Search', 'doc', 'document', 'sec', 'section', 'prop', 'property',
               'value', 'Doc', 'Sec', 'Prop'} | {a for k in ATTRS for a in ATTRS[k]} | \
    {a for k in LINK_ATTRS for a in LINK_ATTRS[k]}
META_CHARS = set('{}?$<>#\'[];*%|^&+~`@!=')


def text_feature(v, fam=None):
    """What makes the text v an unusual search value; fam: the texts it can be confused with (only given for the
    document sets of the value-text dimension, the generic sets keep the label 'plain' for ordinary texts)."""
    if '\t' in v:
        return 'value-with-tab'
    if v.strip() == '':
        return 'whitespace-only-value'
    if v != v.strip():
        return 'value-with-edge-whitespace'
    if fam is None:
        return 'plain'
    if '  ' in v:
        return 'value-with-doubled-inner-blank'
    if any(w in QUERY_WORDS for w in v.split()):
        return 'query-word-or-attribute-name-as-value'
    if any(ord(c) > 127 for c in v):
        return 'non-ascii-value'
    if set(v) & META_CHARS:
        return 'sparql-regex-or-format-metacharacter-in-value'
    others = [u for u in fam if u != v]
    if any(u.casefold() == v.casefold() for u in others):
        return 'case-variant-of-another-value'
    if any(u.strip() == v for u in others):
        return 'stripped-form-of-another-value'
    if any(v in u for u in others):
        return 'part-of-another-value'
    return 'plain'


def gen_single_kind(idx, kind, rnd, max_n, per_combo, thorough=False):
    """Queries over 1..max_n attributes of one kind: (variant, pairs)."""
    attrs = list(ATTRS[kind])
    nodes = idx.nodes[kind]
    for n in range(1, max_n + 1):
        for combo in itertools.combinations(attrs, n):
            if sum(1 for a in combo if a in SPECIAL) > 1:
                continue
            full = [nd for nd in nodes if all(usable_q(nd['attrs'][a]) for a in combo)]
            if not full:
                # nothing carries all of them: a pure miss query
                yield 'absent', [(kind, a, ABSENT) for a in combo]
                continue
            picks = full if len(full) <= per_combo else rnd.sample(full, per_combo)
            seen = set()
            for nd in picks:
                vals = tuple(nd['attrs'][a] for a in combo)
                if vals in seen:
                    continue
                seen.add(vals)
                yield 'hit', [(kind, a, v) for a, v in zip(combo, vals)]
                if n == 1:
                    # the same text with a blank added / in other letter case is another value
                    twins = [vals[0] + ' ', ' ' + vals[0], vals[0].swapcase()]
                    for t in (twins if thorough else [twins[(len(seen) + attrs.index(combo[0])) % 3]]):
                        if t != vals[0]:
                            yield 'twin-of-hit', [(kind, combo[0], t)]
            if n > 1:
                a0 = rnd.choice(full)
                others = [nd for nd in nodes if usable_q(nd['attrs'][combo[0]])]
                b0 = rnd.choice(others)
                yield 'mixed', [(kind, combo[0], b0['attrs'][combo[0]])] + \
                    [(kind, a, a0['attrs'][a]) for a in combo[1:]]
            nd = rnd.choice(full)
            j = rnd.randrange(n)
            yield 'absent', [(kind, a, ABSENT if i == j else nd['attrs'][a]) for i, a in enumerate(combo)]


def usable_q(text):
    """usable as a query value; values needing escaping are allowed by the statement (only , ( ) : " are not)"""
    return text is not None and text != '' and not (set(text) & FORBIDDEN)


def gen_cross_kind(idx, rnd, max_per_kind, budget):
    """Queries spanning kinds related by direct containment: (variant, pairs)."""
    plain = {k: [a for a in ATTRS[k] if a not in SPECIAL] for k in KINDS}
    out = []

    def pick_attrs(kind, node, n):
        ok = [a for a in plain[kind] if usable_q(node['attrs'][a]) and '\\' not in node['attrs'][a]
              and '\n' not in node['attrs'][a]]
        rnd.shuffle(ok)
        return [(kind, a, node['attrs'][a]) for a in sorted(ok[:n])]

    secs, props, docs = idx.nodes['Sec'], idx.nodes['Prop'], idx.nodes['Doc']
    for _ in range(budget):
        n = rnd.randint(1, max_per_kind)
        combo = rnd.choice([('Doc', 'Sec'), ('Sec', 'Prop'), ('Doc', 'Sec', 'Prop')])
        variant = rnd.choice(['related', 'related', 'unrelated', 'absent'])
        if not secs or ('Prop' in combo and not props):
            continue
        if 'Prop' in combo:
            p = rnd.choice(props)
            s = idx.by_uri[p['parent']]
        else:
            p = None
            s = rnd.choice(secs)
        par = idx.by_uri[s['parent']]
        nested = not s['top']
        d = rnd.choice(docs) if nested else par             # nested section: containment not direct
        if variant == 'unrelated':
            if 'Prop' in combo and len(secs) > 1:
                s = rnd.choice([x for x in secs if x is not s])
            elif len(docs) > 1:
                d = rnd.choice([x for x in docs if x is not d])
        pairs = []
        if 'Doc' in combo:
            pairs += pick_attrs('Doc', d, n)
        pairs += pick_attrs('Sec', s, n)
        if 'Prop' in combo:
            pairs += pick_attrs('Prop', p, n)
        if tuple(k for k in KINDS if any(kk == k for kk, _, _ in pairs)) != combo:
            continue
        if variant == 'absent':
            j = rnd.randrange(len(pairs))
            pairs[j] = (pairs[j][0], pairs[j][1], ABSENT)
        if nested and 'Doc' in combo and variant == 'related':
            variant = 'nested'
        out.append((variant, pairs))
    return out


# ---------------------------------------------------------------------------------------------
# value-text dimension: families of mutually confusable texts
# ---------------------------------------------------------------------------------------------

# (family, texts carried by the documents, twins that no document carries). All free of , ( ) : and double quote.
TEXT_FAMILIES = [
    ('edge-whitespace',
     ['Stimulus', 'Stimulus ', ' Stimulus', ' Stimulus ', 'Stimulus  ', 'Stimulus\u00a0', 'Recording', ' %', '%'],
     ['Recording ', ' Recording', 'Stimulus   ', '% ']),
    ('blank-only-and-inner-blanks',
     [' ', '  ', 'x', ' x', 'D. N. Adams', 'D.  N. Adams', 'D. N.  Adams', 'D.N. Adams'],
     ['   ', 'D.  N.  Adams', 'x ', 'D. N.Adams']),
    ('tab',
     ['ab', 'a\tb', 'ab\t', '\tab', '\t', 'a\t\tb'],
     ['b\ta']),
    ('letter-case',
     ['Stimulus', 'stimulus', 'STIMULUS', 'StimuluS', 'Gr\u00f6\u00dfe', 'gr\u00f6\u00dfe', 'GR\u00d6SSE',
      'GR\u00d6\u00dfE'],
     ['sTIMULUS', 'gr\u00f6sse']),
    ('prefix-suffix',
     ['Stim', 'Stimulus', 'Stimulus-2', 'ulus', 'mul', 'StimulusStimulus', 'Stimulus 2'],
     ['Stimu', 'timulus', 'Stimulus-']),
    ('query-words',
     ['FIND', 'HAVING', 'sec', 'prop', 'doc', 'name', 'type', 'value', 'section', 'FIND sec HAVING x', 'sec name'],
     ['find', 'Search', 'unit', 'HAVING x']),
    ('non-ascii',
     ['\u00e4', 'a\u0308', '\u00c4', '\u00b5m', '\u03bcm', '\u65e5\u672c', '\U0001d707V', '\u00e9 t\u00e9', 'a'],
     ['ae', '\U0001d708V', 'um', '\u65e5']),
    ('metacharacters',
     ['{0}', '{}', '?s', '$s', '<x>', '#1', "it's", '[a]', 'a;b', 'a.*', '%s', '50 %', 'a|b', '^a$', '*', 'a'],
     ['.*', '?', '{1}', '$']),
]
TEXT_ATTRS = {'Doc': ['author', 'version'], 'Sec': ['name', 'type', 'definition', 'reference'],
              'Prop': ['name', 'definition', 'unit', 'reference', 'value_origin']}


def text_docs(present, rnd):
    """One small document per text of the family; every text is author of one Document and name of Sections and
    Properties in several documents, the other attributes take the family texts in rotation (some left unset)."""
    n = len(present)

    def pick(x, p=0.75):
        return present[x % n] if rnd.random() < p else None
    docs = []
    with h.quiet():
        for i in range(n):
            off = rnd.randrange(n)
            doc = odml.Document(author=present[i], version=pick(i + 1 + off, 0.9))
            for pos, j in enumerate([i, (i + 1) % n]):
                sec = odml.Section(name=present[j], type=present[(i + j + off) % n], parent=doc,
                                   definition=pick(j + 2), reference=pick(2 * j + i))
                for k in (j, (j + 2) % n):
                    odml.Property(name=present[k], values=[1], parent=sec, unit=pick(k + i + off),
                                  definition=pick(k + 1), reference=pick(k + 3, 0.5),
                                  value_origin=pick(2 * k + 1, 0.5))
                if pos == 0:
                    sub = odml.Section(name=present[(j + 3) % n], type=present[(j + off) % n], parent=sec,
                                       definition=pick(j + 4))
                    odml.Property(name=present[(j + 1) % n], values=['v'], parent=sub, unit=pick(j + off))
            docs.append(doc)
    return docs


def twins_of(v, texts):
    """The other texts of the family, the most easily confused first."""
    def squeeze(t):
        return ' '.join(t.split())

    def rank(u):
        if u.strip() == v.strip():
            return 0
        if u.casefold() == v.casefold():
            return 1
        if squeeze(u) == squeeze(v):
            return 2
        if unicodedata.normalize('NFKC', u) == unicodedata.normalize('NFKC', v):
            return 3
        if u in v or v in u:
            return 4
        return 5
    return sorted((u for u in texts if u != v), key=lambda u: (rank(u), texts.index(u)))


def gen_text_single(idx, kind, texts, rnd, quick, shift):
    """Single-kind queries of the value-text dimension: (variant, pairs)."""
    attrs = TEXT_ATTRS[kind]
    # one attribute: every text of the family (carried by some node there: hit; otherwise: miss)
    for ti, t in enumerate(texts):
        for a in ([attrs[(ti + shift) % len(attrs)]] if quick else attrs):
            yield 'one-attribute', [(kind, a, t)]
    # two or three attributes of one node, then one of the values replaced by its most similar twins
    nodes = list(idx.nodes[kind])
    picks = rnd.sample(nodes, min(len(nodes), 2 if quick else 8))
    for nd in picks:
        have = [a for a in attrs if nd['attrs'][a] is not None]
        rnd.shuffle(have)
        combo = sorted(have[:rnd.choice([2, 2, 3])])
        if len(combo) < 2:
            continue
        base = [(kind, a, nd['attrs'][a]) for a in combo]
        yield 'all-of-one-node', base
        j = rnd.randrange(len(combo))
        for u in twins_of(base[j][2], texts)[:2 if quick else 5]:
            yield 'one-value-replaced-by-twin', base[:j] + [(kind, combo[j], u)] + base[j + 1:]


def chains(idx):
    """(document, top-level section, property) triples related by direct containment."""
    out = []
    for p in idx.nodes['Prop']:
        s = idx.by_uri[p['parent']]
        if s['top']:
            out.append({'Doc': idx.by_uri[s['parent']], 'Sec': s, 'Prop': p})
    return out


def gen_text_cross(idx, texts, rnd, quick):
    """Cross-kind queries of the value-text dimension, one or two attributes per kind: (variant, pairs)."""
    all_chains = chains(idx)
    for ch in rnd.sample(all_chains, min(len(all_chains), 3 if quick else 10)):
        kinds = rnd.choice([('Doc', 'Sec'), ('Sec', 'Prop'), ('Doc', 'Sec', 'Prop')])
        base = []
        for k in kinds:
            have = [a for a in TEXT_ATTRS[k] if ch[k]['attrs'][a] is not None]
            rnd.shuffle(have)
            base += [(k, a, ch[k]['attrs'][a]) for a in sorted(have[:rnd.choice([1, 1, 2])])]
        yield 'related', base
        j = rnd.randrange(len(base))
        for u in twins_of(base[j][2], texts)[:1 if quick else 3]:
            yield 'one-value-replaced-by-twin', base[:j] + [(base[j][0], base[j][1], u)] + base[j + 1:]


def text_sets(tier, seed):
    """-> (family name, all texts of the family, documents carrying the 'present' texts, the family's random source)"""
    for name, present, absent in TEXT_FAMILIES:
        rnd = random.Random('text-%s-%d' % (name, seed))
        yield name, list(present) + list(absent), text_docs(present, rnd), rnd


# ---------------------------------------------------------------------------------------------
# value-form dimension: non-text attributes and values in all the forms their content can take
# ---------------------------------------------------------------------------------------------

INF = float('inf')
NAN = float('nan')

# (family, slot, content carried by the documents, request texts that no document carries).
# slot 'uncertainty' / 'date': content of Property.uncertainty / Document.date (a text is handed over as text);
# slot 'value': (dtype, values) of Properties. Request texts are free of , ( ) : and double quote.
FORM_FAMILIES = [
    ('uncertainty-exponent-notation', 'uncertainty',
     [1e-05, 2.5e16, 1e16, 0.0001, 9.9e-05, 1.2345678901234568e17, 5e-324, 1.7976931348623157e308, 0.5, 1e22, 12,
      9999999999999998.0, 1.5e-07],
     ['0.00001', '1E-05', '1e-5', '1.0e-05', '2.5e16', '25000000000000000.0', '10000000000000000.0', '1e16', '1e22',
      '5e-01', '1.2e+01']),
    ('uncertainty-zero-inf-nan', 'uncertainty',
     [0.0, -0.0, 0, INF, -INF, NAN, 1, 1.0],
     ['+0.0', '-0', 'INF', 'NaN', 'Infinity', '+inf', '0.', '00', '-1']),
    ('uncertainty-int-or-float', 'uncertainty',
     [3, 3.0, 10 ** 30, 1e30, -2, -2.0, 2 ** 63, 123456789012345678, 100, 100.0, 2 ** 53 + 1, float(2 ** 53)],
     ['3.00', '+3', '03', '3.', '1' + '0' * 29 + '1', '-2.00', '1e+2', '2', '9223372036854775807']),
    ('uncertainty-as-text', 'uncertainty',
     ['0.5', 0.5, '+1', 1, '007', 7, ' 1 ', '1e-05', 1e-05, '.5', '5.', 5.0, 'n.a.', '1 ', '1E3', 1000.0, '0x10',
      '1_0', '١'],
     ['0.50', ' 1', '+1.0', '7.0', '1  ', '5', 'N.A.', '16', '10', '1e3']),
    ('date-extremes', 'date',
     [dt.date.min, dt.date.max, dt.date(2020, 5, 17), dt.date(2020, 2, 29), dt.date(1999, 12, 31),
      dt.date(2000, 1, 1), '2020-05-18', dt.date(1970, 1, 1), dt.date(999, 9, 9)],
     ['2020-5-17', '20200517', '0001-01-02', '2020-05-17 ', '17.05.2020', '1-01-01', '2020-05-17T00', '10000-01-01',
      '999-09-09', '2020-05-19', '9999-12-30']),
    ('int-values', 'value',
     [('int', [1]), ('int', [0]), ('int', [-3, 7]), ('int', [10 ** 12]), ('int', [10 ** 30]), ('int', [1, 2, 3]),
      ('int', [2 ** 63, -2 ** 63]), ('float', [1.0]), ('float', [7.0, -3.0]), ('boolean', [True]),
      ('string', ['1']), ('string', ['01', ' 1'])],
     ['+1', '1.00', '-0', '1 ', '00', '1000000000000.0', '8', '1e+30', '1e12']),
    ('float-values', 'value',
     [('float', [1.5]), ('float', [0.0]), ('float', [-0.0]), ('float', [1e-09]), ('float', [1e-05, 2.5e16]),
      ('float', [0.30000000000000004, -2.25]), ('float', [3.0]), ('int', [3]), ('float', [INF, -INF]),
      ('float', [NAN]), ('float', [1e16, 1e22, 0.0001]), ('string', ['1e-05']), ('string', ['inf']),
      ('float', [5e-324, 1.7976931348623157e308])],
     ['1.50', '1e-9', '0.000000001', '0.3', '-0', '.5', '1E-05', '2.5e16', '1e-5', 'INF', 'NaN', '+inf',
      '10000000000000000.0']),
    ('boolean-values', 'value',
     [('boolean', [True]), ('boolean', [False]), ('boolean', [True, False]), ('boolean', [False, False]),
      ('int', [1]), ('int', [0]), ('string', ['true']), ('string', ['True']), ('string', ['yes', 'no']),
      ('string', ['f'])],
     ['TRUE', 'False', 'FALSE', 'T', 'y', 'on', 't', 'tru']),
    ('date-values', 'value',
     [('date', [dt.date.min]), ('date', [dt.date.max]), ('date', [dt.date(2020, 1, 2)]),
      ('date', [dt.date(1999, 12, 31), dt.date(2000, 1, 1)]), ('date', [dt.date(2020, 2, 29)]),
      ('datetime', [dt.datetime(2020, 1, 2, 3, 4, 5)]), ('datetime', [dt.datetime.min]),
      ('datetime', [dt.datetime.max.replace(microsecond=0)]), ('time', [dt.time(0, 0, 0)]),
      ('time', [dt.time(23, 59, 59)]), ('string', ['2020-01-02']), ('string', ['2020-01-02T03'])],
     ['2020-1-2', '20200102', '0001-01-02', '2020-01-02T', '9999-12-30', '2020-01-02 ', '02.01.2020']),
]

# labels of a requested non-text content, most unusual first
FORM_FEATURES = ['surrounding-blanks', 'exponent-notation', 'inf-or-nan', 'signed-zero', 'explicit-plus-sign',
                 'leading-zeros', 'very-large-integer', 'integer-valued-decimal', 'boolean-spelling',
                 'date-extreme', 'date-like', 'decimal', 'integer', 'text']
BOOL_WORDS = {'true', 'false', 't', 'f', 'yes', 'no', 'y', 'n', 'on', 'off', 'tru'}


def form_label(t):
    """What kind of spelling the request text t is (syntactic, independent of any document)."""
    s = t.strip()
    if t != s or not s:
        return 'surrounding-blanks'
    low = s.lower()
    if low.lstrip('+-') in ('inf', 'infinity', 'nan'):
        return 'inf-or-nan'
    if re.fullmatch(r'[+-]?(\d+\.?\d*|\.\d+)[eE][+-]?\d+', s):
        return 'exponent-notation'
    if re.fullmatch(r'[+-](0+\.?0*|\.0+)', s):
        return 'signed-zero'
    if re.fullmatch(r'\+(\d+\.?\d*|\.\d+)', s):
        return 'explicit-plus-sign'
    if re.fullmatch(r'-?0\d+(\.\d*)?', s):
        return 'leading-zeros'
    if re.fullmatch(r'-?\d{19,}', s):
        return 'very-large-integer'
    if re.fullmatch(r'-?\d+\.0*', s):
        return 'integer-valued-decimal'
    if re.fullmatch(r'-?\d+', s):
        return 'integer'
    if re.fullmatch(r'-?(\d+\.\d+|\.\d+)', s):
        return 'decimal'
    if low in BOOL_WORDS:
        return 'boolean-spelling'
    m = re.match(r'(\d{1,5})-\d{1,2}-\d{1,2}', s)
    if m:
        return 'date-extreme' if int(m.group(1)) in (1, 9999) else 'date-like'
    return 'text'


def form_feature(pairs):
    """Stable label of a query of the value-form dimension: slot and spelling of its most unusual non-text
    request; 'native-<type>:' in front when that request is handed over as a Python object."""
    best = None
    for k, a, v in pairs:
        if a not in ('uncertainty', 'date', 'value', 'id'):
            continue
        for x in (v if isinstance(v, tuple) else (v,)):
            lab = 'id' if a == 'id' else form_label(x)
            rank = len(FORM_FEATURES) if a == 'id' else FORM_FEATURES.index(lab)
            nat = 'native-%s:' % type(x.native).__name__ if isinstance(x, NativeReq) else ''
            cand = (rank, '%s:%s%s' % (a, nat, lab))
            if best is None or cand < best:
                best = cand
    return best[1] if best else 'text-attributes-only'


def same_number(a, b):
    try:
        fa, fb = float(a), float(b)
    except ValueError:
        return False
    return fa == fb or (fa != fa and fb != fb)


def form_twins(v, texts):
    """The other request texts of the family, the most easily confused first: other spellings of the same number,
    blank/case variants, texts containing each other."""
    def rank(u):
        if same_number(u, v):
            return 0
        if u.strip().casefold() == v.strip().casefold():
            return 1
        if u.strip() in v or v.strip() in u:
            return 2
        return 3
    return sorted((u for u in texts if u != v), key=lambda u: (rank(u), texts.index(u)))


FORM_NAMES = ['a', 'ab', 'p', 'Contrast']
FORM_UNITS = [None, 'mV', 's', '%']


def form_docs(slot, present, rnd):
    """Small document set carrying every content of the family at least once, most of them twice (at different
    places), next to objects without such content."""
    docs = []
    with h.quiet():
        if slot == 'date':
            for i, d in enumerate(list(present) + [None, present[2]]):
                doc = odml.Document(author=['me', 'Ann B.', None][i % 3], version=['1.0', 'v2'][i % 2], date=d)
                sec = odml.Section(name=['rec', 'stim'][(i // 2) % 2], type='t', parent=doc)
                odml.Property(name='p', values=[i], parent=sec)
                if i % 3 == 0:
                    odml.Section(name='stim2', type='t', parent=doc)
                docs.append(doc)
            return docs
        carriers = list(present) + list(present[::2]) + [None, None]
        rnd.shuffle(carriers)
        secs = []
        for di in range(2):
            doc = odml.Document(author=['me', 'Ann B.'][di], version='1.0')
            for si in range(2):
                sec = odml.Section(name=['rec', 'stim'][si], type=['t', 'setup/daq'][di], parent=doc)
                secs.append(sec)
                if si == di:
                    secs.append(odml.Section(name='sub', type='t', parent=sec))
            docs.append(doc)
        for i, c in enumerate(carriers):
            sec = secs[i % len(secs)]
            name = FORM_NAMES[(i // len(secs) + i) % len(FORM_NAMES)]
            while name in [p._name for p in list.__iter__(sec._props)]:
                name += 'x'
            unit = FORM_UNITS[(i + i // 4) % len(FORM_UNITS)]
            if slot == 'uncertainty':
                # handed to the constructor as it is; every second text goes through the setter as well, which
                # may turn it into a number or refuse it
                prop = odml.Property(name=name, values=[1.5], parent=sec, unit=unit, uncertainty=c)
                if isinstance(c, str) and i % 2 == 1:
                    try:
                        prop.uncertainty = c
                    except ValueError:
                        pass
            else:
                if c is None:
                    odml.Property(name=name, parent=sec, unit=unit)
                else:
                    odml.Property(name=name, dtype=c[0], values=list(c[1]), parent=sec, unit=unit,
                                  uncertainty=[None, 0.5][i % 2])
    return docs


def graph_forms(g, uri, pred):
    from rdflib import URIRef
    return sorted(str(o) for o in g.objects(URIRef(uri), URIRef(NS + pred)))


def graph_values(g, uri):
    from rdflib import URIRef, RDF
    out = []
    for seq in g.objects(URIRef(uri), URIRef(NS + 'hasValue')):
        for pred, obj in g.predicate_objects(seq):
            m = re.match(re.escape(str(RDF)) + r'_(\d+)$', str(pred))
            if m:
                out.append((int(m.group(1)), str(obj)))
    return [t for _, t in sorted(out)]


def adopt_exported_forms(idx, g):
    """The search is about the export as it is: where the lexical form found in the graph (read with rdflib, not
    with the library) is not the one as_text expects, the graph's form is what a node 'carries'. -> number of
    such differences (they concern the export, another property, and are not flagged here)."""
    n = 0
    for kind, attr in (('Prop', 'uncertainty'), ('Doc', 'date')):
        for nd in idx.nodes[kind]:
            have = graph_forms(g, nd['uri'], ATTRS[kind][attr][1])
            want = [] if nd['attrs'][attr] in (None, '') else [nd['attrs'][attr]]
            if have != want and len(have) <= 1:
                nd['attrs'][attr] = have[0] if have else None
                n += 1
    for nd in idx.nodes['Prop']:
        have = graph_values(g, nd['uri'])
        if sorted(have) != sorted(nd['vlex']):
            nd['vlex'] = have
            n += 1
    return n


def form_sets(tier, seed):
    """-> (family, slot, documents, the family's random source, texts no document is meant to carry)"""
    for name, slot, present, absent in FORM_FAMILIES:
        rnd = random.Random('form-%s-%d' % (name, seed))
        yield name, slot, form_docs(slot, present, rnd), rnd, list(absent) + [x for x in present
                                                                              if isinstance(x, str)]


def form_requests(idx, slot, extra):
    """-> (request texts: every exported form of the slot's content in the documents + the extra texts; native
    requests: the Python objects carrying that content), both restricted to what a query can express."""
    texts, natives = [], []

    def add(native, text):
        if text is None or not usable_q(text) or '\n' in text or '\\' in text:
            return
        if text not in texts:
            texts.append(text)
        if not isinstance(native, str) and as_text(native) == text and \
                not any(type(x.native) is type(native) and x == text for x in natives):
            natives.append(NativeReq(native))
    if slot == 'value':
        for nd in idx.nodes['Prop']:
            if len(nd['vlex']) == len(nd['values']):
                for native, text in zip(nd['values'], nd['vlex']):
                    add(native, text)
    else:
        kind = 'Doc' if slot == 'date' else 'Prop'
        for nd in idx.nodes[kind]:
            add(nd['native'][slot], nd['attrs'][slot])
    for t in extra:
        if usable_q(t) and t not in texts:
            texts.append(t)
    return texts, natives


def gen_form_queries(idx, slot, texts, natives, rnd, quick):
    """Queries of the value-form dimension: (variant, pairs)."""
    kind = 'Doc' if slot == 'date' else 'Prop'

    def req(t):
        return (kind, slot, (t,) if slot == 'value' else t)
    carried = {t for nd in idx.nodes[kind] for t in (nd['vlex'] if slot == 'value' else [nd['attrs'][slot]])}
    for t in texts:
        yield ('carried-form' if t in carried else 'form-no-node-carries'), [req(t)]
    for t in natives:
        yield 'native-object', [req(t)]
    # with further attributes of the same node; then the form replaced by its most similar twins
    others = {'Doc': ['author', 'version'], 'Prop': ['name', 'unit', 'dtype']}[kind]
    nodes = [nd for nd in idx.nodes[kind] if (nd['vlex'] if slot == 'value' else nd['attrs'][slot])]
    nodes = [nd for nd in nodes if all(t in texts for t in (nd['vlex'] if slot == 'value' else [nd['attrs'][slot]]))]
    for nd in rnd.sample(nodes, min(len(nodes), 2 if quick else 10)):
        have = [a for a in others if nd['attrs'][a] is not None]
        rnd.shuffle(have)
        base = [(kind, a, nd['attrs'][a]) for a in sorted(have[:rnd.choice([1, 1, 2])])]
        t = rnd.choice(nd['vlex']) if slot == 'value' else nd['attrs'][slot]
        yield 'all-of-one-node', base + [req(t)]
        for u in form_twins(t, texts)[:1 if quick else 3]:
            yield 'form-replaced-by-twin', base + [req(u)]
        nat = [x for x in natives if x == t]
        if nat:
            yield 'native-object', base + [req(nat[0])]
    if slot == 'value':
        # several requested values: all of one Property (hit), one of them from another Property
        multi = [nd for nd in nodes if len(set(nd['vlex'])) > 1 and all(x == x.strip() for x in nd['vlex'])]
        for nd in multi[:2 if quick else 8]:
            two = tuple(sorted(set(nd['vlex']))[:2])
            yield 'all-of-one-node', [(kind, slot, two)]
            yield 'all-of-one-node', [(kind, slot, two[::-1])]
            stranger = [t for t in texts if t not in nd['vlex'] and t == t.strip()]
            if stranger:
                yield 'one-value-of-another-node', [(kind, slot, (two[0], rnd.choice(stranger)))]
    # across kinds, related by direct containment
    if slot == 'date':
        for nd in rnd.sample(nodes, min(len(nodes), 2 if quick else 6)):
            mine = [s for s in idx.nodes['Sec'] if s['parent'] == nd['uri']]
            s = rnd.choice(mine)
            t = nd['attrs'][slot]
            yield 'related', [req(t), ('Sec', 'name', s['attrs']['name'])]
            yield 'form-replaced-by-twin', [req(form_twins(t, texts)[0]), ('Sec', 'name', s['attrs']['name'])]
    else:
        for nd in rnd.sample(nodes, min(len(nodes), 2 if quick else 6)):
            s = idx.by_uri[nd['parent']]
            t = rnd.choice(nd['vlex']) if slot == 'value' else nd['attrs'][slot]
            pairs = [('Sec', 'name', s['attrs']['name']), req(t)]
            if s['top'] and rnd.random() < 0.5:
                pairs.insert(0, ('Doc', 'author', idx.by_uri[s['parent']]['attrs']['author']))
            yield 'related', pairs
            yield 'form-replaced-by-twin', pairs[:-1] + [req(form_twins(t, texts)[0])]


def run_queries(tier, seed):
    col = h.Collector('C20.queries',
                      rule='document sets of 1-3 generated documents (<=3 levels, shared attribute values; every '
                           '3rd set has a harness document, every 4th has values with backslash/newline) exported '
                           'without sub-classing; single-kind queries: all 1..3-subsets of the literal attributes of '
                           'Document/Section/Property (at most one of id/date/uncertainty) x {hit, mixed, absent; '
                           'single attribute also: the hit value with a blank added / in other letter case} '
                           'value choices; cross-kind queries Doc+Sec, Sec+Prop, Doc+Sec+Prop x {related, nested, '
                           'unrelated, absent}; each x {string, dict}; class = (kinds, attributes, variant, way, '
                           'min(#expected rows,2)). Value-text dimension: per family of confusable texts (%s) one '
                           'document per text, the texts rotating through author/version, Section name/type/'
                           'definition/reference, Property name/definition/unit/reference/value_origin; queries: '
                           'every text (carried or absent twin) x attribute (quick: one attribute per text and '
                           'kind), 2-3 attributes of a node and the same with one value replaced by its most '
                           'similar twins, cross-kind chains likewise; x {string with short or long kind word, '
                           'dict}; class = (family, text label, kinds, attributes, variant, way, min(#rows,2)). '
                           'Value-form dimension: per family of non-text content (%s) one document set carrying '
                           'every content at least once; a node carries the lexical form of its content in the '
                           'export; queries: every carried form and every other spelling of the family as text '
                           '(quick: alternately string / dict), every carried content as Python object in the '
                           'dict, 1-2 further attributes of a node plus the form / its most similar other '
                           'spellings, two values of one Property / one of another, Sec+Prop, Doc+Sec+Prop, '
                           'Doc+Sec chains; class = (family, slot:spelling label, kinds, attributes, variant, '
                           'way, min(#rows,2))'
                           % (', '.join(f[0] for f in TEXT_FAMILIES), ', '.join(f[0] for f in FORM_FAMILIES)),
                      exhaustive=False)
    quick = tier == 'quick'
    n_sets = 5 if quick else 24
    rnd = random.Random(seed + 101)
    counts = {}

    def fail(check, cls, witness, detail):
        key = (check, tuple(sorted(cls.items())))
        counts[key] = counts.get(key, 0) + 1
        if counts[key] <= 5:
            col.fail(check=check, cls=cls, witness=witness, detail=detail)

    def check_query(set_id, n_docs, g, idx, variant, pairs, fam=None, fam_name=None, long_words=False,
                    feature=None, ways=('str', 'dict')):
        expected = idx.evaluate(pairs)
        if expected is None:
            return
        kinds = '+'.join(kk for kk in KINDS if any(x[0] == kk for x in pairs))
        attrs = ','.join('%s.%s' % (x[0], x[1]) for x in pairs)
        feature = feature or feature_of(pairs, fam)
        for way in ways:
            if way == 'str' and any('\n' in v for _, _, v in pairs):
                continue    # the one-line query syntax is not claimed to carry line breaks
            if way == 'str' and has_native(pairs):
                continue    # a Python object can only be handed over in the dictionary
            qs = q_string(pairs, long_words)
            if fam_name is None:
                col.case(cls_key=(kinds, attrs, variant, way, min(len(expected), 2)), sample='%s [%s]' % (qs, way))
            else:
                col.case(cls_key=(fam_name, feature, kinds, attrs, variant, way, min(len(expected), 2)),
                         sample='%r [%s]' % (qs, way))
            wit = {'set': set_id, 'tier': tier, 'seed': seed, 'query': qs if way == 'str' else
                   repr(q_dict(pairs)), 'way': way, 'n_docs': n_docs}
            st, rows = run_library(g, pairs, way, long_words)
            if st == 'exc':
                fail('C20.queries/never-raises', {'clause': 'never-raises', 'feature': feature}, wit,
                     'building/running the query raised %s: %s' % (type(rows).__name__, str(rows)[:200]))
                continue
            missing = expected - rows
            extra = rows - expected
            if missing:
                fail('C20.queries/none-missing', {'clause': 'none-missing', 'feature': feature}, wit,
                     '%d of %d nodes carrying all requested values %r not returned, e.g. %r; attributes of it: %r'
                     % (len(missing), len(expected), [v for _, _, v in pairs], sorted(missing)[0],
                        idx.by_uri[sorted(missing)[0][-1]]['attrs']))
            if extra:
                bad = sorted(extra)[0]
                fail('C20.queries/none-extra', {'clause': 'none-extra', 'feature': feature}, wit,
                     '%d returned rows do not carry all requested values %r / are not directly contained, e.g. %r '
                     'with attributes %r' % (len(extra), [v for _, _, v in pairs], bad,
                                             idx.by_uri[bad[-1]]['attrs'] if bad[-1] in idx.by_uri else None))

    for k, docs in doc_sets(tier, seed, n_sets):
        g = export(docs)
        if g is None:
            fail('C20.queries/export', {'clause': 'export', 'feature': 'raises'}, {'set': k}, 'export raised')
            continue
        idx = Index(docs)
        queries = []
        for kind in KINDS:
            max_n = 3
            if quick and kind == 'Prop':
                max_n = 2
            queries += list(gen_single_kind(idx, kind, rnd, max_n, 1 if quick else 2, thorough=not quick))
            if quick and kind == 'Prop':
                trip = [c for c in itertools.combinations(list(ATTRS['Prop']), 3)]
                for combo in rnd.sample(trip, 8):
                    if sum(1 for a in combo if a in SPECIAL) > 1:
                        continue
                    full = [nd for nd in idx.nodes['Prop'] if all(usable_q(nd['attrs'][a]) for a in combo)]
                    if full:
                        nd = rnd.choice(full)
                        queries.append(('hit', [('Prop', a, nd['attrs'][a]) for a in combo]))
        queries += gen_cross_kind(idx, rnd, 2, 30 if quick else 120)
        for variant, pairs in queries:
            esc = any('\\' in v or '\n' in v for _, _, v in pairs)
            if esc and any(a in SPECIAL for _, a, _ in pairs):
                continue        # keep failure classes apart: escaping is exercised with plain attributes
            check_query(k, len(docs), g, idx, variant, pairs)
        # ---- property values (documented 'value:[..]' parameter) on string valued properties
        sprops = [p for p in idx.nodes['Prop'] if p['dtype'] == 'string' and p['values']
                  and isinstance(p['values'][0], str) and usable_q(p['values'][0]) and '\n' not in p['values'][0]
                  and usable_q(p['attrs']['name'])]
        for p in sprops[:2 if quick else 6]:
            name = p['attrs']['name']
            want = {(q['uri'],) for q in idx.nodes['Prop']
                    if q['attrs']['name'] == name and p['values'][0] in q['values']}
            for way in ('str', 'dict'):
                col.case(cls_key=('Prop', 'Prop.name,Prop.value', 'hit', way, min(len(want), 2)),
                         sample='prop(name:%s, value:[%s]) [%s]' % (name, p['values'][0], way))

                def go():
                    if way == 'str':
                        q = QueryCreator().get_query('prop(name:%s, value:[%s])' % (name, p['values'][0]),
                                                     QueryParser())
                    else:
                        q = QueryCreator({'Prop': [('name', name), ('value', [p['values'][0]])]}).get_query()
                    return {(str(r.asdict().get('p')),) for r in g.query(q)}
                st, rows = h.call(go)
                wit = {'set': k, 'tier': tier, 'seed': seed, 'way': way,
                       'query': 'prop(name:%s, value:[%s])' % (name, p['values'][0])}
                if st == 'exc':
                    fail('C20.queries/never-raises', {'clause': 'never-raises', 'feature': 'property-values'}, wit,
                         'raised %r' % (rows,))
                elif rows != want:
                    fail('C20.queries/exact-nodes', {'clause': 'exact-nodes', 'feature': 'property-values'}, wit,
                         'properties named %r having value %r: expected %d, returned %d' % (
                             name, p['values'][0], len(want), len(rows)))

    # ---- value-text dimension
    for f, (fam_name, texts, docs, trnd) in enumerate(text_sets(tier, seed)):
        g = export(docs)
        if g is None:
            fail('C20.queries/export', {'clause': 'export', 'feature': 'raises'}, {'set': 'text:' + fam_name},
                 'export raised')
            continue
        idx = Index(docs)
        queries = []
        for ki, kind in enumerate(KINDS):
            queries += list(gen_text_single(idx, kind, texts, trnd, quick, seed + ki + f))
        queries += list(gen_text_cross(idx, texts, trnd, quick))
        for qi, (variant, pairs) in enumerate(queries):
            check_query('text:' + fam_name, len(docs), g, idx, variant, pairs, fam=texts, fam_name=fam_name,
                        long_words=(qi % 3 == 2))

    # ---- value-form dimension
    adopted = 0
    for f, (fam_name, slot, docs, frnd, extra) in enumerate(form_sets(tier, seed)):
        g = export(docs)
        if g is None:
            fail('C20.queries/export', {'clause': 'export', 'feature': 'raises'}, {'set': 'form:' + fam_name},
                 'export raised')
            continue
        idx = Index(docs)
        adopted += adopt_exported_forms(idx, g)
        texts, natives = form_requests(idx, slot, extra)
        for qi, (variant, pairs) in enumerate(gen_form_queries(idx, slot, texts, natives, frnd, quick)):
            ways = ('str', 'dict')
            if quick and len(pairs) == 1:
                ways = ways[(qi + seed) % 2:][:1]       # quick: a single request alternately as string / dictionary
            if quick and variant == 'native-object' and len(pairs) == 1 and (qi + seed) % 2 and \
                    form_label(pairs[0][2] if slot != 'value' else pairs[0][2][0]) in ('integer', 'decimal', 'date-like'):
                continue                                # quick: half of the plainly spelled native objects
            check_query('form:' + fam_name, len(docs), g, idx, variant, pairs, fam_name=fam_name,
                        long_words=(qi % 4 == 3), feature=form_feature(pairs), ways=ways)
    col.rule += ' [value-form sets: %d exported forms differ from the expected lexical form and were adopted]' % adopted
    return col.result()


# ---------------------------------------------------------------------------------------------
# fuzzy finder
# ---------------------------------------------------------------------------------------------

PRED2ATTR = {(KIND_VAR[k], pred): (k, a) for k in KINDS for a, (_, pred) in ATTRS[k].items()}
LINE = re.compile(r'^\?([dsp]) odml:(\w+) "(.*)" \.$')
STRUCT = {'?d rdf:type odml:Document .', '?d odml:hasSection ?s .', '?s rdf:type odml:Section .',
          '?s odml:hasProperty ?p .', '?p rdf:type odml:Property .'}
LABEL = {'Document': 'd', 'Section': 's', 'Property': 'p', 'Bag URI': 'v'}
# attributes exported as typed literals are compared by lexical form, the id is part of the node name, the values
# are the members of a sequence node
BIND = re.compile(r'^\?([dsp]) odml:(\w+) \?(\w+) \.$')
FILT = re.compile(r'^FILTER \(str\(\?(\w+)\) = "(.*)"\) \.$')
MEMB = re.compile(r'^\?v \?member_(\d+) \?value_(\d+) \.$')
VALUE_STRUCT = {'?p odml:hasValue ?v .', '?v rdf:type rdf:Seq .'}


ECHAR = {'t': '\t', 'n': '\n', 'r': '\r', 'b': '\b', 'f': '\f', '"': '"', "'": "'", '\\': '\\'}


def sparql_unescape(text):
    """Content of a SPARQL string literal -> the text it denotes (ECHAR and codepoint escapes of the SPARQL
    grammar; every \\uXXXX stands for itself, as a SPARQL processor reads it)."""
    def one(m):
        e = m.group(1)
        if len(e) > 1:
            return chr(int(e[1:], 16))
        return ECHAR.get(e, m.group(0))
    return re.sub(r'\\(u[0-9a-fA-F]{4}|U[0-9a-fA-F]{8}|.)', one, text)


def parse_output(out):
    """-> list of (frozenset of (kind, attr, value), set of row tuples over the kinds of the combination) in
    reported order, or raises ValueError when the text is not of the documented shape."""
    blocks = out.split('SELECT * WHERE {\n')
    if blocks[0] != '':
        raise ValueError('text before first query: %r' % blocks[0][:80])
    res = []
    for b in blocks[1:]:
        if '}\n' not in b:
            raise ValueError('unterminated query')
        qtext, rest = b.split('}\n', 1)
        pairs = set()
        used = set()
        helpers, vals = {}, {}
        for line in qtext.split('\n'):         # not splitlines(): a requested text may hold other separators
            if line == '':
                continue
            if line in STRUCT:
                used |= set(re.findall(r'\?([dsp]) ', line))
                continue
            if line in VALUE_STRUCT:
                used |= {'p', 'v'}
                continue
            if MEMB.match(line):
                continue
            m = BIND.match(line)
            if m and (m.group(1), m.group(2)) in PRED2ATTR:
                helpers[m.group(3)] = PRED2ATTR[(m.group(1), m.group(2))]
                used.add(m.group(1))
                continue
            m = FILT.match(line)
            if m:
                var, text = m.group(1), sparql_unescape(m.group(2))
                if var in helpers:
                    pairs.add(helpers[var] + (text,))
                elif var in ('d', 's', 'p') and text.startswith(NS):
                    pairs.add(({v: k for k, v in KIND_VAR.items()}[var], 'id', text[len(NS):]))
                    used.add(var)
                elif re.match(r'value_\d+$', var):
                    vals[int(var[6:])] = text
                else:
                    raise ValueError('unexpected query line %r' % line)
                continue
            m = LINE.match(line)
            if not m or (m.group(1), m.group(2)) not in PRED2ATTR:
                raise ValueError('unexpected query line %r' % line)
            k, a = PRED2ATTR[(m.group(1), m.group(2))]
            pairs.add((k, a, sparql_unescape(m.group(3))))
            used.add(m.group(1))
        if vals:
            pairs.add(('Prop', 'value', tuple(vals[i] for i in sorted(vals))))
        variables = [v for v in 'dspv' if v in used]
        lines = [x for x in rest.split('\n') if x]
        if len(lines) % len(variables):
            raise ValueError('row lines %d not a multiple of %d variables' % (len(lines), len(variables)))
        kinds = [k for k in KINDS if any(kk == k for kk, _, _ in pairs)]
        rows = set()
        for i in range(0, len(lines), len(variables)):
            rec = {}
            for ln in lines[i:i + len(variables)]:
                lab, _, uri = ln.partition(': ')
                if lab not in LABEL or LABEL[lab] in rec:
                    raise ValueError('unexpected row line %r' % ln)
                rec[LABEL[lab]] = uri
            rows.add(tuple(rec.get(KIND_VAR[k]) for k in kinds))
        res.append((frozenset(pairs), rows))
    return res


def subsets(pairs):
    for n in range(len(pairs), 0, -1):
        for c in itertools.combinations(pairs, n):
            yield c


def combo_feature(combo, fam=None):
    f = feature_of(combo, fam)
    if f in TEXT_FEATURES[:3]:
        return f
    names = {}
    for k, a, _ in combo:
        names.setdefault(a, set()).add(k)
    if any(len(ks) > 1 for ks in names.values()):
        return 'same-attribute-name-in-several-kinds'
    return f


def check_find(idx, pairs, out, fam=None, featfn=None):
    """Yield (clause, feature, detail) comparing a find() output with the expected report for `pairs`."""
    try:
        reported = parse_output(out)
    except ValueError as exc:
        yield 'output-shape', 'unparsable', str(exc)
        return
    given = set(pairs)
    form_set = featfn is not None
    if featfn is None:
        def featfn(combo):
            return combo_feature(combo, fam)
    sizes = [len(c) for c, _ in reported]
    if sizes != sorted(sizes, reverse=True):
        yield 'most-specific-first', 'order', 'sizes of reported combinations in order: %r' % sizes
    rep = {}
    for c, rows in reported:
        if not c <= given:
            how = 'spurious'
            for kk, a, v in c - given:
                near = [gv for gk, ga, gv in given if (gk, ga) == (kk, a) and isinstance(gv, str)
                        and isinstance(v, str)]
                if any(gv.strip() == v.strip() for gv in near):
                    how = 'given-value-altered(whitespace)'
                elif any(gv.casefold() == v.casefold() for gv in near):
                    how = 'given-value-altered(letter-case)'
            if form_set and how == 'spurious':
                how = 'spurious/' + featfn(sorted(given))
            yield 'only-given-combinations', how, 'reported combination %r is not made of the given pairs %r' % (
                sorted(c), sorted(given))
            continue
        rep.setdefault(c, set()).update(rows)
        if not rows:
            yield 'no-combination-without-hits', 'empty-block', 'combination %r reported without rows' % (sorted(c),)
    for combo in subsets(sorted(given)):
        expected = idx.evaluate(combo)
        if expected is None:
            continue
        key = frozenset(combo)
        if expected and key not in rep:
            yield 'every-combination-with-hits', featfn(combo), \
                'combination %r has %d hits but is not reported' % (sorted(combo), len(expected))
        elif not expected and key in rep:
            yield 'no-combination-without-hits', featfn(combo), \
                'combination %r has no hit but is reported with %r' % (sorted(combo), sorted(rep[key])[:2])
        elif expected and rep[key] != expected:
            yield 'combination-exact-nodes', featfn(combo), \
                'combination %r: expected %d rows, reported %d' % (sorted(combo), len(expected), len(rep[key]))


def fuzzy_string(attrs, terms):
    parts = []
    for k in KINDS:
        mine = [a for kk, a in attrs if kk == k]
        if mine:
            parts.append('%s(%s)' % (KIND_WORD[k], ', '.join(mine)))
    return 'FIND %s HAVING %s' % (' '.join(parts), ', '.join(terms))


def fuzzy_dict(attrs, terms):
    d = {}
    for k, a in attrs:
        d.setdefault(k, []).append(a)
    d['Search'] = [native_of(t) for t in terms]
    return d


def run_fuzzy(tier, seed):
    col = h.Collector('C20.fuzzy',
                      rule='document sets as in C20.queries; match mode: 1..4 pairs over plain attributes of one, two '
                           'adjacent or all three kinds (values from one containment chain, some replaced by an '
                           'absent value); fuzzy mode: 1..3 attributes x 1..2 terms; each x {string, dict}; all '
                           'non-empty sub-combinations evaluated on the source documents; plus every attribute '
                           'name of the RDF model once per entry point for "never raises"; class = (mode, way, kinds, '
                           'attributes, #pairs, min(#combinations with hits,3)). Value-text dimension (document sets '
                           'of the text families of C20.queries): match mode with 1-3 pairs of a containment chain, '
                           'one value replaced by its most similar twin in every second search; fuzzy mode with '
                           '1-2 attributes and a text of the family alone or together with its most similar twin '
                           '(thorough: every text); class additionally (family, text label). Value-form dimension '
                           '(document sets of the form families of C20.queries): match mode with the form (text, or '
                           'Python object in the dict) alone / with a text attribute / the id of a node carrying '
                           'it / the name of the related Section, also as value:[..] (quick: every 8th request); '
                           'fuzzy mode with uncertainty or date as the only attribute and every form as the only '
                           'term (quick: alternately string / dict), and with a second attribute (name/author, '
                           'Section name, id) and a second term (a text of a carrying node, its id, the most '
                           'similar other spelling) (quick: every 8th); class additionally (family, slot:spelling '
                           'label). A fuzzy search given '
                           'as STRING is only evaluated for terms without leading/trailing whitespace (the term '
                           'list "a, b" cannot express them)',
                      exhaustive=False)
    quick = tier == 'quick'
    n_sets = 4 if quick else 16
    per_set = 12 if quick else 40
    rnd = random.Random(seed + 202)
    counts = {}

    def fail(check, cls, witness, detail):
        key = (check, tuple(sorted(cls.items())))
        counts[key] = counts.get(key, 0) + 1
        if counts[key] <= 5:
            col.fail(check=check, cls=cls, witness=witness, detail=detail)

    plain = {k: [a for a in ATTRS[k] if a not in SPECIAL] for k in KINDS}

    def clean(v):
        return usable_q(v) and '\\' not in v and '\n' not in v

    def do_match(set_id, g, idx, pairs, fam=None, fam_name=None, long_words=False, featfn=None,
                 ways=('str', 'dict')):
        n_hits = sum(1 for c in subsets(pairs) if idx.evaluate(c))
        for way in ways:
            if way == 'str' and has_native(pairs):
                continue    # a Python object can only be handed over in the dictionary
            qs = q_string(pairs, long_words)
            key = ('match', way, tuple(sorted({x[0] for x in pairs})), tuple((x[0], x[1]) for x in pairs),
                   len(pairs), min(n_hits, 3))
            if fam_name is not None:
                key += (fam_name, featfn(pairs) if featfn else feature_of(pairs, fam))
            col.case(cls_key=key, sample='match %s [%s]' % (qs if fam is None else repr(qs), way))
            wit = {'set': set_id, 'tier': tier, 'seed': seed, 'mode': 'match', 'way': way,
                   'query': qs if way == 'str' else repr(q_dict(pairs))}
            if way == 'str':
                st, out = h.call(lambda: FuzzyFinder().find(mode='match', graph=g, q_str=qs))
            else:
                st, out = h.call(lambda: FuzzyFinder().find(mode='match', graph=g, q_params=q_dict(pairs)))
            if st == 'exc':
                fail('C20.fuzzy/never-raises', {'clause': 'never-raises',
                                                'feature': 'match' if featfn is None else 'match/' + featfn(pairs)},
                     wit, 'find raised %r' % (out,))
                continue
            seen = set()
            for clause, feature, detail in check_find(idx, pairs, out, fam, featfn):
                if (clause, feature) not in seen:
                    seen.add((clause, feature))
                    fail('C20.fuzzy/%s' % clause, {'clause': clause, 'feature': feature}, wit, detail)

    def do_fuzzy(set_id, g, idx, attrs, terms, fam=None, fam_name=None, featfn=None, ways=('str', 'dict')):
        pairs = sorted((kk, a, t) for kk, a in attrs for t in terms)
        n_hits = sum(1 for c in subsets(pairs) if idx.evaluate(c))
        for way in ways:
            if way == 'str' and any(t != t.strip() or not t.strip() for t in terms):
                continue    # not expressible: the terms of 'HAVING a, b' are separated by comma and blank
            if way == 'str' and has_native(pairs):
                continue
            key = ('fuzzy', way, tuple(sorted({x[0] for x in attrs})), tuple(attrs), len(pairs), min(n_hits, 3))
            if fam_name is not None:
                key += (fam_name, featfn(pairs) if featfn else feature_of(pairs, fam))
            fs = fuzzy_string(attrs, terms)
            col.case(cls_key=key, sample='%s [%s]' % (fs if fam is None else repr(fs), way))
            wit = {'set': set_id, 'tier': tier, 'seed': seed, 'mode': 'fuzzy', 'way': way,
                   'query': fs if way == 'str' else repr(fuzzy_dict(attrs, terms))}
            if way == 'str':
                st, out = h.call(lambda: FuzzyFinder().find(mode='fuzzy', graph=g, q_str=fs))
            else:
                st, out = h.call(lambda: FuzzyFinder().find(mode='fuzzy', graph=g,
                                                            q_params=fuzzy_dict(attrs, terms)))
            if st == 'exc':
                feat = 'fuzzy'
                if featfn is not None:
                    feat = 'fuzzy/' + featfn(pairs)
                    if len({type(native_of(t)) for t in terms}) > 1:
                        feat = 'fuzzy/terms-of-several-python-types'
                fail('C20.fuzzy/never-raises', {'clause': 'never-raises', 'feature': feat}, wit,
                     'find raised %r' % (out,))
                continue
            seen = set()
            for clause, feature, detail in check_find(idx, pairs, out, fam, featfn):
                if (clause, feature) not in seen:
                    seen.add((clause, feature))
                    fail('C20.fuzzy/%s' % clause, {'clause': clause, 'feature': feature}, wit, detail)

    # ---------------------------------------------------------------------- value-text dimension
    for f, (fam_name, texts, docs, trnd) in enumerate(text_sets(tier, seed)):
        g = export(docs)
        if g is None:
            continue
        idx = Index(docs)
        all_chains = chains(idx)
        for j in range(4 if quick else 14):
            ch = trnd.choice(all_chains)
            kinds = trnd.choice([('Sec',), ('Prop',), ('Doc', 'Sec'), ('Sec', 'Prop'), ('Doc', 'Sec', 'Prop')])
            cand = [(kk, a, ch[kk]['attrs'][a]) for kk in kinds for a in TEXT_ATTRS[kk]
                    if ch[kk]['attrs'][a] is not None]
            trnd.shuffle(cand)
            pairs = cand[:trnd.randint(1, 3)]
            if j % 2 == 1:
                i = trnd.randrange(len(pairs))
                pairs[i] = (pairs[i][0], pairs[i][1], twins_of(pairs[i][2], texts)[0])
            do_match('text:' + fam_name, g, idx, sorted(set(pairs)), fam=texts, fam_name=fam_name,
                     long_words=(j % 4 == 2))
        order = list(range(len(texts)))
        if quick:
            order = [(seed * 3 + f + i * 2) % len(texts) for i in range(3)]
        for j, ti in enumerate(order):
            kinds = trnd.choice([('Sec',), ('Prop',), ('Doc', 'Sec'), ('Sec', 'Prop')])
            attrs = []
            for kk in kinds:
                attrs += [(kk, a) for a in trnd.sample(TEXT_ATTRS[kk], trnd.choice([1, 1, 2]))]
            attrs = sorted(set(attrs))[:2]
            terms = [texts[ti]]
            if j % 2 == 0:
                # the most similar twin that can stand next to it in both parameter forms, else the most similar
                tw = twins_of(texts[ti], texts)
                ok = [u for u in tw if u == u.strip()] if texts[ti] == texts[ti].strip() else []
                terms.append((ok or tw)[0])
            do_fuzzy('text:' + fam_name, g, idx, attrs, terms, fam=texts, fam_name=fam_name)

    # ---------------------------------------------------------------------- value-form dimension
    for f, (fam_name, slot, docs, frnd, extra) in enumerate(form_sets(tier, seed)):
        g = export(docs)
        if g is None:
            continue
        idx = Index(docs)
        adopt_exported_forms(idx, g)
        texts, natives = form_requests(idx, slot, extra)
        kind = 'Doc' if slot == 'date' else 'Prop'
        second = 'author' if kind == 'Doc' else 'name'
        sid = 'form:' + fam_name

        def carriers(t):
            return [nd for nd in idx.nodes[kind]
                    if t in (nd['vlex'] if slot == 'value' else [nd['attrs'][slot]])] or idx.nodes[kind]

        def sec_of(nd):
            if kind == 'Prop':
                return idx.by_uri[nd['parent']]
            return frnd.choice([s for s in idx.nodes['Sec'] if s['parent'] == nd['uri']])
        reqs = list(texts) + list(natives)
        for j, t in enumerate(reqs):
            # ---- match mode: the form alone / with a text attribute or the id of a node carrying it / with the
            #      name of the Section related to such a node
            if quick and (j + seed + f) % 8:
                continue
            nd = frnd.choice(carriers(t))
            pairs = [(kind, slot, (t,) if slot == 'value' else t)]
            how = (j // 8 if quick else j) % 4
            if how == 1 and nd['attrs'][second] is not None:
                pairs.append((kind, second, nd['attrs'][second]))
            elif how == 2:
                pairs.append(('Sec', 'name', sec_of(nd)['attrs']['name']))
            elif how == 3:
                pairs.append((kind, 'id', nd['attrs']['id']))
            do_match(sid, g, idx, sorted(pairs), fam_name=fam_name, long_words=(j % 5 == 2), featfn=form_feature)
        if slot == 'value':
            continue        # 'FIND .. HAVING' has no way to name the values of a Property
        for j, t in enumerate(reqs):
            # ---- fuzzy mode: every form once as the only term of the attribute alone (string and dictionary);
            #      some next to a further attribute and a second term (its most similar twin / a text of the node)
            ways = ('str', 'dict')
            if quick and not isinstance(t, NativeReq) and t == t.strip():
                ways = ways[(j + seed) % 2:][:1]        # quick: alternately as string and as dictionary
            do_fuzzy(sid, g, idx, [(kind, slot)], [t], fam_name=fam_name, featfn=form_feature, ways=ways)
            if (j + seed + f) % (8 if quick else 1):
                continue
            nd = frnd.choice(carriers(t))
            how = (j // 8 if quick else j) % 4
            attrs, terms = [(kind, slot)], [t]
            if how == 0 and nd['attrs'][second] is not None:
                attrs.append((kind, second))
                terms.append(nd['attrs'][second])
            elif how == 1:
                attrs.append(('Sec', 'name'))
                terms.append(sec_of(nd)['attrs']['name'])
            elif how == 2:
                attrs.append((kind, 'id'))
                terms.append(nd['attrs']['id'])
            else:
                tw = [u for u in form_twins(t, texts) if (u == u.strip()) == (t == t.strip())]
                if tw:
                    terms.append(tw[0])
            do_fuzzy(sid, g, idx, sorted(attrs), terms, fam_name=fam_name, featfn=form_feature,
                     ways=('dict', 'str')[(j // 8) % 2:][:1] if quick and not isinstance(t, NativeReq) else ('str', 'dict'))

    for k, docs in doc_sets(tier, seed + 1, n_sets):
        g = export(docs)
        if g is None:
            continue
        idx = Index(docs)
        props, secs = idx.nodes['Prop'], idx.nodes['Sec']
        if not secs:
            continue
        # ------------------------------------------------------------------ match mode
        for j in range(per_set):
            kinds = rnd.choice([('Doc',), ('Sec',), ('Prop',), ('Doc', 'Sec'), ('Sec', 'Prop'), ('Sec', 'Prop'),
                                ('Doc', 'Sec', 'Prop')])
            if 'Prop' in kinds and not props:
                continue
            if 'Prop' in kinds:
                p = rnd.choice(props)
                s = idx.by_uri[p['parent']]
            else:
                p, s = None, rnd.choice(secs)
            tops = [x for x in secs if x['top']]
            if 'Doc' in kinds and 'Sec' in kinds and not s['top']:
                s = rnd.choice(tops)
                if p is not None:
                    mine = [x for x in props if x['parent'] == s['uri']]
                    if not mine:
                        continue
                    p = rnd.choice(mine)
            d = idx.by_uri[s['parent']] if s['top'] else rnd.choice(idx.nodes['Doc'])
            node = {'Doc': d, 'Sec': s, 'Prop': p}
            cand = [(kk, a, node[kk]['attrs'][a]) for kk in kinds for a in plain[kk] if clean(node[kk]['attrs'][a])]
            # prefer a pair of equally named attributes of two kinds now and then (name/definition/reference)
            rnd.shuffle(cand)
            n = rnd.randint(1, 4)
            pairs = cand[:n]
            if j % 3 == 0 and len(kinds) > 1:
                same = [c for c in cand if sum(1 for c2 in cand if c2[1] == c[1]) > 1]
                if same:
                    a = rnd.choice(same)[1]
                    pairs = [c for c in cand if c[1] == a] + [c for c in cand if c[1] != a][:max(0, n - 2)]
            if not pairs:
                continue
            if j % 4 == 1:
                i = rnd.randrange(len(pairs))
                pairs[i] = (pairs[i][0], pairs[i][1], ABSENT)
            elif j % 4 == 3:
                # a value of the documents with a blank added: another text, mostly a miss
                i = rnd.randrange(len(pairs))
                pairs[i] = (pairs[i][0], pairs[i][1], rnd.choice([pairs[i][2] + ' ', ' ' + pairs[i][2]]))
            pairs = sorted(set(pairs))
            do_match(k, g, idx, pairs)
        # ------------------------------------------------------------------ fuzzy mode
        for j in range(per_set):
            kinds = rnd.choice([('Sec',), ('Prop',), ('Doc', 'Sec'), ('Sec', 'Prop'), ('Sec', 'Prop')])
            attrs = []
            for kk in kinds:
                attrs += [(kk, a) for a in rnd.sample(plain[kk], rnd.choice([1, 1, 2]))]
            attrs = sorted(set(attrs))[:3]
            pool = sorted({n['attrs'][a] for kk, a in attrs for n in idx.nodes[kk] if clean(n['attrs'][a])})
            if not pool:
                continue
            terms = rnd.sample(pool, min(len(pool), rnd.choice([1, 2])))
            if j % 5 == 4:
                terms[-1] = ABSENT
            do_fuzzy(k, g, idx, attrs, terms)
        # ------------------------------------------------------------------ never raises, every model attribute
        if k == 0:
            for kk in KINDS:
                for a in list(ATTRS[kk]) + LINK_ATTRS[kk]:
                    val = ['x'] if a == 'value' else 'x'
                    sval = '[x]' if a == 'value' else 'x'
                    calls = {
                        'creator-dict': lambda: list(g.query(QueryCreator({kk: [(a, val)]}).get_query())),
                        'creator-str': lambda: list(g.query(QueryCreator().get_query(
                            '%s(%s:%s)' % (KIND_WORD[kk], a, sval), QueryParser()))),
                        'match-str': lambda: FuzzyFinder().find(mode='match', graph=g,
                                                                q_str='%s(%s:%s)' % (KIND_WORD[kk], a, sval)),
                        'match-dict': lambda: FuzzyFinder().find(mode='match', graph=g, q_params={kk: [(a, val)]}),
                        'fuzzy-str': lambda: FuzzyFinder().find(mode='fuzzy', graph=g, q_str='FIND %s(%s) HAVING x'
                                                                % (KIND_WORD[kk], a)),
                        'fuzzy-dict': lambda: FuzzyFinder().find(mode='fuzzy', graph=g,
                                                                 q_params={kk: [a], 'Search': ['x']}),
                    }
                    for entry, fn in calls.items():
                        col.case(cls_key=('never-raises', entry, kk, a), sample=None)
                        st, out = h.call(fn)
                        if st == 'exc':
                            fail('C20.fuzzy/never-raises',
                                 {'clause': 'never-raises', 'feature': 'model-attribute(%s.%s)/%s' % (kk, a, entry)},
                                 {'kind': kk, 'attribute': a, 'entry': entry, 'value': 'x'},
                                 'raised %s: %s' % (type(out).__name__, str(out)[:200]))
    return col.result()
